"""C33 Push notifications reach exactly the entitled subscribers.

Proof half: OPM.Properties.C33 — for every database and notification: a subscription row is posted iff publishing is
configured, the notification is fresh, the row's user has a preference row that contains the topic, whose recorded
roles give access to the unit and whose scope selects the unit, and the row is not the contributor a new-contributor
notification is about; no row is posted twice in any database reachable through the repository operations.
Tie half: real `WebPushRepository` on in-memory SQLite + real `WebPushPublisher` (public constructor, `publish_message`);
deliveries are observed at the outgoing HTTP request (`httpx.AsyncClient.send`, patched on the library class),
vs the model, on generated histories of preference saves / subscriptions / deletions / publishes.
End-to-end stream: a registered engine and the real `FromFrontend.save_method / request_cancel / request_force /
excute_command / excute_control_button_command` (fake dispatcher answering ok) in front of the real publisher, so that the
notification is constructed by `publish_new_contributor_notification`; the oracle takes the contributor from the request.
Oracle: the subscriptions are derived from the history (each subscribe call of user u with endpoint e), entitlement from
the property text; the (user, endpoint) pairs handed to the sender must be exactly the entitled subscriptions.
"""
from __future__ import annotations

import asyncio
import itertools
import json
import types
from unittest.mock import Mock

from vp.core import Check, Failure, drive, load_corpus

META = dict(
    level_text="Lean 4 theorems for all databases, units, topics and notifications: notified_iff (a subscription row is "
               "handed to the sender iff publishing is configured, the notification is not older than 5 minutes, the row "
               "exists, its user has a preference row containing the topic whose recorded roles give access to the unit "
               "and whose scope selects the unit - all accessible / contributed-to / listed - and it is not the contributor "
               "of a new-contributor notification); hence notified_only_entitled and contributor_not_notified; "
               "notified_at_most_once for every database reachable by the repository operations (distinct row ids, one "
               "preference row per user proved as invariants). End to end: contribute_notifies_iff / acting_user_never_notified "
               "compose the construction of the notification by FromFrontend.publish_new_contributor_notification (tail of "
               "save_method, request_cancel, request_force, excute_command, excute_control_button_command) with "
               "notified_iff: the acting user is never notified about their own contribution, the other entitled "
               "subscriptions are. The model is tied to WebPushRepository / "
               "WebPushPublisher.publish_message and to the real FromFrontend requests by differential execution on in-memory "
               "SQLite.",
    level_note="Code as it is (no repair needed). `topics.contains(topic)` is SQL LIKE on the JSON text; it is modelled as "
               "list membership and that is validated on every run against the real repository for all 1- and 2-element "
               "lists of NotificationTopic values (a LIKE window cannot span more than two names); topics outside the enum "
               "cannot be stored through the API; topics are numbered by their position in the enum of the tree under test (no "
               "hard-coded indices, the model is parametric in the number of NEW_CONTRIBUTOR). Every subscribe call is a subscription (user, endpoint); the same endpoint posted twice or by two users gives two (the oracle derives them from the history, not from the table). Trusted: Lean "
               "kernel (+ propext/Classical.choice/Quot.sound), the harness, SQLAlchemy/SQLite (IN, rowid allocation: "
               "differential only). Deliveries are observed at the library boundary (httpx.AsyncClient.send; webpush.WebPush.get is "
               "stubbed to label the request with the subscription), never through private names of the publisher; a "
               "self-check at the start of each run turns a dead hook into a broken tie, not into a verdict.",
    technique="Lean 4 proof (membership characterisation of the three scope lists + SQL IN as filter; sublist argument "
              "for at-most-once; database invariants by induction over operation histories) + differential "
              "correspondence (exhaustive single-user scope + random multi-user histories + malformed) + property oracle",
)
MODULE = "OPM.Properties.C33"
REQUIRED = ["OPM.C33.notified_iff", "OPM.C33.notified_only_entitled", "OPM.C33.contributor_not_notified",
            "OPM.C33.contribute_notifies_iff", "OPM.C33.acting_user_never_notified", "OPM.C33.contribute_only_entitled",
            "OPM.C33.notified_at_most_once", "OPM.C33.notified_at_most_once_reachable", "OPM.C33.run_wf",
            "OPM.C33.entitling_row_unique"]

NOW = 1_700_000_000           # seconds; time.time() as seen by webpush_publisher during a case
FRESH = NOW * 1000
LIMIT = (NOW - 300) * 1000    # timestamps strictly below this are "more than 5 minutes old"
# Topics are numbered by their position in `NotificationTopic` of the tree under test; nothing is hard-coded:
NEW_CONTRIBUTOR = -1          # number of NotificationTopic.NEW_CONTRIBUTOR   } set by _init_topics()
NT = 0                        # number of topics                               }
OTHER = UNSEL = -1            # two different topics that are not NEW_CONTRIBUTOR }

# A case: {"ops": [...]}
#   ["pref", user, [roles], scope(0 access|1 contributed|2 specific), [topics], [units]]
#   ["sub", user, endpoint]   (endpoint = small int; the same endpoint may be posted by several users / several times;
#                              ["sub", user] = an endpoint of its own)      ["del", row_id]
#   ["pub", topic, unit_id, [required roles], [contributor ids or None], contributor_id|None, configured, timestamp|None]
#   ["topicprefs", topic]
#   ["engine", unit_id, [required roles], has_run]     a registered engine (no contributors yet) + a FromFrontend on it
#   ["act", kind, user|None, name, configured]         kind in ACT_KINDS: that user saves the method / cancels / forces /
#                                                       executes a command / presses a control button on the engine


def _topics():
    from openpectus.aggregator.models import NotificationTopic
    return list(NotificationTopic)


def _init_topics() -> None:
    global NEW_CONTRIBUTOR, NT, OTHER, UNSEL
    from openpectus.aggregator.models import NotificationTopic
    ts = _topics()
    NT = len(ts)
    NEW_CONTRIBUTOR = ts.index(NotificationTopic.NEW_CONTRIBUTOR)
    OTHER, UNSEL = [i for i in range(NT) if i != NEW_CONTRIBUTOR][:2]


def _resolve(x):
    """Corpus cases name topics symbolically ("NC", "OTHER", "UNSEL"): put in the numbers of the tree under test."""
    if isinstance(x, str):
        return {"NC": NEW_CONTRIBUTOR, "OTHER": OTHER, "UNSEL": UNSEL}.get(x, x)
    if isinstance(x, list):
        return [_resolve(y) for y in x]
    if isinstance(x, dict):
        return {k: (_resolve(v) if k == "ops" else v) for k, v in x.items()}
    return x


# Process-unit ids: the model knows units as numbers; the real ids are chosen so that they are substrings / SQL-LIKE
# matches of each other ('_' and '%' are LIKE wildcards).  "Listed units" must be matched exactly, so a subscriber who
# listed only LAB_Unit10 or LABxUnit1 must not hear about LAB_Unit1, nor one who listed U10 about U1, nor anybody about "U%".
UNIT_NAMES = {0: "LAB_Unit1", 1: "LABxUnit1", 2: "LAB_Unit10", 3: "U%", 4: "U10", 5: "U1"}


def unit_name(u: int) -> str:
    return UNIT_NAMES.get(u, f"E{u}")


def _scope(i: int):
    from openpectus.aggregator.models import NotificationScope as S
    return [S.PROCESS_UNITS_I_HAVE_ACCESS_TO, S.PROCESS_UNITS_WITH_RUNS_IVE_CONTRIBUTED_TO, S.SPECIFIC_PROCESS_UNITS][i]


def nl(xs) -> str:
    xs = list(xs)
    return "-" if not xs else ",".join(str(x) for x in xs)


ACT_KINDS = ["save", "cancel", "force", "command", "control"]


def op_lines(case, pub="pub", act="act") -> list[str]:
    out = [f"config\t{NEW_CONTRIBUTOR}"]
    for op in case["ops"]:
        k = op[0]
        if k == "pref":
            out.append("\t".join(["pref", str(op[1]), nl(op[2]), str(op[3]), nl(op[4]), nl(op[5])]))
        elif k == "sub":
            out.append(f"sub\t{op[1]}")
        elif k == "del":
            out.append(f"del\t{op[1]}")
        elif k == "topicprefs":
            out.append(f"topicprefs\t{op[1]}")
        elif k == "engine":
            out.append(f"engine\t{op[1]}\t{nl(op[2])}\t{'1' if op[3] else '0'}")
        elif k == "act":
            out.append("\t".join([act, "-" if op[2] is None else str(op[2]), str(op[3]), "1" if op[4] else "0", str(NOW)]))
        else:
            _, topic, uid, req, contribs, cid, conf, ts = op
            out.append("\t".join([pub, str(topic), str(uid), nl(req), nl(c for c in contribs if c is not None),
                                  "-" if cid is None else str(cid), "1" if conf else "0",
                                  "-" if ts is None else str(ts), str(NOW)]))
    return out


_loop = None
_db_cases = 0


def _run(coro):
    global _loop
    if _loop is None:
        _loop = asyncio.new_event_loop()
    return _loop.run_until_complete(coro)


def _unum(s: str) -> int:
    return int(s[4:]) if s.startswith("user") and s[4:].isdigit() else 10 ** 6


def endpoint_of(op, n: int) -> int:
    """Endpoint of a subscribe op (n = its position in the history)."""
    return op[2] if len(op) > 2 else 1000 + n


def _epnum(url: str) -> int:
    tail = str(url).rstrip("/").rsplit("/ep", 1)[-1]
    return int(tail) if tail.isdigit() else 10 ** 6


# ---------------------------------------------------------------------------------------------------------
# Observation boundary.  Deliveries are observed where they leave the process: the HTTP request the publisher finally
# sends (`httpx.AsyncClient.send`, patched on the LIBRARY class, so neither the names of the publisher's private
# methods nor its import style matter), and the encryption step of the `webpush` library (`WebPush.get`, also patched
# on the library class) is replaced by a stub that labels the request with the subscription's `auth` key — the harness
# gives every subscribe call its own `auth`, so a request identifies the subscribe call it belongs to.  `time.time` is
# pinned on the `time` module itself.  Only public entry points are driven: `WebPushPublisher(...)`,
# `publish_message`, the public repository methods, the `FromFrontend` requests.

class HarnessFault(RuntimeError):
    """The harness could not establish the tie with the implementation (never a property failure)."""


class _Hooks:
    def __init__(self):
        self.sent: list[tuple[str | None, str]] = []      # (label of the subscribe call, request url)

    def __enter__(self):
        import time as time_mod
        import httpx
        import webpush
        import ssl
        self._saved = (httpx.AsyncClient.send, webpush.WebPush.get, time_mod.time, ssl.SSLContext.load_verify_locations)
        # every `httpx.AsyncClient()` loads the CA bundle (20 ms); no request reaches the network here, so skip that
        ssl.SSLContext.load_verify_locations = lambda self_ctx, *a, **k: None
        hooks = self

        async def send(client, request, *a, **k):
            hooks.sent.append((request.headers.get("x-verif-sub"), str(request.url)))
            return httpx.Response(201, request=request)

        def get(wp_self, *a, **k):
            sub = k.get("subscription")
            if sub is None:
                sub = next((x for x in list(a) + list(k.values()) if hasattr(x, "keys") and hasattr(x, "endpoint")), None)
            label = str(sub.keys.auth) if sub is not None else "?"
            return types.SimpleNamespace(encrypted=b"verif", headers={"x-verif-sub": label})

        httpx.AsyncClient.send = send
        webpush.WebPush.get = get
        time_mod.time = lambda: float(NOW)
        return self

    def __exit__(self, *exc):
        import time as time_mod
        import httpx
        import webpush
        import ssl
        httpx.AsyncClient.send, webpush.WebPush.get, time_mod.time, ssl.SSLContext.load_verify_locations = self._saved
        return False


_publisher_state: dict = {}


def _publisher():
    """One real WebPushPublisher per process, built by its public constructor (VAPID keys in a temp directory)."""
    if not _publisher_state:
        import os
        import shutil
        import tempfile
        import webpush
        from openpectus.aggregator.webpush_publisher import WebPushPublisher
        os.environ.setdefault("WEBPUSH_SUBSCRIBER_EMAIL", "verif@example.org")
        d = tempfile.mkdtemp(prefix="verif-c33-")
        try:
            pub = WebPushPublisher(d)
        finally:
            shutil.rmtree(d, ignore_errors=True)
        # the attribute that holds the configured sender, found by role (its value is the library's WebPush object)
        attrs = [k for k, v in vars(pub).items() if isinstance(v, webpush.WebPush)]
        if len(attrs) != 1:
            raise HarnessFault(f"cannot find the WebPush object of the publisher (attributes {sorted(vars(pub))})")
        _publisher_state.update(pub=pub, attr=attrs[0], wp=getattr(pub, attrs[0]))
    return _publisher_state["pub"]


def _configure(pub, configured: bool) -> None:
    setattr(pub, _publisher_state["attr"], _publisher_state["wp"] if configured else None)


def execute(case):
    """Runs the history on the real code. Per op: ("ok",) | ("id", n) | ("U", [users]) | ("del", (user, endpoint)|None) |
    ("P", [posted row ids in call order], rows [(id, user)] in the table at that moment,
          [(user, endpoint) of every subscription object handed to the sender])."""
    import openpectus.aggregator.data.models as DMdl
    import openpectus.aggregator.models as Mdl
    from openpectus.aggregator.data import database
    from openpectus.aggregator.data.repository import WebPushRepository
    from sqlalchemy import delete, select
    from webpush.types import AnyHttpUrl, WebPushKeys, WebPushSubscription

    topics = _topics()
    global _db_cases
    if _db_cases % 200 == 0:       # a fresh in-memory database every 200 cases, emptied tables in between
        database.configure_db("sqlite:///:memory:")
        DMdl.DBModel.metadata.create_all(database._engine)  # type: ignore[arg-type]
    else:
        with database._engine.begin() as conn:  # type: ignore[union-attr]
            conn.execute(delete(DMdl.WebPushSubscription))
            conn.execute(delete(DMdl.WebPushNotificationPreferences))
    _db_cases += 1
    publisher = _publisher()
    hooks = _Hooks()
    calls: dict[str, tuple[int, int, int | None]] = {}   # label of a subscribe call -> (user, endpoint, row id)

    def observed():
        """What left the process since the last clear: (row ids, (user, endpoint) pairs) of the subscribe calls."""
        ids, pairs = [], []
        for label, url in hooks.sent:
            user, ep, rid = calls.get(label, (10 ** 6, _epnum(url), None))
            if _epnum(url) != ep:
                ep = _epnum(url)                         # delivered somewhere else than the subscription said
            ids.append(rid if rid is not None else -1)
            pairs.append((user, ep))
        return ids, pairs
    obs = []
    eng: dict = {}                                       # the engine of the case: data, FromFrontend

    def table_rows():
        with database.create_scope():
            return [(r.id, _unum(r.user_id)) for r in
                    database.scoped_session().scalars(select(DMdl.WebPushSubscription)).all()]

    async def do_act(kind, contributor):
        import openpectus.protocol.aggregator_messages as AM
        ff, eid, ed = eng["ff"], eng["id"], eng["data"]
        if kind == "save":
            await ff.save_method(eid, Mdl.Method(lines=[], version=ed.method.version, last_author=""), contributor)
        elif kind == "cancel":
            await ff.request_cancel(eid, "line-1", contributor)
        elif kind == "force":
            await ff.request_force(eid, "line-1", contributor)
        elif kind == "command":
            await ff.excute_command(eid, contributor.id, contributor.name, AM.InjectCodeMsg(pcode="Mark: a"))
        elif kind == "control":
            await ff.excute_control_button_command(eid, contributor.id, contributor.name,
                                                   AM.ExecuteControlCommandMsg(name="Start"))
        else:
            raise ValueError(kind)
        for _ in range(50):                              # let the scheduled publish task(s) finish
            if len(asyncio.all_tasks()) <= 1:
                break
            await asyncio.sleep(0)

    hooks.__enter__()
    try:
        for n, op in enumerate(case["ops"]):
            k = op[0]
            if k == "engine":
                import openpectus.protocol.aggregator_messages as AM
                from datetime import datetime, UTC
                from unittest.mock import AsyncMock
                from openpectus.aggregator.aggregator import FromFrontend
                ed = Mdl.EngineData(engine_id=unit_name(op[1]), computer_name="c", engine_version="1", hardware_str="",
                                    uod_name="u", uod_author_name="", uod_author_email="", uod_filename="",
                                    location="", data_log_interval_seconds=1)
                ed.required_roles = {f"role{r}" for r in op[2]}
                if op[3]:
                    ed.run_data = Mdl.RunData.empty(run_id="run-1", run_started=datetime.now(UTC))
                dispatcher = Mock()
                dispatcher.rpc_call = AsyncMock(return_value=AM.SuccessMessage())       # the engine answers ok
                fe_publisher = Mock()
                fe_publisher.publish_method_changed = AsyncMock()
                eng.update(id=unit_name(op[1]), data=ed,
                           ff=FromFrontend({unit_name(op[1]): ed}, dispatcher, fe_publisher, publisher))
                obs.append(("ok",))
                continue
            if k == "act":
                _, kind, actor, name, conf = op
                rows = table_rows()
                _configure(publisher, conf)
                hooks.sent.clear()
                _run(do_act(kind, Mdl.Contributor(id=None if actor is None else f"user{actor}", name=f"name{name}")))
                obs.append(("A", *observed()[:1], rows, observed()[1]))
                continue
            if k == "pub":
                _, topic, uid, req, contribs, cid, conf, ts = op
                with database.create_scope():
                    rows = [(r.id, _unum(r.user_id)) for r in
                            database.scoped_session().scalars(select(DMdl.WebPushSubscription)).all()]
                _configure(publisher, conf)
                unit = Mdl.EngineData(engine_id=unit_name(uid), computer_name="c", engine_version="1", hardware_str="",
                                      uod_name="u", uod_author_name="", uod_author_email="", uod_filename="",
                                      location="", data_log_interval_seconds=1)
                unit.required_roles = {f"role{r}" for r in req}
                unit.contributors = {Mdl.Contributor(id=None if c is None else f"user{c}", name=f"n{i}")
                                     for i, c in enumerate(contribs)}
                notification = Mdl.WebPushNotification(
                    title="t", timestamp=ts,
                    data=Mdl.WebPushData(process_unit_id=unit_name(uid), contributor_id=None if cid is None else f"user{cid}"))
                hooks.sent.clear()
                _run(publisher.publish_message(notification, topics[topic], unit))
                obs.append(("P", observed()[0], rows, observed()[1]))
                continue
            with database.create_scope():
                s = database.scoped_session()
                repo = WebPushRepository(s)
                if k == "pref":
                    repo.store_notifications_preferences(Mdl.WebPushNotificationPreferences(
                        user_id=f"user{op[1]}", user_roles={f"role{r}" for r in op[2]}, scope=_scope(op[3]),
                        topics={topics[t] for t in op[4]}, process_units={unit_name(u) for u in op[5]}))
                    obs.append(("ok",))
                elif k == "sub":
                    repo.store_subscription(WebPushSubscription(
                        endpoint=AnyHttpUrl(f"https://push.example/ep{endpoint_of(op, n)}"),
                        keys=WebPushKeys(auth=f"call{n}", p256dh="p")), f"user{op[1]}")
                    new_id = max(r.id for r in s.scalars(select(DMdl.WebPushSubscription)).all())
                    calls[f"call{n}"] = (op[1], endpoint_of(op, n), new_id)
                    obs.append(("id", new_id))
                elif k == "del":
                    row = s.get(DMdl.WebPushSubscription, op[1])
                    gone = None
                    if row is not None:
                        gone = (_unum(row.user_id), _epnum(row.endpoint))
                        repo.delete_subscription(row)
                    obs.append(("del", gone))
                elif k == "topicprefs":
                    obs.append(("U", sorted(_unum(p.user_id) for p in
                                            repo.get_notification_preferences_for_topic(topics[op[1]]))))
                else:
                    raise ValueError(k)
    finally:
        hooks.__exit__(None, None, None)
    return obs


def selfcheck() -> str | None:
    """The hooks must see a delivery that is certain to happen: one user, access scope, the topic selected, an open
    unit, one subscription. Returns a description of what is wrong, or None. A dead hook must never be read as
    "nobody was notified"."""
    case = {"ops": [["pref", 1, [], 0, [OTHER], []], ["sub", 1, 1], ["pub", OTHER, 0, [], [], None, True, FRESH],
                    ["pub", OTHER, 0, [], [], None, False, FRESH]]}
    try:
        obs = execute(case)
    except Exception as e:  # noqa: BLE001
        return f"harness self-check could not drive the implementation: {type(e).__name__}: {str(e)[:200]}"
    if list(obs[2][1]) != [1] or list(obs[2][3]) != [(1, 1)]:
        return (f"harness self-check: the delivery to a trivially entitled subscriber was not observed at the HTTP boundary "
                f"(observed {obs[2][3]!r}): the observation hook is dead, nothing can be concluded about notifications")
    if list(obs[3][1]):
        return "harness self-check: a publish with publishing not configured was observed (cannot switch the sender off)"
    return None


_OBS: dict[int, list] = {}


def impl_lines(case) -> list[str]:
    try:
        obs = execute(case)
    except Exception as e:  # noqa: BLE001
        return [f"err:{type(e).__name__}:{e}"[:200]]
    _OBS[id(case)] = obs
    out = ["ok"]            # answer to the `config` line
    for o in obs:
        if o[0] in ("ok", "del"):
            out.append("ok")
        elif o[0] == "id":
            out.append(f"id={o[1]}")
        elif o[0] == "U":
            out.append("U:" + nl(o[1]))
        else:
            out.append("P:" + nl(sorted(o[1])))
    return out


# ---------------------------------------------------------------------------------------------------------
# property oracle: the subscriptions are those made in the history (every subscribe call of user u with endpoint e
# is a subscription (u, e); posting twice makes two), entitlement is computed straight from the property text, and the
# (user, endpoint) pairs handed to the sender are compared with the entitled subscriptions.

def oracle(case) -> list[Failure] | None:
    from collections import Counter
    obs = _OBS.get(id(case)) or execute(case)
    prefs: dict[int, dict] = {}
    subs: list[tuple[int, int]] = []          # subscriptions made and not deleted: (user, endpoint), with multiplicity
    found: dict[str, Failure] = {}
    engine: dict = {}
    for i, (op, o) in enumerate(zip(case["ops"], obs)):
        if op[0] == "engine":
            engine = {"id": op[1], "req": op[2], "run": op[3], "contributors": set()}
            continue
        if op[0] == "pref":
            prefs[op[1]] = {"roles": set(op[2]), "scope": op[3], "topics": set(op[4]), "units": set(op[5])}
            continue
        if op[0] == "sub":
            subs.append((op[1], endpoint_of(op, i)))
            continue
        if op[0] == "del":
            if o[0] == "del" and o[1] is not None and tuple(o[1]) in subs:
                subs.remove(tuple(o[1]))     # the row that was deleted stood for this subscription
            continue
        if op[0] == "act":
            # a request of user `actor` on the engine: the push about it is a NEW_CONTRIBUTOR notification about that user.
            # The oracle takes the contributor from the REQUEST, not from whatever the code put into the notification.
            _, _kind, actor, name, conf = op
            is_new = (actor, name) not in engine["contributors"]
            engine["contributors"].add((actor, name))
            topic, uid, req, cid, ts = NEW_CONTRIBUTOR, engine["id"], engine["req"], actor, None
            contribs = [a for a, _n in engine["contributors"]]
            expect = bool(is_new and actor is not None and engine["run"] and conf)
        elif op[0] == "pub":
            _, topic, uid, req, contribs, cid, conf, ts = op
            expect = bool(conf and (ts is None or ts == 0 or ts >= LIMIT))
        else:
            continue
        posted_ids, pairs = o[1], [tuple(x) for x in o[3]]
        where = {"ops": case["ops"][:i + 1]}

        def fail(key, detail):
            found.setdefault(key, Failure(key, where, f"publish #{i} {op}: {detail}"))

        def why_not(user) -> str | None:
            p = prefs.get(user)
            if p is None:
                return "notified-subscription-of-user-without-preferences"
            if topic not in p["topics"]:
                return "notified-although-topic-not-selected"
            if req and not (set(req) & p["roles"]):
                return "notified-although-recorded-roles-give-no-access"
            if p["scope"] == 1 and user not in [c for c in contribs if c is not None]:
                return "notified-although-user-did-not-contribute"
            if p["scope"] == 2 and uid not in p["units"]:
                return "notified-although-unit-not-listed"
            return None

        def about(user) -> bool:
            return topic == NEW_CONTRIBUTOR and cid is not None and user == cid

        for rid in set(posted_ids):
            if posted_ids.count(rid) > 1:
                fail("subscription-notified-twice", f"row {rid} posted {posted_ids.count(rid)} times")
        allowed = Counter(se for se in subs if why_not(se[0]) is None and not about(se[0]))
        required = allowed if expect else Counter()
        got = Counter(pairs)
        for (user, ep), k in sorted((got - allowed).items()):
            w = why_not(user)
            if w:
                fail(w, f"endpoint {ep} notified for user {user}; preferences {prefs.get(user)}")
            elif about(user):
                fail("new-contributor-notification-sent-to-the-contributor", f"endpoint {ep} of user {user}")
            elif allowed[(user, ep)] > 0:
                fail("subscription-notified-twice",
                     f"(user {user}, endpoint {ep}) posted {got[(user, ep)]} times for {allowed[(user, ep)]} subscription(s)")
            elif any(e == ep and u != user for u, e in subs):
                fail("notified-on-behalf-of-other-user",
                     f"endpoint {ep} notified as user {user}, who has no subscription with it; it was subscribed by "
                     f"{sorted({u for u, e in subs if e == ep})}")
            else:
                fail("notified-subscription-never-made", f"(user {user}, endpoint {ep}); subscriptions {sorted(subs)}")
        for (user, ep), k in sorted((required - got).items()):
            fail("entitled-subscription-not-notified",
                 f"user {user} subscribed with endpoint {ep} and is entitled (preferences {prefs.get(user)}), but "
                 f"{'only ' + str(got[(user, ep)]) + ' of ' + str(required[(user, ep)]) if got[(user, ep)] else 'no'} "
                 f"notification went to (user {user}, endpoint {ep}); posted: {sorted(got.elements())}")
    return list(found.values()) or None


# ---------------------------------------------------------------------------------------------------------
# generators

def gen_exhaustive() -> list[dict]:
    """One user (1) with one subscription; another user (2) as the possible other contributor."""
    cases = []
    subsets = [[], [0], [1], [0, 1]]
    for roles, req, scope, sel, contributed, listed, nc in itertools.product(
            subsets, subsets, (0, 1, 2), (0, 1), (0, 1), (0, 1), (0, 1, 2)):
        topic = NEW_CONTRIBUTOR if nc else OTHER
        cid = None if nc == 0 else (2 if nc == 1 else 1)
        ops = [["pref", 1, roles, scope, [topic] if sel else [UNSEL], [5] if listed else [4]], ["sub", 1, 1],
               ["pub", topic, 5, req, [1, 2] if contributed else [2], cid, True, FRESH]]
        cases.append({"ops": ops})
    return cases


def gen_shared() -> list[dict]:
    """Two users (1, 2) posting the SAME endpoint 7 (shared browser) in every order of 2-3 subscribe calls, each of them
    entitled or not, with and without a later deletion of the first row."""
    cases = []
    orders = [o for ln in (2, 3) for o in itertools.product((1, 2), repeat=ln) if len(set(o)) == 2]
    for order, sel1, sel2, dele in itertools.product(orders, (0, 1), (0, 1), (0, 1)):
        ops = [["pref", 1, [], 0, [OTHER] if sel1 else [UNSEL], []], ["pref", 2, [], 0, [OTHER] if sel2 else [UNSEL], []]]
        ops += [["sub", u, 7] for u in order]
        ops.append(["pub", OTHER, 0, [], [], None, True, FRESH])
        if dele:
            ops += [["del", 1], ["pub", OTHER, 0, [], [], None, True, FRESH]]
        cases.append({"ops": ops})
    return cases


def gen_random(ctx: Check, n: int) -> list[dict]:
    rng = ctx.rng
    cases = []
    for _ in range(n):
        nusers = rng.randrange(1, 6)
        hot = rng.sample(range(NT), 2) + [NEW_CONTRIBUTOR]         # topics used by the publishes of this case
        ops: list[list] = []
        nsubs = 0
        sharing = rng.random() < 0.4                             # some browsers are used by several users

        def endpoint(u):
            if sharing and rng.random() < 0.5:
                return 90 + rng.randrange(2)
            return 10 * u + rng.randrange(3)                      # own endpoints; re-posting the same one happens

        def pref(u):
            topics = sorted({t for t in range(NT) if rng.random() < (0.6 if t in hot else 0.15)})
            return ["pref", u, sorted(rng.sample(range(3), rng.choice([0, 1, 1, 2, 3]))), rng.randrange(3), topics,
                    sorted(rng.sample(range(3), rng.choice([0, 1, 1, 2])))]

        for u in range(nusers):
            if rng.random() < 0.9:
                ops.append(pref(u))
            for _ in range(rng.choice([0, 1, 1, 2, 3])):
                ops.append(["sub", u, endpoint(u)])
                nsubs += 1
        rng.shuffle(ops)
        for _ in range(rng.randrange(2, 7)):
            k = rng.random()
            if k < 0.15:
                ops.append(pref(rng.randrange(nusers)))            # roles / scope / topics change: "recorded" roles
            elif k < 0.22 and nsubs:
                ops.append(["del", rng.randrange(1, nsubs + 1)])
            elif k < 0.30:
                u = rng.randrange(nusers)
                ops.append(["sub", u, endpoint(u)])
                nsubs += 1
            else:
                topic = rng.choice(hot + hot + [rng.randrange(NT)])
                contribs = rng.sample(range(nusers), rng.randrange(0, nusers + 1))
                cid = rng.choice(contribs) if contribs and rng.random() < 0.8 else rng.choice([None, rng.randrange(nusers)])
                if topic != NEW_CONTRIBUTOR and rng.random() < 0.7:
                    cid = None
                req = sorted(rng.sample(range(3), rng.choice([0, 0, 1, 1, 2])))
                ops.append(["pub", topic, rng.randrange(3), req, contribs, cid, True, rng.choice([FRESH, FRESH, None])])
        if not any(o[0] == "pub" for o in ops):
            ops.append(["pub", hot[0], 0, [], [], None, True, FRESH])
        cases.append({"ops": ops})
    return cases


def gen_malformed(ctx: Check, n: int) -> list[dict]:
    rng = ctx.rng
    nc, ot = NEW_CONTRIBUTOR, OTHER
    cases = [{"ops": [["pub", ot, 0, [], [], None, True, FRESH]]},
             {"ops": [["sub", 1], ["pub", ot, 0, [], [], None, True, FRESH]]},            # subscription without preferences
             {"ops": [["pref", 1, [], 0, list(range(NT)), []], ["sub", 1], ["sub", 1], ["del", 2], ["sub", 1],
                      ["pub", ot, 0, [], [], None, True, FRESH], ["del", 1], ["del", 3], ["del", 9],
                      ["pub", ot, 0, [], [], None, True, FRESH]]},
             {"ops": [["pref", 1, [], 0, [nc], []], ["sub", 1], ["pub", nc, 0, [], [None, 1], 1, True, FRESH],
                      ["pub", nc, 0, [], [None], None, True, FRESH], ["pub", ot, 0, [], [1], 1, True, FRESH]]},
             # anonymous user, no engine run, publishing not configured, the same user twice under two names
             {"ops": [["pref", 1, [], 0, [nc], []], ["pref", 2, [], 0, [nc], []], ["sub", 1], ["sub", 2],
                      ["engine", 0, [], True], ["act", "save", None, 0, True], ["act", "cancel", 1, 1, False],
                      ["act", "force", 1, 1, True], ["act", "command", 1, 2, True],
                      ["engine", 0, [], False], ["act", "control", 2, 2, True]]}]
    for _ in range(n):
        ops: list[list] = []
        for u in range(rng.randrange(0, 4)):
            if rng.random() < 0.7:
                ops.append(["pref", u, sorted(rng.sample(range(3), rng.randrange(0, 4))), rng.randrange(3),
                            sorted(rng.sample(range(NT), rng.choice([0, 1, NT // 2, NT]))), sorted(rng.sample(range(4), rng.randrange(0, 3)))])
            for _ in range(rng.randrange(0, 3)):
                ops.append(["sub", u, rng.randrange(3)])           # three endpoints shared by everybody
        for _ in range(rng.randrange(1, 5)):
            ts = rng.choice([FRESH, None, 0, 1, LIMIT, LIMIT - 1, LIMIT + 1, LIMIT - 60_000, FRESH + 10 ** 7])
            contribs = [rng.choice([None, 0, 1, 2, 3]) for _ in range(rng.randrange(0, 4))]
            ops.append(["pub", rng.choice([OTHER, NEW_CONTRIBUTOR, NEW_CONTRIBUTOR, NT - 1]), rng.randrange(5), sorted(rng.sample(range(4), rng.randrange(0, 3))),
                        contribs, rng.choice([None, 0, 1, 2, 7]), rng.random() < 0.8, ts])
            if rng.random() < 0.2:
                ops.append(["del", rng.randrange(1, 6)])
        cases.append({"ops": ops})
    return cases


def gen_e2e_small() -> list[dict]:
    """User 1 acts on unit 5 through each of the five contributing requests; user 1 is subscribed and selects
    NEW_CONTRIBUTOR under each of the three scopes; user 2 (access scope) must hear about it, user 1 never."""
    cases = []
    nc = NEW_CONTRIBUTOR
    for kind, scope, has_run, again in itertools.product(ACT_KINDS, (0, 1, 2), (True, False), (False, True)):
        ops = [["pref", 1, [], scope, [nc], [5]], ["pref", 2, [], 0, [nc], []], ["sub", 1, 1], ["sub", 2, 2], ["sub", 1, 3],
               ["engine", 5, [], has_run], ["act", kind, 1, 1, True]]
        if again:
            ops.append(["act", kind, 1, 1, True])
        ops.append(["act", kind, 2, 2, True])
        cases.append({"ops": ops})
    return cases


def gen_e2e(ctx: Check, n: int) -> list[dict]:
    """Random databases, then users contribute to a running (or idle) engine through the real FromFrontend requests."""
    rng = ctx.rng
    cases = []
    nc = NEW_CONTRIBUTOR
    for _ in range(n):
        nusers = rng.randrange(2, 6)
        ops: list[list] = []
        for u in range(nusers):
            if rng.random() < 0.9:
                topics = sorted({t for t in range(NT) if rng.random() < (0.75 if t == nc else 0.2)})
                ops.append(["pref", u, sorted(rng.sample(range(3), rng.choice([0, 1, 1, 2, 3]))), rng.randrange(3), topics,
                            sorted(rng.sample(range(3), rng.choice([0, 1, 1, 2])))])
            for _ in range(rng.choice([0, 1, 1, 2])):
                ops.append(["sub", u, 10 * u + rng.randrange(2) if rng.random() < 0.8 else 90])
        rng.shuffle(ops)
        ops.append(["engine", rng.randrange(3), sorted(rng.sample(range(3), rng.choice([0, 0, 1, 2]))), rng.random() < 0.85])
        for _ in range(rng.randrange(2, 7)):
            k = rng.random()
            if k < 0.08:
                ops.append(["engine", rng.randrange(3), sorted(rng.sample(range(3), rng.choice([0, 1]))), rng.random() < 0.8])
            elif k < 0.14:
                ops.append(["sub", rng.randrange(nusers), 90])
            else:
                actor = None if rng.random() < 0.08 else rng.randrange(nusers)
                ops.append(["act", rng.choice(ACT_KINDS), actor, actor if actor is not None and rng.random() < 0.9 else 77,
                            rng.random() < 0.92])
        cases.append({"ops": ops})
    return cases


def gen_like() -> list[dict]:
    """Preference rows for every 0-, 1- and 2-element (ordered) topic list; then every topic is queried."""
    n = NT
    lists = [[]] + [[a] for a in range(n)] + [[a, b] for a in range(n) for b in range(n) if a < b]
    ops = [["pref", i, [], 0, ts, []] for i, ts in enumerate(lists)] + [["topicprefs", t] for t in range(n)]
    full = [["pref", 500, [], 0, list(range(n)), []]] + [["pref", 501 + t, [], 0, [x for x in range(n) if x != t], []]
                                                         for t in range(n)] + [["topicprefs", t] for t in range(n)]
    return [{"ops": ops}, {"ops": full}]


def is_nontrivial(case, _out=None) -> bool:
    return sum(1 for o in case["ops"] if o[0] == "pref") >= 1 and any(
        (o[0] == "pub" and (o[3] or o[1] == NEW_CONTRIBUTOR)) or o[0] == "act" for o in case["ops"])


def _count(ctx: Check, case) -> None:
    obs = _OBS.get(id(case))
    for op, o in zip(case["ops"], obs or []):
        if op[0] == "act":
            ctx.count("acts")
            ctx.count(f"act={op[1]}")
            if o[1]:
                ctx.count("act-with-notification")
            if op[2] is not None and any(u == op[2] for _rid, u in o[2]):
                ctx.count("act-by-subscribed-user")
            continue
        if op[0] != "pub":
            continue
        ctx.count("publishes")
        ctx.count("topic=new_contributor" if op[1] == NEW_CONTRIBUTOR else "topic=other")
        if op[3]:
            ctx.count("unit-requires-roles")
        if op[5] is not None:
            ctx.count("has-contributor_id")
        if not op[6]:
            ctx.count("not-configured")
        ctx.count(f"posted={min(len(o[1]), 4)}{'+' if len(o[1]) >= 4 else ''}")
        if o[2] and len(o[1]) < len(o[2]):
            ctx.count("some-row-not-notified")
    eps: dict[int, set] = {}
    for n, o in enumerate(case["ops"]):
        if o[0] == "sub":
            eps.setdefault(endpoint_of(o, n), set()).add(o[1])
    if any(len(v) > 1 for v in eps.values()):
        ctx.count("endpoint-shared-between-users")
    subs = [(o[1], endpoint_of(o, n)) for n, o in enumerate(case["ops"]) if o[0] == "sub"]
    if len(set(subs)) < len(subs):
        ctx.count("same-user-same-endpoint-twice")
    scopes = {o[3] for o in case["ops"] if o[0] == "pref"}
    for s in scopes:
        ctx.count(f"scope={['access', 'contributed', 'specific'][s]}")


def run(ctx: Check) -> int:
    ctx.prove(MODULE, REQUIRED)
    _init_topics()
    dead = selfcheck()
    if dead:
        # broken tie, not a property failure: no oracle verdicts are taken from a run whose hooks do not work
        ctx.proof_broken.append(dead)
        ctx.notes.append(dead)
        return ctx.finish()
    corpus = [_resolve(c) for c in load_corpus(ctx.id) if "ops" in c]
    small = gen_exhaustive() + gen_shared()
    e2e = gen_e2e_small() + gen_e2e(ctx, ctx.n(250, 5000))
    rnd = gen_random(ctx, ctx.n(700, 15000))
    bad = gen_malformed(ctx, ctx.n(200, 4000))
    like = gen_like()
    ctx.rule = ("histories of repository operations (save preferences = upsert, subscribe, delete row) and publishes, on "
                "in-memory SQLite, deliveries observed at the outgoing HTTP request; posted row ids compared after every publish, new row ids after "
                "every subscribe. small: ALL combinations for one user with one subscription: roles x required roles "
                "(subsets of 2) x scope x topic selected x contributed x unit listed x (other topic | new-contributor about "
                "someone else | about the user) = 1152; plus two users posting the SAME endpoint in every order of 2-3 subscribe "
                "calls x entitled or not x later deletion = 64. random (40 % of the cases with endpoints shared between users, "
                "own endpoints re-posted): 1-5 users, 0-3 rows each, re-saved preferences, deletions, "
                "2-6 publishes. malformed: not configured, stale / boundary / zero / missing timestamps, rows without "
                "preferences, contributors without id, deleted and unknown rows. like: every 0/1/2-element topic list x "
                "every topic through get_notification_preferences_for_topic. e2e: a registered engine and the REAL FromFrontend "
                "requests save_method / request_cancel / request_force / excute_command / excute_control_button_command "
                "(dispatcher answering ok) with the real WebPushPublisher behind them, so the notification is built by "
                "publish_new_contributor_notification: every request kind x scope of the acting user x run active or not x "
                "repeated (60) + random databases with 2-6 requests (anonymous users, repeated contributors, idle engines, not "
                "configured). Topics are numbered by their position in NotificationTopic of the tree under test. Non-trivial = a publish about a unit that "
                "requires roles, or a new-contributor publish.")
    all_cases: list[dict] = []
    for name, cases in (("corpus+small", corpus + small), ("random", rnd), ("malformed", bad), ("like", like),
                        ("e2e", e2e)):
        _o, mout = ctx.correspond(name, "WebPush", cases, op_lines, impl_lines, nontrivial=is_nontrivial,
                                  impl_timeout=60.0)
        if name == "random" and mout:
            ctx.selftest(name, "WebPush", cases, lambda c: op_lines(c, "pubmut"), mout)
        if name == "e2e" and mout:
            ctx.selftest(name, "WebPush", cases, lambda c: op_lines(c, act="actmut"), mout)
        all_cases += cases
    for c in all_cases:
        _count(ctx, c)
    ctx.monitor(all_cases, oracle, impl_timeout=60.0)
    ctx.exhaustive = True
    ctx.extra["exhaustive_scope"] = ("single user / single subscription: all 1152 combinations of the inputs the targeting "
                                     "reads; LIKE-vs-membership: all topic lists of length <= 2 and the lists that lack one topic; "
                                     "multi-user histories are sampled")
    ctx.assumptions = ["preferences are written through WebPushRepository.store_notifications_preferences (topics are "
                       "NotificationTopic values)", "a subscription = one subscribe call of a user with an endpoint (the code as it is stores one row per call; the "
                       "oracle derives the subscriptions from the history, not from the table)",
                       "time.time is pinned (on the time module) during a case; deliveries are observed at httpx.AsyncClient.send and "
                       "labelled by a stub of webpush.WebPush.get (both patched on the library classes); a self-check at the start "
                       "of every run proves the hooks see a certain delivery",
                       "process-unit ids used: " + ", ".join(f"{k}={v!r}" for k, v in sorted(UNIT_NAMES.items())) +
                       " (substrings / LIKE matches of each other on purpose)"]
    return ctx.finish(search=lambda c: c.monitor(gen_e2e_small() + gen_shared() + gen_e2e(c, 500) + gen_random(c, 1500)
                                                  + gen_exhaustive(), oracle, impl_timeout=60.0))


def replay(obj) -> int:
    case = obj.get("case")
    if not isinstance(case, dict) or "ops" not in case:
        print(json.dumps(obj, indent=1))
        return 0
    _init_topics()
    impl = impl_lines(case)
    model = drive("WebPush", [op_lines(case)])[0]
    for op, a, b in zip([["config", NEW_CONTRIBUTOR]] + case["ops"], impl, model):
        print(f"{str(op):90} impl {a:14} model {b}" + ("" if a == b else "   <-- differs"))
    fs = oracle(case) or []
    for f in fs:
        print(f"oracle: {f.key}: {f.detail}")
    if not fs:
        print("oracle: ok")
    return 1 if fs else 0
