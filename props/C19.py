"""C19 Method analysis never crashes and flags undefined names.

Proof half: OPM.Properties.C19 over the model OPM.Model.Analyzer (decision logic of ConditionCheckAnalyzer,
SimulateCheckAnalyzer, CommandCheckAnalyzer, the sequencing of SemanticCheckAnalyzer and the exception wrapper of
lsp_analysis.lint; unit functions = model OPM.Units over the regenerated unit table).
Tie half: correspondence of the real analyzers / the real `lint` with the model on generated (method text, tag set,
command set) triples.  The real parser produces the nodes; their fields are transmitted to the model.

The model follows the code WITH fixes/C19-undefined-tag-falls-through.diff.  On the unrepaired tree the check reports
a violation (ValueError out of the analysis for an undefined tag without a similar name; `Simulate off` of such a tag
is not flagged at all).
"""
from __future__ import annotations

import itertools
import json
import traceback

from vp.core import reraise_harness_fault as core_reraise
from vp.core import Check, Failure, enc, encb, load_corpus

META = dict(
    level_text="Lean 4 theorems over a model of six of the nine analyzers SemanticCheckAnalyzer runs (indentation, threshold, "
               "condition, Simulate, command, macro — the ones with decision logic and partial operations) and of lint's "
               "exception wrapper, for ALL node lists, tag sets (units arbitrary, also outside the unit table), command sets "
               "and ALL similarity functions: these six return normally (no exception path is reachable), lint maps every "
               "item to a diagnostic (never the generic one), every Watch/Alarm/Simulate/Simulate-off reference to an "
               "undefined tag yields an 'UndefinedTag' error and every command line with an undefined command an "
               "'UndefinedCommand' error on its line, every incomplete Watch/Alarm condition an error on its line. For the "
               "other three analyzers (unreachable code, infinite block, whitespace) a table regenerated from analyzer.py by "
               "an AST scan shows they contain no partial operation (theorem over the table). Tied to the code by "
               "differential execution of the real SemanticCheckAnalyzer and the real lint on generated and exhaustive "
               "small-scope methods; the oracle checks the named item kind per offending line in the lint output. Theorem "
               "lint_history_is_pure: over EVERY history of registrations (with the engine's data gone or kept), "
               "definition updates and lints by any sessions each lint equals the pure function of (current definition, "
               "text of that call) — for the code with fixes/C19-uodinfo-clears-analysis-cache.diff; for the code before "
               "it only under a protocol hypothesis (lint_history_is_pure_asis), with a decided witness of the stale lint "
               "(lint_history_asis_stale_after_kept_reregistration); a probe finds which of the two the code is. A history stream drives the real aggregator message handlers (register, disconnect, "
               "UodInfo) and the real lint with one engine and several editor sessions (same uri, independent version "
               "counters) while the tag and command sets change.",
    level_note="The model follows the code with fixes/C19-undefined-tag-falls-through.diff (committed) and "
               "fixes/C19-tag-unit-unknown-to-unit-table.diff (committed). The lint-session model has two variants — with "
               "and without fixes/C19-uodinfo-clears-analysis-cache.diff (handle_UodInfoMsg clears create_analysis_input's "
               "cache) — selected by a probe through the real handlers; without it the lints after a lint that fell between "
               "a data-keeping re-registration and its UodInfo keep the previous tag/command sets (reported under their own "
               "keys). Hypotheses: "
               "the unit table is well-formed (checked on the regenerated table), command-node names are not blank and "
               "Simulate-off arguments are stripped (parser guarantees, checked per case). Not modelled, covered by the "
               "oracle only (any exception is a violation): the parser, create_analysis_input, AnalyzerItem ranges, "
               "get_item_range/get_item_severity, attribute reads on None and AST helpers inside the three unmodelled "
               "analyzers (the AST scan is syntactic). macro_calling_macro (C41) is a parameter.",
    technique="Lean 4 proof (case analysis of the decision procedures, induction over the node list; source-derived table "
              "checked by kernel evaluation) + differential correspondence (exhaustive small scope + random + malformed text)",
)
MODULE = "OPM.Properties.C19"
REQUIRED = ["OPM.C19.analyzeAll_total", "OPM.C19.lintAll_keeps_all_diagnostics", "OPM.C19.lint_history_is_pure",
            "OPM.C19.lint_history_is_pure_asis", "OPM.C19.lint_history_asis_stale_after_kept_reregistration",
            "OPM.C19.unmodelled_analyzers_have_no_partial_operation",
            "OPM.C19.analyze_total", "OPM.C19.lint_keeps_all_diagnostics", "OPM.C19.undefined_tag_flagged",
            "OPM.C19.undefined_simulate_off_tag_flagged", "OPM.C19.undefined_command_flagged",
            "OPM.C19.incomplete_condition_flagged"]

UNITS = [None, None, "s", "min", "L/h", "degC", "%", "bar", "mS/cm", "CV", "kg", "L", "AU", "LMH", "m2",
         "furlong", "rpm"]   # the last two: units the engine may publish and this installation's table lacks
TAG_POOL = ["Run Time", "Run Counter", "Block Time", "Process Time", "System State", "Flow", "TT01", "PU01 Speed",
            "Conductivity", "pH", "A", "AB", "FT01.PV", "Base", "Clock"]
FAR_NAMES = ["Xyzzy", "Qwertyuiop", "ZZ9 Plural Z", "Unobtainium", "Nope", "xxx", "0815", "_tmp_"]
DURATION = r"RNAP-v1-^\s*(?P<number>[0-9]+[.][0-9]*?|[.][0-9]+|[0-9]+)\s* ?(?P<number_unit>s|min|h)\s*$"
CMD_POOL = [("Wait", DURATION), ("Stop", "RNAP-v1-^$"), ("Pause", None), ("Hold", DURATION), ("Info", None),
            ("Base", r"RNAP-v1-^\s*(L|h|min|s|mL|CV|g|kg)\s*$"), ("Restart", "RNAP-v1-^$"),
            ("Increment run counter", "RNAP-v1-^$"), ("Reset", "RNAP-v1-^$"), ("Valve", r"RNAP-v1-^(open|closed)$"),
            ("PU01", r"RNAP-v1-^\s*(?P<number>[0-9]+)\s*%\s*$"), ("Zero UV", None), ("Warning", None)]
NON_COMMAND_KEYWORDS = {"Mark", "Block", "End block", "End blocks", "Batch", "Watch", "Alarm", "Macro", "Call macro",
                        "Notify", "Simulate", "Simulate off"}
MESSAGE_TO_ID = {
    "Condition missing": "ConditionMissing", "Assignment missing": "AssignmentMissing", "Missing tag": "MissingTag",
    "Undefined tag": "UndefinedTag", "Missing comparator": "MissingOperator", "Missing equals symbol": "MissingOperator",
    "Missing value": "MissingValue", "Unexpected tag unit": "UnexpectedUnit", "Missing unit": "MissingUnit",
    "Invalid unit": "InvalidUnit", "Incompatible units": "IncompatibleUnits", "Undefined command": "UndefinedCommand",
    "Commaned takes no arguments": "CommandNoArguments", "Invalid command arguments": "CommandArgsInvalid",
    "Invalid indentation": "InvalidIndentation", "Threshold out of order": "ThresholdOutOfOrder",
    "Invalid macro call": "MacroCallNameInvalid", "Referenced macro is not defined": "MacroCalledNotDefined",
    "Invalid macro definition": "MacroNameInvalid", "Macro redefined": "MacroRedefined",
    "Macro calls itself": "MacroRecursive", "Macro calls itself indirectly": "MacroRecursive",
    "Macro not used": "MacroUnused",
}
# what the property names: the item kinds that report an undefined reference / an incomplete condition
EXPECTED_ITEMS = {
    "undefined-tag": ({"UndefinedTag"}, {"Undefined tag"}),
    "undefined-command": ({"UndefinedCommand"}, {"Undefined command"}),
    # the property names no item kind here ("reported as an error"); without a comparator the text after the tag name
    # belongs to the name, so "Undefined tag" is one of the ways the code reports an incomplete condition
    "incomplete-condition": ({"ConditionMissing", "MissingTag", "MissingOperator", "MissingValue", "UndefinedTag"},
                             {"Condition missing", "Missing tag", "Missing comparator", "Missing value", "Undefined tag"}),
}


def oenc(s) -> str:
    return "N" if s is None else enc(s)


# ----------------------------------------------------------------------------------------------------------
# running the real code

def build_env(case: dict):
    import openpectus.protocol.models as ProMdl
    from openpectus.lsp import lsp_analysis
    uod = ProMdl.UodDefinition(
        commands=[ProMdl.CommandDefinition(name=n, validator=v, docstring="") for n, v in case["cmds"]],
        system_commands=[],
        tags=[ProMdl.TagDefinition(name=n, unit=u) for n, u in case["tags"]])
    return uod, lsp_analysis.build_tags(uod), lsp_analysis.build_commands(uod)


def classify(e: BaseException) -> str:
    m = str(e)
    if type(e).__name__ == "ValueError":
        if m.startswith("Tag name") and m.endswith("not found"):
            return "err:tagNotFound"
        if m.startswith("tag_name is None or empty"):
            return "err:tagBlank"
        if m.startswith("cmd_name is None or empty"):
            return "err:cmdBlank"
        if m.startswith("Command name") and m.endswith("not found"):
            return "err:cmdNotFound"
        if m.startswith("Invalid unit"):
            return "err:tagUnitInvalid"
    return "err:other:" + type(e).__name__


def raising_site(e: BaseException) -> str:
    """Innermost analyzer (or 'parser') on the traceback of an exception."""
    from openpectus.lang.exec.analyzer import AnalyzerVisitorBase
    site = "unknown"
    for frame, _ in traceback.walk_tb(e.__traceback__):
        me = frame.f_locals.get("self")
        if isinstance(me, AnalyzerVisitorBase):
            site = type(me).__name__
        elif type(me).__name__ == "PcodeParser" and site == "unknown":
            site = "parser"
    return site


def walk(node):
    import openpectus.lang.model.ast as p
    for child in getattr(node, "children", []) or []:
        yield child
        if isinstance(child, p.NodeWithChildren):
            yield from walk(child)


def node_kind(node) -> str:
    import openpectus.lang.model.ast as p
    if isinstance(node, p.WatchNode):
        return "watch"
    if isinstance(node, p.AlarmNode):
        return "alarm"
    if isinstance(node, p.SimulateNode):
        return "simulate"
    if isinstance(node, p.SimulateOffNode):
        return "simulateoff"
    if isinstance(node, p.ErrorInstructionNode):
        return "error"
    if isinstance(node, (p.InterpreterCommandNode, p.EngineCommandNode, p.UodCommandNode)):
        return "command"
    return "other"


ANALYZER_LETTERS = (("IndentationCheckAnalyzer", "I"), ("ThresholdCheckAnalyzer", "T"), ("ConditionCheckAnalyzer", "C"),
                    ("SimulateCheckAnalyzer", "S"), ("CommandCheckAnalyzer", "M"), ("MacroCheckAnalyzer", "X"))


def canonical_diagnostics(diags) -> tuple[str, set | None, set]:
    """lint's answer: 'generic' | 'none' | `id:line:E:fix …` for the modelled analyzers; the lines / (line, code) pairs
    that carry an error diagnostic (every analyzer)."""
    if any(d.get("code") == "Parse error" for d in diags):
        return "generic", None, set()
    out = []
    for d in diags:
        if d.get("code") in MESSAGE_TO_ID:
            sev_err = d.get("severity") == 1
            fix = (d.get("data") or {}).get("type") == "fix-typo"
            out.append(f"{MESSAGE_TO_ID[d['code']]}:{d['range']['start']['line']}:"
                       f"{'E' if sev_err else '-'}:{'fix' if fix else '-'}")
    return (" ".join(out) or "none",
            {d["range"]["start"]["line"] for d in diags if d.get("severity") == 1},
            {(d["range"]["start"]["line"], d.get("code")) for d in diags if d.get("severity") == 1})


def observe(case: dict, editor: bool = True) -> dict:
    """Run parser + SemanticCheckAnalyzer + lint on the case; returns op lines for the model and the observations."""
    from Levenshtein import ratio
    import openpectus.lang.model.ast as p
    from openpectus.lang.exec.analyzer import SemanticCheckAnalyzer, AnalyzerItemType
    from openpectus.lang.model.parser import ParserMethod, create_method_parser
    from openpectus.lsp import lsp_analysis
    from pylsp.workspace import Document, Workspace
    obs: dict = {"ops": [], "analysis": "", "lint": "", "exc": None, "site": None, "error_lines": set(), "nodes": [],
                 "lint_error_lines": None, "error_items": set(), "lint_errors": set()}
    uod, tags, commands = build_env(case)
    ops = [f"tag\t{enc(n)}\t{oenc(u)}" for n, u in case["tags"]]
    try:
        method = ParserMethod.from_pcode(case["text"])
        program = create_method_parser(method, uod_command_names=[]).parse_method(method)
    except Exception as e:  # noqa: BLE001
        obs.update(ops=ops + ["analyzeall", "lintall"], analysis="err:other:parse:" + type(e).__name__, exc=e, site="parser",
                   tag_ops=ops, cmd_ops=[], sim_ops=[], node_ops=[])
        obs["lint"] = "generic"
        return obs
    # --- the analysis itself; `MacroNode.macro_calling_macro` (C41) is a parameter of the model: record what it answers
    recursive: dict[int, bool] = {}
    orig = p.MacroNode.macro_calling_macro

    def logged(self, macros, name=None, visited=None):
        r = orig(self, macros, name, visited)
        if name is None and visited is None:
            recursive[self.position.line] = bool(r and self.name in r)
        return r
    an = SemanticCheckAnalyzer(tags, commands)
    p.MacroNode.macro_calling_macro = logged
    try:
        an.analyze(program)
        items = []
        for cls, letter in ANALYZER_LETTERS:
            for a in an.analyzers:
                if type(a).__name__ == cls:
                    for it in a.items:
                        items.append(f"{letter}:{it.id}:{it.range.start.line}:"
                                     f"{'E' if it.type == AnalyzerItemType.ERROR else '-'}:"
                                     f"{'fix' if it.data.get('type') == 'fix-typo' else '-'}")
        obs["analysis"] = " ".join(items) or "none"
        obs["error_lines"] = {it.range.start.line for it in an.items if it.type == AnalyzerItemType.ERROR}
        obs["error_items"] = {(it.range.start.line, it.id) for it in an.items if it.type == AnalyzerItemType.ERROR}
    except Exception as e:  # noqa: BLE001
        obs.update(analysis=classify(e), exc=e, site=raising_site(e))
    finally:
        p.MacroNode.macro_calling_macro = orig
    # --- what the model is told
    cmd_ops, sim_ops, node_ops = [], [], []
    for n, v in case["cmds"]:
        c = commands.get(n)
        no_args = bool(c.arg_parser and c.arg_parser.regex == "^$")
        cmd_ops.append(f"cmd\t{enc(n)}\t{encb(no_args)}")
    tag_names, cmd_names = [n for n, _ in case["tags"]], [n for n, _ in case["cmds"]]
    seen_sim = set()

    def sims(query, cands, min_len=3):
        if query is None or len(query) < min_len:
            return
        for cand in cands:
            if (query, cand) not in seen_sim and ratio(query, cand) > 0.7:
                seen_sim.add((query, cand))
                sim_ops.append(f"sim\t{enc(query)}\t{enc(cand)}")
    all_nodes = list(walk(program))
    macro_names = [n.name for n in all_nodes if isinstance(n, p.MacroNode)]
    for node in all_nodes:
        kind = node_kind(node)
        tov = getattr(node, "tag_operator_value", None) if kind in ("watch", "alarm", "simulate") else None
        name = node.instruction_name
        if kind == "error" and name == "":
            name = node.line
        valid = True
        if kind in ("command", "error") and name.strip() != "" and commands.has(name):
            valid = bool(commands.get(name).validate_args(node.arguments))
        if kind in ("command", "error"):
            sims(name, cmd_names)
        if tov is not None:
            sims(tov.tag_name, tag_names)
        if kind == "simulateoff":
            sims(node.arguments, tag_names)
        mk, mname, mrec = "none", "", False
        if isinstance(node, p.MacroNode):
            mk, mname, mrec = "macro", node.name, recursive.get(node.position.line, False)
        elif isinstance(node, p.CallMacroNode):
            mk, mname = "call", node.name
            sims(node.name, macro_names, min_len=1)   # the macro analyzer has no minimum length
        parent = 0 if node.parent is None or isinstance(node.parent, p.ProgramNode) else node.parent.position.line + 1
        obs["nodes"].append({"line": node.position.line, "kind": kind, "name": name})
        node_ops.append("\t".join([
            "xnode", str(node.position.line), kind, encb(tov is not None),
            oenc(tov.tag_name if tov else None), enc(tov.op if tov else ""), enc(tov.rhs if tov else ""),
            oenc(tov.tag_value if tov else None), oenc(tov.tag_unit if tov else None),
            enc(node.instruction_name), enc(getattr(node, "line", "") or ""), enc(node.arguments),
            encb(bool(node.has_argument)), encb(valid),
            encb(bool(node.indent_error)), encb(isinstance(node, p.WhitespaceNode)),
            oenc(node.threshold_part if node.threshold is not None else None), str(parent), mk, enc(mname), encb(mrec)]))
    obs["ops"] = ops + cmd_ops + sim_ops + node_ops + ["analyzeall", "lintall"]
    obs.update(tag_ops=ops, cmd_ops=cmd_ops, sim_ops=sim_ops, node_ops=node_ops)
    if not editor:   # the caller drives `lint` itself (history stream) and must not have its caches touched
        return obs
    # the editor path
    lsp_analysis.create_analysis_input.cache_clear()
    saved_fetch = lsp_analysis.fetch_uod_info
    lsp_analysis.fetch_uod_info = lambda _eid: uod
    doc = Document(uri="file://workspace/uri", workspace=Workspace(root_uri="", endpoint=None, config=None),
                   source=case["text"])
    try:
        diags = lsp_analysis.lint(doc, engine_id="eng_id")
        obs["lint"], obs["lint_error_lines"], obs["lint_errors"] = canonical_diagnostics(diags)
    except Exception as e:  # noqa: BLE001
        obs["lint"] = "err:lint-raised:" + type(e).__name__
    finally:
        lsp_analysis.fetch_uod_info = saved_fetch      # the history stream uses the real one
        lsp_analysis.create_analysis_input.cache_clear()
    return obs


# ----------------------------------------------------------------------------------------------------------
# generators

def gen_env(rng, kind: str | None = None) -> tuple[list, list]:
    kind = kind or rng.choice(["full", "full", "small", "empty-tags", "empty-cmds"])
    tags = [] if kind == "empty-tags" else [[n, rng.choice(UNITS)] for n in
                                            rng.sample(TAG_POOL, rng.randrange(1, 4) if kind == "small"
                                                       else rng.randrange(4, len(TAG_POOL)))]
    cmds = [] if kind == "empty-cmds" else [list(c) for c in rng.sample(CMD_POOL, rng.randrange(1, len(CMD_POOL)))]
    return tags, cmds


def mutate(rng, s: str) -> str:
    i = rng.randrange(len(s))
    r = rng.random()
    if r < 0.35 and len(s) > 1:
        return s[:i] + s[i + 1:]
    if r < 0.7:
        return s[:i] + rng.choice("abcxyzXY01") + s[i:]
    return s[:i] + rng.choice("abcxyzXY01") + s[i + 1:]


def clean_name(s: str) -> str:
    """Names usable as tag reference / instruction: no operator, ':' or '#' characters, starts with a word char."""
    s = "".join(ch for ch in s if ch not in "<>=!:#").strip()
    return s if s and (s[0].isascii() and (s[0].isalnum() or s[0] == "_")) else "x" + s


def tag_ref(rng, tags) -> tuple[str, str]:
    names = [n for n, _ in tags]
    r = rng.random()
    if names and r < 0.4:
        return rng.choice(names), "defined"
    if names and r < 0.6:
        t = clean_name(mutate(rng, rng.choice(names)))
        return (t, "defined") if t in names else (t, "undefined")
    if r < 0.85:
        t = rng.choice(FAR_NAMES)
        return (t, "defined") if t in names else (t, "undefined")
    if r < 0.93:
        t = rng.choice(["Q", "zz", "B7", "x"])
        return (t, "defined") if t in names else (t, "undefined")
    return "", "blank"


def unit_for(rng, tags, tag: str) -> str:
    from openpectus.lang.exec import units as U
    tu = dict((n, u) for n, u in tags).get(tag)
    r = rng.random()
    if tu is not None and r < 0.5:
        if not U.is_supported_unit(tu):   # a unit outside this installation's table: same unit, or any other
            return tu if rng.random() < 0.5 else rng.choice(["s", "L/h", "kg"])
        return tu if rng.random() < 0.5 else rng.choice(U.QUANTITY_UNIT_MAP[U.get_unit_quantity_name(tu)])
    if r < 0.65:
        return ""
    if r < 0.85:
        return rng.choice(["s", "L/h", "degC", "%", "bar", "kg", "vol%", "m2", "CV"])
    return rng.choice(["xx", "sec", "Lh", "m3/h", "K2"])


def cond_line(rng, kw: str, tags) -> tuple[str, str | None]:
    """One Watch/Alarm/Simulate line and what the property expects on it."""
    tag, status = tag_ref(rng, tags)
    ops = ["="] if kw == "Simulate" else ["<", "<=", ">", ">=", "=", "==", "!="]
    r = rng.random()
    op = "" if r < 0.15 else rng.choice(ops)
    r = rng.random()
    value = "" if r < 0.15 else (rng.choice(["abc", "Run", "on"]) if r < 0.25 else
                                 rng.choice(["0", "1", "3", "2.5", "100", "-4", "1e3", ".5"]))
    unit = unit_for(rng, tags, tag) if value and rng.random() < 0.8 else ""
    sep = rng.choice(["", " "]) if unit else ""
    form = rng.random()
    if form < 0.06:
        text = kw  # no argument at all
        status, op, value = "blank", "", ""
    elif form < 0.1:
        text = f"{kw}:"
        status, op, value = "blank", "", ""
    else:
        text = f"{kw}: {tag}{' ' if op else ''}{op}{' ' if value else ''}{value}{sep}{unit}".rstrip() \
            if (op or not value) else f"{kw}: {tag} {value}{sep}{unit}"
    expect = None
    if status == "undefined":
        expect = "undefined-tag"
    elif kw != "Simulate" and (status == "blank" or op == "" or value == ""):
        expect = "incomplete-condition"
    return text, expect


def command_line(rng, cmds) -> tuple[str, str | None]:
    names = [n for n, _ in cmds]
    r = rng.random()
    if names and r < 0.5:
        name, status = rng.choice(names), "defined"
    elif names and r < 0.7:
        name = clean_name(mutate(rng, rng.choice(names)))
        status = "defined" if name in names else "undefined"
    else:
        name = rng.choice(FAR_NAMES + ["Open valve", "Foo", "Start pump", "ab"])
        status = "defined" if name in names else "undefined"
    if name in NON_COMMAND_KEYWORDS or name.strip() == "":
        name, status = "Frobnicate", "undefined"
    arg = rng.choice(["", "", ": 5 s", ": open", ": 10 %", ": x", ":", ": 5"])
    return name + arg, ("undefined-command" if status == "undefined" else None)


def gen_method(rng, tags, cmds, n_lines: int) -> tuple[str, list[dict]]:
    lines: list[str] = []
    expect: list[dict] = []
    offending: list[tuple[str, str]] = []   # top-level offending lines seen so far: repeated later on other lines

    def add(text, exp, indent=0):
        if exp:
            expect.append({"line": len(lines), "what": exp})
            if indent == 0 and (text, exp) not in offending:
                offending.append((text, exp))
        lines.append(" " * indent + text)
    defined_macros: list[str] = []
    while len(lines) < n_lines:
        r = rng.random()
        th = f"{rng.choice(['0', '1', '2.5', '10'])} " if rng.random() < 0.15 else ""
        if offending and rng.random() < 0.2:
            t, e = rng.choice(offending)
            add(t, e)
            if t.startswith(("Watch", "Alarm")) or " Watch" in t[:12] or " Alarm" in t[:12]:
                add("Mark: again", None, 4)
            continue
        if r < 0.3:
            kw = rng.choice(["Watch", "Alarm"])
            t, e = cond_line(rng, kw, tags)
            add(th + t, e)
            for _ in range(rng.randrange(0, 3)):
                if rng.random() < 0.3:
                    t2, e2 = command_line(rng, cmds)
                    add(t2, e2, 4)
                else:
                    add(rng.choice(["Mark: a", "Mark: b", "# note", "End block"]), None, 4)
        elif r < 0.45:
            t, e = cond_line(rng, "Simulate", tags)
            add(th + t, e)
        elif r < 0.55:
            tag, status = tag_ref(rng, tags)
            add(f"Simulate off: {tag}" if tag else rng.choice(["Simulate off", "Simulate off:"]),
                "undefined-tag" if status == "undefined" else None)
        elif r < 0.8:
            t, e = command_line(rng, cmds)
            add(th + t, e)
        elif r < 0.88:
            add(rng.choice(["Mark: A", "", "# comment", "   ", "Notify: hello", "Batch: B1"]), None)
        elif r < 0.93:
            add("Block: B", None)
            add("Mark: in block", None, 4)
            add("End block", None, 4)
        elif r < 0.955:
            # what the other analyzers react to: End block(s) in odd places, nesting, out-of-order thresholds
            k = rng.random()
            if k < 0.3:
                add(rng.choice(["End block", "End blocks", "5 End block"]), None)
            elif k < 0.6:
                add("Block: Outer", None)
                add("Watch: Run Time > 1 s" if any(n == "Run Time" for n, _ in tags) else "Mark: w", None, 4)
                add("Block: Inner", None, 8)
                add(rng.choice(["End blocks", "End block", "Mark: deep", "Stop"]), None, 12)
                add("Mark: after inner", None, 8)
                add("End block", None, 4)
            else:
                add("10 Mark: late", None)
                add("2 Mark: early", None)
                if rng.random() < 0.5:
                    add("1 Base: s", None) if any(n == "Base" for n, _ in cmds) else add("0 Mark: zero", None)
        else:
            k = rng.random()
            if defined_macros and k < 0.3:
                add(f"Call macro: {rng.choice(defined_macros)}", None)
            elif k < 0.45:
                # call of an undefined macro — with and without macros defined, close and far names
                add(f"Call macro: {rng.choice(['M9', 'Nope', 'M1x', '', 'Wash'])}".rstrip(), None)
            elif k < 0.55 and defined_macros:
                m = rng.choice(defined_macros)          # redefinition
                add(f"Macro: {m}", None)
                add("Mark: redefined", None, 4)
            elif k < 0.7:
                m = f"R{len(defined_macros) + 1}"        # a macro that calls itself, directly or through a Watch
                add(f"Macro: {m}", None)
                if rng.random() < 0.5:
                    add(f"Call macro: {m}", None, 4)
                else:
                    add("Block: In macro", None, 4)
                    add(f"Call macro: {m}", None, 8)
                    add("End block", None, 8)
                defined_macros.append(m)
            elif k < 0.8:
                add("Macro", None)                       # no name
                add("Mark: anonymous", None, 4)
            else:
                m = f"M{len(defined_macros) + 1}"
                add(f"Macro: {m}", None)
                add("Mark: in macro", None, 4)
                if defined_macros and rng.random() < 0.4:
                    add(f"Call macro: {rng.choice(defined_macros)}", None, 4)   # macro calling an earlier macro
                defined_macros.append(m)
    return "\n".join(lines), expect


def exhaustive_cases() -> list[dict]:
    """Every combination of (keyword × tag reference × operator × right-hand side) against three environments."""
    envs = {
        "none": [],
        "close": [["Flow", "L/h"], ["Flow rate", None], ["Run Time", "s"], ["pH", None], ["Dist", "furlong"]],
        "far": [["Conductivity", "mS/cm"], ["pH", None], ["TT01", "degC"]],
    }
    cmds = [list(c) for c in CMD_POOL[:6]]
    out = []
    for env_name, tags in envs.items():
        refs = ["Flow", "pH", "Flwo", "Xyzzy", "Q", "", "Run Tim", "TT01", "Dist"]
        for kw, ref, op, rhs in itertools.product(
                ["Watch", "Alarm", "Simulate"], refs, ["", ">", "=", "!="],
                ["", "3", "3 L/h", "3 L/min", "3 s", "3 xx", "abc", "L/h", "3degC", "3 furlong"]):
            if kw == "Simulate" and op in (">", "!="):
                continue
            text = f"{kw}: {ref}{' ' + op if op else ''}{' ' + rhs if rhs else ''}"
            names = [n for n, _ in tags]
            exp = []
            if ref and ref not in names:
                exp = [{"line": 0, "what": "undefined-tag"}]
            elif kw != "Simulate" and (ref == "" or op == "" or rhs == ""):
                exp = [{"line": 0, "what": "incomplete-condition"}]
            if op == "" and rhs:  # "Watch: Flow 3": the text after the name belongs to the name; undefined unless it is a tag
                whole = f"{ref} {rhs}".strip()
                exp = [{"line": 0, "what": "undefined-tag" if whole and whole not in names else "incomplete-condition"}] \
                    if kw != "Simulate" or (whole and whole not in names) else []
            out.append({"text": text, "tags": tags, "cmds": cmds, "expect": exp, "kind": "exhaustive:" + env_name})
        for ref in refs + ["Flow rate"]:
            for form in ([f"Simulate off: {ref}"] if ref else ["Simulate off", "Simulate off:", "Simulate off: "]):
                exp = [{"line": 0, "what": "undefined-tag"}] if ref and ref not in [n for n, _ in tags] else []
                out.append({"text": form, "tags": tags, "cmds": cmds, "expect": exp, "kind": "exhaustive:" + env_name})
    for cset in ([], cmds):
        for name, arg in itertools.product(["Wait", "Wiat", "Stop", "Stpo", "Xyzzy", "ab", "Open valve", "Info"],
                                           ["", ": 5 s", ": 5", ":", ": x y"]):
            exp = [{"line": 0, "what": "undefined-command"}] if name not in [n for n, _ in cset] else []
            out.append({"text": name + arg, "tags": envs["close"], "cmds": cset, "expect": exp,
                        "kind": "exhaustive:command"})
    return out


def repeated_cases() -> list[dict]:
    """The same offending reference on several lines (same undefined tag / command, typos with the same suggestion,
    incomplete conditions of the same kind): every occurrence must carry its own error."""
    tags = [["Flow", "L/h"], ["Run Time", "s"], ["pH", None]]
    cmds = [list(c) for c in CMD_POOL[:6]]
    blocks = {
        "undefined-tag": ["Watch: Xyzzy > 3", "Alarm: Xyzzy > 3", "Simulate: Xyzzy = 3", "Simulate off: Xyzzy",
                          "Watch: Flwo > 3 L/h", "Simulate: Flwo = 3 L/h", "Simulate off: Flwo", "Watch: Q > 1"],
        "undefined-command": ["Frobnicate", "Frobnicate: 5", "Wiat: 5 s", "ab"],
        "incomplete-condition": ["Watch: Flow", "Alarm: Flow >", "Watch", "Watch: > 3", "Alarm:"],
    }
    out = []
    for what, texts in blocks.items():
        for t in texts:
            for k in (2, 3):
                for sep in ([], ["Mark: between"], ["", "# c"]):
                    lines, expect = [], []
                    for i in range(k):
                        expect.append({"line": len(lines), "what": what})
                        lines.append(t)
                        if t.startswith(("Watch", "Alarm")):
                            lines.append("    Mark: body")
                        if i < k - 1:
                            lines += sep
                    out.append({"text": "\n".join(lines), "tags": tags, "cmds": cmds, "expect": expect,
                                "kind": "repeated:" + what})
    # different lines, same finding text (two typos with the same suggestion, same error kind on two tags)
    for a, b, what in (("Watch: Flwo > 3 L/h", "Alarm: Flo > 1 L/h", "undefined-tag"),
                       ("Wiat: 5 s", "Wat: 1 s", "undefined-command"),
                       ("Watch: Flow", "Watch: pH", "incomplete-condition"),
                       ("Alarm: Flow >", "Alarm: pH >", "incomplete-condition")):
        text = "\n".join([a] + (["    Mark: x"] if a.startswith(("Watch", "Alarm")) else []) +
                         [b] + (["    Mark: y"] if b.startswith(("Watch", "Alarm")) else []))
        second = 2 if a.startswith(("Watch", "Alarm")) else 1
        out.append({"text": text, "tags": tags, "cmds": cmds,
                    "expect": [{"line": 0, "what": what}, {"line": second, "what": what}], "kind": "repeated:" + what})
    return out


ALPHABET = list("abcWatchlrmSiue o:  #<>=!.%/_-+0123456789") + ["é", "°", "\t", "µ", " ", "Ω"]


def malformed_cases(ctx: Check) -> list[dict]:
    rng = ctx.rng
    out = []
    seeds = ["Watch: Flow > 3 L/h", "Alarm: Run Time >= 10 s", "Simulate: pH = 7", "Simulate off: Flow", "Wait: 5 s",
             "Stop", "Mark: A", "Block: B", "    End block", "Macro: M", "Call macro: M", "Watch: Xyzzy > 1"]
    for _ in range(ctx.n(300, 20000)):
        tags, cmds = gen_env(rng)
        lines = []
        for _ in range(rng.randrange(1, 6)):
            r = rng.random()
            if r < 0.4:
                s = rng.choice(seeds)
                for _ in range(rng.randrange(1, 4)):
                    i = rng.randrange(len(s) + 1)
                    s = s[:i] + rng.choice(ALPHABET) + s[i + (1 if rng.random() < 0.5 else 0):]
            elif r < 0.8:
                s = "".join(rng.choice(ALPHABET) for _ in range(rng.randrange(0, 30)))
            else:
                s = rng.choice(["Watch: A > 3 > 4", "Watch: A = = 3", "Watch: =", "Watch: > 3", "Alarm: A >", "Simulate: = 3",
                                "Watch : A > 3", "watch: A > 3", "Watch:A>3", "Watch: A>3L/h", "Simulate: A == 3",
                                "Simulate: A=3=4", "5 Watch: A > 3", "Watch: A != ", "Simulate off:  ", ": x", "::", "#",
                                "Watch: Xyzzy plugh > 3", "Alarm: Qwertyuiop < 1 bar", "Simulate: Unobtainium = 1"])
            lines.append(" " * rng.choice([0, 0, 0, 4, 4, 8, 2, 1, 12]) + s)
        out.append({"text": "\n".join(lines), "tags": tags, "cmds": cmds, "expect": [], "kind": "malformed"})
    return out


def random_cases(ctx: Check) -> list[dict]:
    rng = ctx.rng
    out = []
    for _ in range(ctx.n(350, 40000)):
        tags, cmds = gen_env(rng)
        text, expect = gen_method(rng, tags, cmds, rng.randrange(1, ctx.n(8, 14)))
        out.append({"text": text, "tags": tags, "cmds": cmds, "expect": expect, "kind": "structured"})
    return out


# ----------------------------------------------------------------------------------------------------------
# history stream: the same document linted again and again while the engine's tag / command set changes

H_TAGS = ["Pressure", "Level", "Flow", "Temp", "pH"]
H_CMDS = ["Fill", "Drain", "Mix", "Heat"]


def h_line(rng, tags_pool, cmds_pool) -> tuple[str, tuple[str, str] | None, bool]:
    """(text, (kind, name) reference or None, opens a body)"""
    r = rng.random()
    if r < 0.3:
        t = rng.choice(tags_pool)
        return f"{rng.choice(['Watch', 'Alarm'])}: {t} > {rng.choice(['1', '3', '7.5'])}", ("tag", t), True
    if r < 0.45:
        t = rng.choice(tags_pool)
        return rng.choice([f"Simulate: {t} = 2", f"Simulate off: {t}"]), ("tag", t), False
    if r < 0.8:
        c = rng.choice(cmds_pool)
        return rng.choice([c, f"{c}: 5", f"{c}: open"]), ("cmd", c), False
    return rng.choice(["Mark: a", "# note", "", "Alarm: Level <", "Mark: b"]), None, False


def h_text(rng, n: int) -> tuple[str, list[dict]]:
    lines, refs = [], []
    while len(lines) < n:
        t, ref, body = h_line(rng, H_TAGS + ["Xyzzy"], H_CMDS + ["Frobnicate"])
        if ref:
            refs.append({"line": len(lines), "kind": ref[0], "name": ref[1]})
        lines.append(t)
        if body:
            lines.append("    Mark: body")
    return "\n".join(lines), refs


def h_set(rng) -> tuple[list, list]:
    return ([[t, None] for t in rng.sample(H_TAGS, rng.randrange(1, len(H_TAGS) + 1))],
            [[c, None] for c in rng.sample(H_CMDS, rng.randrange(1, len(H_CMDS) + 1))])


class HSession:
    """One editor session (one user's browser page = one language-server connection): its own text and its own document
    version counter 1, 2, 3, … (or no versions at all).  All sessions edit the same uri of the same engine."""

    def __init__(self, rng, sid: int, text: str, refs: list, versioned: bool):
        self.rng, self.sid, self.text, self.refs = rng, sid, text, refs
        self.version: int | None = 0 if versioned else None

    def lint(self, edit: bool) -> dict:
        if edit or self.version == 0:
            if edit:
                self.text, self.refs = h_text(self.rng, self.rng.randrange(2, 6))
            if self.version is not None:
                self.version += 1
        return {"op": "lint", "session": self.sid, "text": self.text, "refs": self.refs, "version": self.version}


def history_cases(ctx: Check) -> list[dict]:
    """Steps (all through the real aggregator handlers and the real `lint`):
      register {keep}  handle_RegisterEngineMsg; keep=false: the previous connection's handle_EngineDisconnected ran
                       first (engine data gone), keep=true: it did not complete (engine data still present)
      uodinfo          handle_UodInfoMsg with the definition (tags, commands)
      lint {session}   one of several editor sessions lints its document (same uri; independently counted versions or
                       version None; open / change / save)
    The sets change between lints of the SAME document; the texts change with the set fixed; sessions interleave; lints
    also fall between a registration (of either kind) and its UodInfo."""
    rng = ctx.rng
    out = []
    for _ in range(ctx.n(70, 1500)):
        steps: list[dict] = []
        saved_text, saved_refs = h_text(rng, rng.randrange(2, 6))
        # every session opens the method as saved (version 1 each), then edits on its own
        sessions = [HSession(rng, k, saved_text, saved_refs, versioned=rng.random() < 0.8)
                    for k in range(rng.choice([1, 1, 2, 2, 3]))]
        steps.append({"op": "register", "keep": False})
        if rng.random() < 0.15:
            steps.append(rng.choice(sessions).lint(False))           # before the UodInfo arrives
        tags, cmds = h_set(rng)
        steps.append({"op": "uodinfo", "tags": tags, "cmds": cmds})
        for _ in range(rng.randrange(2, 8)):
            r = rng.random()
            sess = rng.choice(sessions)
            if r < 0.35:      # the engine re-registers with another definition; the documents are untouched
                keep = rng.random() < 0.5
                steps.append({"op": "register", "keep": keep})
                if rng.random() < (0.3 if keep else 0.2):   # a lint in the window before the UodInfo arrives
                    steps.append(rng.choice(sessions).lint(edit=rng.random() < 0.3))
                if rng.random() < 0.5:   # drop / add one name the text may use
                    tags = [t for t in tags if rng.random() < 0.6] or [[rng.choice(H_TAGS), None]]
                    cmds = [c for c in cmds if rng.random() < 0.6] or [[rng.choice(H_CMDS), None]]
                else:
                    tags, cmds = h_set(rng)
                steps.append({"op": "uodinfo", "tags": tags, "cmds": cmds})
                steps.append(sess.lint(False))
            else:             # a user opens / edits / saves; the set is fixed
                steps.append(sess.lint(edit=r < 0.75))
        out.append({"steps": steps, "kind": "history"})
    full = {"op": "uodinfo", "tags": [["Pressure", None], ["Level", None]], "cmds": [["Fill", None], ["Drain", None]]}
    less = {"op": "uodinfo", "tags": [["Level", None]], "cmds": [["Drain", None]]}
    fresh, kept = {"op": "register", "keep": False}, {"op": "register", "keep": True}
    # the minimal shapes, for every kind of reference
    for ref_line, kind in (("Watch: Pressure > 3\n    Mark: a", "tag"), ("Simulate off: Pressure", "tag"),
                          ("Simulate: Pressure = 2", "tag"), ("Fill: 5", "cmd"), ("Fill", "cmd")):
        name = "Pressure" if kind == "tag" else "Fill"
        refs = [{"line": 0, "kind": kind, "name": name}]
        for version in (7, None):
            lint = {"op": "lint", "session": 0, "text": ref_line, "refs": refs, "version": version}
            for again in (fresh, kept):     # the set shrinks / grows over a re-registration without / with the old data kept
                out.append({"steps": [fresh, full, lint, again, less, lint, lint, again, full, lint], "kind": "history"})
                out.append({"steps": [fresh, less, lint, again, full, lint], "kind": "history"})
            # a lint in the window between the registration and its UodInfo
            out.append({"steps": [fresh, full, lint, kept, lint, less, lint, lint], "kind": "history"})
            out.append({"steps": [fresh, less, lint, kept, lint, full, lint], "kind": "history"})
            out.append({"steps": [fresh, full, lint, fresh, lint, less, lint], "kind": "history"})
        # two sessions whose version counters coincide: A opens, B opens, A edits (valid), B edits (broken), A saves
        ok_text, bad_text = "Mark: start\nMark: done", "Mark: start\n" + ref_line.replace(name, "Xyzzy" if kind == "tag" else "Frobnicate")
        bad_refs = [{"line": 1, "kind": kind, "name": "Xyzzy" if kind == "tag" else "Frobnicate"}]
        for vs in ((1, 1, 2, 2, 2), (None, None, None, None, None), (3, 3, 3, 3, 3)):
            def ln(k, sid, text, rf):
                return {"op": "lint", "session": sid, "text": text, "refs": rf, "version": vs[k]}
            out.append({"steps": [fresh, full, ln(0, 0, "Mark: start", []), ln(1, 1, "Mark: start", []),
                                  ln(2, 0, ok_text, []), ln(3, 1, bad_text, bad_refs), ln(4, 0, ok_text, [])],
                        "kind": "history"})
            out.append({"steps": [fresh, full, ln(0, 0, bad_text, bad_refs), ln(1, 1, ok_text, []),
                                  ln(2, 0, bad_text, bad_refs)], "kind": "history"})
    return out


_AGG = None


def aggregator_harness():
    """one in-process aggregator (harness/agg_common.py) for all histories of this run; every history uses its own engine"""
    global _AGG
    if _AGG is None:
        from harness.agg_common import AggHarness
        _AGG = AggHarness()
    return _AGG


PROBE_INDEX = -1     # engine index 0 of the aggregator harness is used by the probe only


def uodinfo_clears_cache() -> bool:
    """Which code is this — with or without fixes/C19-uodinfo-clears-analysis-cache.diff?  Black-box probe through the
    real handlers: the engine re-registers while its data is still held, an editor lints in the window, then the UodInfo
    removes the command the text uses: is it reported now?"""
    full = {"op": "uodinfo", "tags": [["Pressure", None]], "cmds": [["Fill", None]]}
    less = {"op": "uodinfo", "tags": [["Level", None]], "cmds": [["Drain", None]]}
    lint = {"op": "lint", "session": 0, "text": "Fill: 5", "refs": [], "version": None}
    o = observe_history({"steps": [{"op": "register", "keep": False}, full, lint, {"op": "register", "keep": True}, lint,
                                   less, lint]}, PROBE_INDEX, repaired=True)
    return (0, "Undefined command") in o["lints"][-1]["lint_errors"]


def observe_history(case: dict, index: int, repaired: bool) -> dict:
    """Drive the real aggregator handlers (`handle_RegisterEngineMsg`, `handle_EngineDisconnected`, `handle_UodInfoMsg`)
    and the real `lint` (whose `fetch_uod_info` reads that aggregator) through the history, the way production changes
    lint's inputs.  Nothing is patched: the aggregator is installed where `deps.get_aggregator()` finds it."""
    from harness import agg_install
    import openpectus.protocol.engine_messages as EM
    import openpectus.protocol.models as ProMdl
    from harness.agg_common import run as agg_run
    from openpectus.lsp import lsp_analysis
    from pylsp.workspace import Document, Workspace
    h = aggregator_harness()
    engine = index + 1
    engine_id, uri = h.eid(engine), f"file://workspace/history-{index}"
    installed = agg_install.install(h.agg)
    workspaces: dict[int, Workspace] = {}
    docs: dict[int, Document] = {}
    ops: list[str] = ["sess-mode\t" + ("repaired" if repaired else "asis")]
    outs: list[str] = ["ok"]
    lints: list[dict] = []
    refused: list[str] = []
    shadow = window = False   # window: a kept registration waits for its UodInfo; shadow: a lint fell into such a
    #                           window and no registration has happened since (the unrepaired code is stale there)
    cur_tags: list = []
    cur_cmds: list = []
    defined = False       # by the protocol: does the aggregator hold a definition for the engine now?
    present = False       # … any data for the engine?
    try:
        for st in case["steps"]:
            if st["op"] == "register":
                keep = bool(st.get("keep")) and present
                if present and not keep:
                    h.disconnect(engine)
                reply = h.register(engine)
                if not getattr(reply, "success", False) or getattr(reply, "engine_id", None) != engine_id:
                    refused.append(f"step {len(ops)}: handle_RegisterEngineMsg answered {reply!r}")
                present = True
                window, shadow = keep, False
                defined = defined and keep
                if not keep:
                    cur_tags, cur_cmds = [], []
                ops.append("sess-register-keep" if keep else "sess-register")
                outs.append("ok")
            elif st["op"] == "uodinfo":
                cur_tags, cur_cmds = st["tags"], st["cmds"]
                uod = ProMdl.UodDefinition(
                    commands=[ProMdl.CommandDefinition(name=n, validator=v, docstring="") for n, v in cur_cmds],
                    system_commands=[], tags=[ProMdl.TagDefinition(name=n, unit=u) for n, u in cur_tags])
                reply = agg_run(h.handlers.handle_UodInfoMsg(EM.UodInfoMsg(
                    engine_id=engine_id, readings=[], commands=[], uod_definition=uod,
                    plot_configuration=ProMdl.PlotConfiguration.empty(), hardware_str="hw", required_roles=set(),
                    data_log_interval_seconds=1.0)))
                if type(reply).__name__ != "SuccessMessage":
                    refused.append(f"step {len(ops)}: handle_UodInfoMsg answered {reply!r}")
                defined = True
                window = False
                ref = observe({"text": "", "tags": cur_tags, "cmds": cur_cmds}, editor=False)
                ops += ref["tag_ops"] + ref["cmd_ops"] + ["sess-uodinfo"]
                outs += ["ok"] * (len(ref["tag_ops"]) + len(ref["cmd_ops"]) + 1)
            else:
                ref = observe({"text": st["text"], "tags": cur_tags if defined else [], "cmds": cur_cmds if defined else []},
                              editor=False)
                ops += ref["sim_ops"] + ref["node_ops"] + ["sess-lint"]
                sid = st.get("session", 0)
                shadow = shadow or (window and defined)
                ws = workspaces.setdefault(sid, Workspace(root_uri="", endpoint=None, config=None))
                doc = docs.get(sid)
                if doc is None or doc.source != st["text"] or doc.version != st["version"]:
                    doc = docs[sid] = Document(uri=uri, workspace=ws, source=st["text"], version=st["version"])
                try:
                    diags = lsp_analysis.lint(doc, engine_id=engine_id)
                    text, err_lines, errs = canonical_diagnostics(diags)
                except Exception as e:  # noqa: BLE001
                    core_reraise(e)
                    text, err_lines, errs = "err:lint-raised:" + type(e).__name__, None, set()
                outs += ["ok"] * (len(ref["sim_ops"]) + len(ref["node_ops"])) + [text]
                lints.append({"step": len(lints), "session": sid, "version": st["version"], "text": st["text"],
                              "refs": st["refs"], "defined": defined, "stale_before_repair": shadow and not window,
                              "tags": [n for n, _ in cur_tags], "cmds": [n for n, _ in cur_cmds],
                              "lint": text, "lint_errors": errs})
    finally:
        try:
            if present:
                h.disconnect(engine)
        except Exception:  # noqa: BLE001
            pass
        agg_install.restore(installed)
        lsp_analysis.create_analysis_input.cache_clear()
    return {"ops": ops, "outs": outs, "lints": lints, "refused": refused}


def judge_history(case: dict, obs: dict) -> list[Failure]:
    """Per lint call, w.r.t. the CURRENT set and the text OF THAT CALL: nothing generic while a definition is there,
    every reference to a name that is undefined now carries its error on its line, no reference to a name that is
    defined now is reported undefined, and no error sits on a line the text does not have."""
    pub = {"steps": case["steps"]}
    fails = [Failure("history:message-refused", pub, r) for r in obs["refused"]]
    for ln in obs["lints"]:
        if not ln["defined"]:
            continue   # between registration and UodInfo there is no definition to analyse against
        who = f"lint #{ln['step']} (session {ln['session']}, version {ln['version']}) of {ln['text']!r} with tags " \
              f"{ln['tags']} / commands {ln['cmds']}"
        if ln["lint"] == "generic" or ln["lint"].startswith("err"):
            fails.append(Failure("history:lint-replaces-diagnostics", pub,
                                 f"{who} returned {ln['lint']} although a definition is available"))
            continue
        # the one situation the code before fixes/C19-uodinfo-clears-analysis-cache.diff gets wrong has its own keys
        stale = "after-lint-between-kept-reregistration-and-uodinfo:" if ln["stale_before_repair"] else ""
        n_lines = len(ln["text"].split("\n"))
        beyond = sorted(x for x in ln["lint_errors"] if x[0] >= n_lines)
        if beyond:
            fails.append(Failure("history:diagnostic-beyond-the-text", pub,
                                 f"{who}: error diagnostics {beyond} on lines the text ({n_lines} lines) does not have"))
        for r in ln["refs"]:
            known = ln["tags"] if r["kind"] == "tag" else ln["cmds"]
            code = "Undefined tag" if r["kind"] == "tag" else "Undefined command"
            what = "undefined-tag" if r["kind"] == "tag" else "undefined-command"
            if r["name"] not in known and (r["line"], code) not in ln["lint_errors"]:
                fails.append(Failure(f"history:{stale}no-diagnostic-on-line:{what}", pub,
                                     f"{who}: line {r['line']} refers to {r['name']!r}, which is not defined now, and "
                                     f"carries no {code!r} error (error diagnostics: {sorted(ln['lint_errors'])})"))
            if r["name"] in known and (r["line"], code) in ln["lint_errors"]:
                fails.append(Failure(f"history:{stale}diagnostic-for-defined-name:{what}", pub,
                                     f"{who}: line {r['line']} refers to {r['name']!r}, which is defined now, and carries "
                                     f"a {code!r} error"))
    return fails


# ----------------------------------------------------------------------------------------------------------
# oracle (independent of the Lean model)

def judge(case: dict, obs: dict) -> list[Failure]:
    pub = {k: case[k] for k in ("text", "tags", "cmds", "expect")}
    if obs["exc"] is not None:
        e = obs["exc"]
        core_reraise(e)
        return [Failure(f"analysis-raises:{obs['site']}:{type(e).__name__}", pub,
                        f"semantic analysis raised {type(e).__name__}: {e} (in {obs['site']}) for method {case['text']!r}")]
    fails = []
    if obs["lint"] == "generic" or obs["lint"].startswith("err"):
        fails.append(Failure("lint-replaces-diagnostics", pub,
                             f"lint returned {obs['lint']} although the analysis itself did not raise"))
    kinds = {n["line"]: n["kind"] for n in obs["nodes"]}
    src = case["text"].splitlines()
    shown = obs["lint_error_lines"]
    for exp in case["expect"]:
        ids, codes = EXPECTED_ITEMS[exp["what"]]
        line = exp["line"]
        kind = kinds.get(line, "?")
        if not any((line, i) in obs["error_items"] for i in ids):
            other = sorted(i for (ln, i) in obs["error_items"] if ln == line)
            fails.append(Failure(f"not-flagged:{exp['what']}:{kind}", pub,
                                 f"line {line} ({src[line]!r}) has an {exp['what'].replace('-', ' ')} but the analyzers "
                                 f"report no {'/'.join(sorted(ids))} error on it (errors on that line: {other or 'none'})"))
        elif shown is not None and not any((line, c) in obs["lint_errors"] for c in codes):
            # the property is about what the editor shows: that error, as a diagnostic ON the offending line
            fails.append(Failure(f"no-diagnostic-on-line:{exp['what']}:{kind}", pub,
                                 f"line {line} ({src[line]!r}) has an {exp['what'].replace('-', ' ')}; the analyzer "
                                 f"reports it, but lint shows no {'/'.join(sorted(codes))!r} error diagnostic on that "
                                 f"line (error diagnostics: {sorted(obs['lint_errors'])})"))
    if shown is not None:
        # "…so the editor keeps showing all other diagnostics": every line with an analyzer error has a diagnostic
        lost = sorted(obs["error_lines"] - shown)
        if lost and not any(f.key.startswith("no-diagnostic-on-line") for f in fails):
            fails.append(Failure("lint-drops-error-items", pub,
                                 f"the analyzers report errors on lines {sorted(obs['error_lines'])}, lint shows error "
                                 f"diagnostics only on lines {sorted(shown)} (lost: {lost})"))
    return fails


def run(ctx: Check) -> int:
    from harness.translators import unit_table, analyzer_ops
    unit_table.generate()
    ops_table = analyzer_ops.generate()
    ctx.extra["analyzer_partial_operations"] = {c: sum(1 for o in ops_table["ops"] if o[0] == c) for c in ops_table["classes"]}
    ctx.prove(MODULE, REQUIRED, extra_targets=["OPM.Gen.UnitTable", "OPM.Gen.AnalyzerOps"])
    ctx.rule = ("(method text, tag set, command set): (1) exhaustive small scope: every keyword × tag reference "
                "(defined with/without unit, close typo, unrelated name, short name, blank) × operator × right-hand side "
                "(none, value, value+unit ok/compatible/incompatible/invalid, string, unit only) × 3 tag environments "
                "(empty, with close names, without close names), all Simulate-off and command forms; (2) structured "
                "random methods of 1–8/14 lines (Watch/Alarm with bodies, Simulate, Simulate off, commands with "
                "valid/invalid/no arguments, thresholds, blocks, non-recursive macros) against random tag/command sets; "
                "(3) the same offending reference repeated on 2–3 lines (and, inside the random methods, earlier offending lines "
                "re-used with probability 0.2); (4) histories over an in-process Aggregator driven through its real message "
                "handlers: one engine and 1–3 editor sessions (documents with the same uri, independently counted versions "
                "1,2,3… or version None; open / edit / save, interleaved) linting while the engine re-registers with other "
                "tag / command sets — after a completed disconnect (engine data gone) or without one (engine data of the "
                "previous session still present) — each registration followed by its UodInfo, lints also in the window between "
                "the two; oracle per lint call "
                "w.r.t. the current set and the text of that call; (5) malformed text (mutated lines, random unicode lines, odd indentation). "
                "The oracle looks at the lint output per offending line. Non-trivial = the analyzers "
                "produce at least one item or raise.")
    cases = [dict(c["case"], kind="corpus") for c in load_corpus("C19")] + exhaustive_cases() + repeated_cases() \
        + random_cases(ctx) + malformed_cases(ctx)
    cache: dict[int, dict] = {}

    def obs_of(c):
        k = id(c)
        if k not in cache:
            cache[k] = observe(c)
        return cache[k]

    def impl(c):
        o = obs_of(c)
        return ["ok"] * (len(o["ops"]) - 2) + [o["analysis"], o["lint"]]

    pub = [{k: c[k] for k in ("text", "tags", "cmds", "expect", "kind")} for c in cases]
    by_pub = {id(p): c for p, c in zip(pub, cases)}
    iout, mout = ctx.correspond(
        "analyze+lint", "Analyzer", pub, lambda p: obs_of(by_pub[id(p)])["ops"], lambda p: impl(by_pub[id(p)]),
        nontrivial=lambda p, o: o[-2] != "none", impl_timeout=30.0)
    if mout:
        def old_lines(p):
            ops = obs_of(by_pub[id(p)])["ops"]
            return ops[:-2] + ["analyzeallold", "lintallold"]
        ctx.selftest("analyze+lint", "Analyzer", pub, old_lines, mout)
    for c in cases:
        o = obs_of(c)
        ctx.count("kind:" + c["kind"])
        ctx.count("analysis:" + ("raises" if o["exc"] is not None else "no-items" if o["analysis"] == "none" else "items"))
        for n in o["nodes"]:
            ctx.count("node:" + n["kind"])
        for e in c["expect"]:
            ctx.count("expect:" + e["what"])
        for it in (o["analysis"].split(" ") if o["exc"] is None and o["analysis"] != "none" else []):
            ctx.count("item:" + it.split(":")[1] + (":fix" if it.endswith(":fix") else ""))
        for f in judge(c, o):
            ctx.fail(f)
    # -- stream "history": one engine, several editor sessions, linted repeatedly while the definition changes
    hcases = history_cases(ctx)
    repaired = uodinfo_clears_cache()
    ctx.extra["uodinfo_clears_analysis_cache"] = repaired     # which variant of the session model the code is tied to
    hobs = {id(c): observe_history(c, i, repaired) for i, c in enumerate(hcases)}
    hpub = [{"steps": c["steps"]} for c in hcases]
    hby = {id(p): c for p, c in zip(hpub, hcases)}
    hout, hmod = ctx.correspond(
        "history", "Analyzer", hpub, lambda p: hobs[id(hby[id(p)])]["ops"], lambda p: hobs[id(hby[id(p)])]["outs"],
        nontrivial=lambda p, o: sum(1 for st in p["steps"] if st["op"] == "uodinfo") > 1, impl_timeout=60.0)
    for c in hcases:
        o = hobs[id(c)]
        ctx.count("history:lints", len(o["lints"]))
        ctx.count("history:definition-changes", sum(1 for st in c["steps"] if st["op"] == "uodinfo"))
        ctx.count("history:re-registrations-with-engine-data-kept",
                  sum(1 for k, st in enumerate(c["steps"]) if st["op"] == "register" and st.get("keep") and k > 0))
        ctx.count("history:sessions", len({ln["session"] for ln in o["lints"]}))
        ctx.count("history:lints-after-a-lint-between-kept-reregistration-and-uodinfo",
                  sum(1 for ln in o["lints"] if ln["stale_before_repair"]))
        seen: dict = {}
        for ln in o["lints"]:      # another session linted another text under the same version number before
            if any(t != ln["text"] for (sid, t) in seen.get(ln["version"], []) if sid != ln["session"]):
                ctx.count("history:lints-with-a-version-another-session-used-for-another-text")
            seen.setdefault(ln["version"], []).append((ln["session"], ln["text"]))
        ctx.count("history:undefined-references-now",
                  sum(1 for ln in o["lints"] if ln["defined"] for r in ln["refs"]
                      if r["name"] not in (ln["tags"] if r["kind"] == "tag" else ln["cmds"])))
        for f in judge_history(c, o):
            ctx.fail(f)
    ctx.exhaustive = False
    ctx.extra["exhaustive_scopes"] = ["single-statement methods: keyword × tag reference × operator × rhs × 3 tag "
                                      "environments; all Simulate-off forms; command name × argument forms"]
    ctx.assumptions = [
        "tag and command names of a UOD are unique and not blank; tag units are supported units or None "
        "(both enforced when a UOD is built)",
        "tag units 'vol%', 'wt%', 'mol%' are not generated (their comparability differs between /repo HEAD and the C21 fix)",
        "Levenshtein.ratio and the command validators are parameters of the model (taken from the implementation per case)",
        "the parser is not modelled: node fields are taken from the real parser; parser exceptions are caught by the oracle",
        "macro recursion (C41) is not generated",
    ]
    return ctx.finish()


def replay(obj) -> int:
    from vp.core import drive
    from harness.translators import unit_table
    unit_table.generate()
    c = obj.get("case") or next((d["case"] for d in obj.get("disagreements", []) if d.get("case")), None)
    if c is None:
        print(json.dumps(obj, indent=1)[:4000])
        return 0
    if "steps" in c:   # a case of the history stream
        repaired = uodinfo_clears_cache()
        print("this code " + ("clears" if repaired else "does not clear") + " the analysis-input cache in handle_UodInfoMsg")
        o = observe_history(c, 0, repaired)
        m = drive("Analyzer", [o["ops"]])
        mi = [x for op, x in zip(o["ops"], m[0]) if op == "sess-lint"]
        k = 0
        for st in c["steps"]:
            if st["op"] == "register":
                print("register            handle_RegisterEngineMsg " + ("while the aggregator still holds the engine's data "
                      "(the previous disconnect did not complete)" if st.get("keep") else "(after handle_EngineDisconnected, if "
                      "it was registered)"))
            elif st["op"] == "uodinfo":
                print(f"uodinfo             tags {[n for n, _ in st['tags']]}  commands {[n for n, _ in st['cmds']]}")
            else:
                ln = o["lints"][k]
                print(f"lint session {st.get('session', 0)} version {st['version']} {st['text']!r}\n    implementation: {ln['lint']}\n    model:          {mi[k]}")
                k += 1
        fails = judge_history(c, o)
        for f in fails:
            print(f"oracle: {f.key}: {f.detail}")
        if not fails:
            print("oracle: property holds on this history")
        return 1 if fails else 0
    c.setdefault("expect", [])
    o = observe(c)
    m = drive("Analyzer", [o["ops"], o["ops"][:-2] + ["analyzeallold", "lintallold"]])
    print("method:")
    for i, ln in enumerate(c["text"].splitlines()):
        print(f"  {i}: {ln!r}")
    print(f"tags: {c['tags']}\ncommands: {[n for n, _ in c['cmds']]}")
    print(f"implementation: analysis = {o['analysis']}    lint = {o['lint']}")
    print(f"model (repaired): analysis = {m[0][-2]}    lint = {m[0][-1]}")
    print(f"model (as-is):    analysis = {m[1][-2]}    lint = {m[1][-1]}")
    fails = judge(c, o)
    for f in fails:
        print(f"oracle: {f.key}: {f.detail}")
    if not fails:
        print("oracle: property holds on this case")
    return 1 if fails else 0
