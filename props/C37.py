"""C37 Active-user list tracks live connections.

Proof half: OPM.Properties.C37 — over all histories of subscribe / disconnect / register / unregister events:
the connection map equals the declaratively defined live connections, listed => registered, the last disconnect of
a user removes them from every unit; listed => has a live connection under the hypothesis that users register while
connected (C37_partial), with the full statement and its counterexample visible.
Tie half: the real `FromFrontend` wired to the real `FrontendPublisher` (subscribe events through the pubsub
notifier, disconnects through `FrontendPublisher.on_disconnect`) vs the model, after every event of every history.
Oracle: bookkeeping of live connections / registrations from the history alone vs `engine_data.active_users`.
"""
from __future__ import annotations

import asyncio
import itertools
import json
from unittest.mock import AsyncMock, Mock

from vp.core import Check, Failure, drive, load_corpus

META = dict(
    level_text="Lean 4 theorems over all histories of subscribe / disconnect / register / unregister events (any number "
               "of users, connections, units; malformed topics included): (1) the aggregator's connection map is exactly "
               "the set of live connections defined on the history (subscribed and not closed since), however often a "
               "user connected before; (2) a listed user is registered on that unit; (3) when the last live connection "
               "of a user closes the user is removed from every unit; (4) a listed user has a live connection - proved "
               "for all histories in which users register while connected (C37_partial); the unconditional statement "
               "C37_full is shown false by a witness (C37_counterexample: register without any connection), recorded "
               "as a finding. The model is tied to FromFrontend by differential execution after every event.",
    level_note="Partial in clause (4) only, as stated. The theorems are about the repaired handlers "
               "(fixes/C37-prune-dead-man-switch-map.diff); on the unrepaired code the correspondence breaks and the "
               "oracle reports the failing history. Trusted: Lean kernel (+ propext/Classical.choice/Quot.sound), the "
               "harness, fastapi_websocket_pubsub's notifier delivering subscribe events with the subscriber id. The "
               "units are a fixed universe whose engines may disconnect and re-register; user names and publish notifications are "
               "not modelled. Results are "
               "compared as ok / err / true / false (which exception a malformed event raises is not compared). The known "
               "finding covers exactly: listed, not connected when registering and never connected since; a user who had a "
               "live connection at or after the registration and is listed without one is a violation.",
    technique="Lean 4 proof (induction over histories from the right, step-effect lemmas, declarative Live/Registered "
              "predicates on the history) + differential correspondence (exhaustive small scope + sessions + malformed) "
              "+ independent history oracle",
)
MODULE = "OPM.Properties.C37"
REQUIRED = ["OPM.C37.engine_outage_empties_unit", "OPM.C37.dms_iff_live", "OPM.C37.listed_implies_registered", "OPM.C37.last_disconnect_removes_everywhere",
            "OPM.C37.listed_implies_live_partial", "OPM.C37.C37_partial", "OPM.C37.C37_counterexample",
            "OPM.C37.register_lists", "OPM.C37.disconnect_with_other_connection_keeps"]

KNOWN_KEY = "listed-without-live-connection:registered-while-not-connected"

# A case: {"units": n, "ops": [op, ...]}; op = ["sub", c, [topic, ...]] | ["disc", c] | ["reg", e, u] | ["unreg", e, u]
#                                          | ["edown", e] | ["eup", e]   (the unit's engine disconnects / registers)
# topic = "u<k>" (dead_man_switch/<user k>), "u<k>+" (same with an extra path segment), "x" (another topic),
#         "b" (dead_man_switch without a slash: IndexError in the handler)


def topic_text(tok: str, i: int) -> str:
    if tok == "x":
        return ["E0/run_log", "process_units", "E1/active_users", "MSW_x"][i % 4]
    if tok == "b":
        return "dead_man_switch"
    if tok.endswith("+"):
        return f"dead_man_switch/user{tok[1:-1]}/extra"
    return f"dead_man_switch/user{tok[1:]}"


def wire_topic(tok: str) -> str:
    return tok[:-1] if tok.endswith("+") else tok


def op_lines(case, init="init") -> list[str]:
    out = [f"{init}\t{case['units']}"]
    for op in case["ops"]:
        if op[0] == "sub":
            out.append(f"sub\t{op[1]}\t" + ("-" if not op[2] else ",".join(wire_topic(t) for t in op[2])))
        elif op[0] in ("disc", "edown", "eup"):
            out.append(f"{op[0]}\t{op[1]}")
        else:
            out.append(f"{op[0]}\t{op[1]}\t{op[2]}")
    return out


_loop = None


def _run(coro):
    global _loop
    if _loop is None:
        _loop = asyncio.new_event_loop()
    return _loop.run_until_complete(coro)


async def _noop(*_a, **_k):
    return None


_db_ready = False


def _engine_data(i: int):
    import openpectus.aggregator.models as Mdl
    return Mdl.EngineData(engine_id=f"E{i}", computer_name="c", engine_version="1", hardware_str="", uod_name="u",
                          uod_author_name="", uod_author_email="", uod_filename="", location="",
                          data_log_interval_seconds=1)


def _setup():
    """The real Aggregator (FromFrontend and FromEngine on one engine map) behind the real FrontendPublisher; an
    in-memory database for the recent-engine bookkeeping of engine_disconnected / register_engine_data."""
    global _db_ready
    import openpectus.aggregator.data.models as DMdl
    from openpectus.aggregator.aggregator import Aggregator
    from openpectus.aggregator.data import database
    from openpectus.aggregator.frontend_publisher import FrontendPublisher
    from openpectus.protocol.aggregator_dispatcher import AggregatorDispatcher
    if not _db_ready:
        database.configure_db("sqlite:///:memory:")
        DMdl.DBModel.metadata.create_all(database._engine)  # type: ignore[arg-type]
        _db_ready = True
    global _pub
    if _pub is None:
        # one FrontendPublisher per process (building its FastAPI routes is the expensive part); every case gets a new
        # Aggregator, whose FromFrontend wires itself to the publisher in its constructor — so the wiring of the previous
        # case (disconnect callback, subscribe event, pubsub subscriptions) is taken off first
        _pub = FrontendPublisher()
        _pub.pubsub_endpoint.publish = _noop
    _pub.on_disconnect_callbacks.clear()
    notifier = _pub.pubsub_endpoint.notifier
    notifier._on_subscribe_events.clear()
    notifier._topics.clear()
    agg = Aggregator(AggregatorDispatcher(), _pub, _WebPushStub())
    return _pub, agg


_pub = None


class _WebPushStub:
    async def publish_message(self, *a, **k):
        return None


class _Channel:
    def __init__(self, cid: str):
        self.id = cid


def _group(pairs) -> str:
    d: dict[int, set[int]] = {}
    for a, b in pairs:
        d.setdefault(a, set()).add(b)
    return "-" if not d else ";".join(f"{k}:{','.join(str(x) for x in sorted(v))}" for k, v in sorted(d.items()))


def _num(s: str, prefix: str) -> int:
    return int(s[len(prefix):]) if s.startswith(prefix) and s[len(prefix):].isdigit() else 10 ** 6


def execute(case):
    """Runs the history on the real code. Returns per event (result, listed pairs (unit, user), map pairs (conn, user))."""
    pub, agg = _setup()
    ff, fe, units = agg.from_frontend, agg.from_engine, agg._engine_data_map
    notifier = pub.pubsub_endpoint.notifier
    obs = []

    async def main():
        for i in range(case["units"]):          # all units are in the engine map at the start
            units[f"E{i}"] = _engine_data(i)
        for op in case["ops"]:
            try:
                if op[0] == "sub":
                    await notifier.subscribe(f"conn{op[1]}", [topic_text(t, i) for i, t in enumerate(op[2])], _noop)
                    r = "ok"
                elif op[0] == "disc":
                    await pub.on_disconnect(_Channel(f"conn{op[1]}"))
                    r = "ok"
                elif op[0] == "edown":
                    fe.engine_disconnected(f"E{op[1]}")
                    r = "ok"
                elif op[0] == "eup":
                    if op[1] < case["units"]:       # the model's universe of units is 0 .. units-1
                        fe.register_engine_data(_engine_data(op[1]))
                    r = "ok"
                elif op[0] == "reg":
                    r = "true" if await ff.register_active_user(f"E{op[1]}", f"user{op[2]}", "Name") else "false"
                else:
                    r = "true" if await ff.unregister_active_user(f"E{op[1]}", f"user{op[2]}") else "false"
            except Exception as e:  # noqa: BLE001
                r = "err"      # which exception a malformed event raises is not part of what is compared
            listed = [(_num(eid, "E"), _num(uid, "user")) for eid, ed in units.items() for uid in ed.active_users]
            conns = []
            for cid, us in ff.dead_man_switch_user_ids.items():
                for uid in ([us] if isinstance(us, str) else list(us)):
                    conns.append((_num(cid, "conn"), _num(uid, "user")))
            obs.append((r, listed, conns))
        await asyncio.sleep(0)   # let the publish tasks run

    _run(main())
    return obs


_OBS: dict[int, list] = {}   # observations of the implementation per case object (reused by the oracle)


def impl_lines(case) -> list[str]:
    obs = execute(case)
    _OBS[id(case)] = obs
    return ["ok"] + [f"{r}|A:{_group(a)}|D:{_group(d)}" for r, a, d in obs]


# ---------------------------------------------------------------------------------------------------------
# property oracle: bookkeeping from the history alone

def has_bad(case) -> bool:
    return any(op[0] == "sub" and "b" in op[2] for op in case["ops"])


def oracle(case) -> list[Failure] | None:
    if has_bad(case):
        return None   # which users a failed subscription call names is not defined by the property
    obs = _OBS.get(id(case)) or execute(case)
    live: dict[int, set[int]] = {}             # connection -> users whose dead man switch it subscribed to
    reg_at: dict[tuple[int, int], int] = {}    # (unit, user) -> index of the registration in force
    lost_at: dict[int, int] = {}               # user -> index of the latest event that closed their last connection
    away: set[int] = set()                     # units whose engine is currently away
    last_live: dict[int, int] = {}             # user -> index of the latest event after which they had a live connection
    found: dict[str, Failure] = {}

    def users_live():
        return {u for us in live.values() for u in us}

    for i, (op, (_r, listed, _d)) in enumerate(zip(case["ops"], obs)):
        if op[0] == "sub":
            for t in op[2]:
                if t.startswith("u"):
                    live.setdefault(op[1], set()).add(int(wire_topic(t)[1:]))
        elif op[0] == "disc":
            gone = live.pop(op[1], set())
            for u in gone - users_live():
                lost_at[u] = i
        elif op[0] == "reg":
            if op[1] < case["units"] and op[1] not in away:     # a request for a unit whose engine is away is refused
                reg_at[(op[1], op[2])] = i
        elif op[0] == "unreg":
            if op[1] not in away:
                reg_at.pop((op[1], op[2]), None)
        elif op[0] == "edown":
            away.add(op[1])
        elif op[0] == "eup":
            away.discard(op[1])
        # An engine outage does not end a registration as far as the property is concerned (the code as it is empties the
        # list, which is allowed: "only while"); what must not happen is that a user whose last connection closed is
        # listed — also when that happened while the engine was away.
        connected = users_live()
        for u in connected:
            last_live[u] = i
        where = {"ops": case["ops"][:i + 1], "units": case["units"]}
        for (e, u) in sorted(set(listed)):
            if (e, u) not in reg_at:
                found.setdefault("listed-but-not-registered", Failure(
                    "listed-but-not-registered", where,
                    f"after event {i} {op}: user {u} listed on unit {e} without a registration in force"))
            elif u not in connected:
                # known finding = exactly: not connected when registering and never connected since.  A user who had a
                # live connection at or after the registration and is still listed without one is a violation.
                if last_live.get(u, -1) >= reg_at[(e, u)]:
                    found.setdefault("still-listed-after-last-connection-closed", Failure(
                        "still-listed-after-last-connection-closed", where,
                        f"after event {i} {op}: user {u} is listed on unit {e}; their last live connection closed at "
                        f"event {lost_at.get(u)} (registered at event {reg_at[(e, u)]}, last connected after event "
                        f"{last_live[u]})"))
                else:
                    found.setdefault(KNOWN_KEY, Failure(
                        KNOWN_KEY, where,
                        f"after event {i} {op}: user {u} is listed on unit {e} but has had no live connection since "
                        f"registering at event {reg_at[(e, u)]}"))
        if any(k != KNOWN_KEY for k in found):
            break
    return list(found.values()) or None


# ---------------------------------------------------------------------------------------------------------
# generators

def alphabet(users: int, conns: int, units: int, engines: bool = False) -> list[list]:
    ops: list[list] = []
    if engines:
        ops += [[k, e] for e in range(units) for k in ("edown", "eup")]
    ops += [["sub", c, [f"u{u}"]] for c in range(conns) for u in range(users)]
    ops += [["disc", c] for c in range(conns)]
    ops += [["reg", e, u] for e in range(units) for u in range(users)]
    ops += [["unreg", e, u] for e in range(units) for u in range(users)]
    return ops


def _canonical(h) -> bool:
    """Users, connections and units are interchangeable (code and model only compare ids for equality), so of all
    histories that differ by a renaming only the one that introduces each kind of id in the order 0, 1, 2 … is kept."""
    nu = nc = ne = 0
    for op in h:
        if op[0] == "sub":
            cs, us, es = [op[1]], [int(t[1:]) for t in op[2]], []
        elif op[0] == "disc":
            cs, us, es = [op[1]], [], []
        elif op[0] in ("edown", "eup"):
            cs, us, es = [], [], [op[1]]
        else:
            cs, us, es = [], [op[2]], [op[1]]
        for c in cs:
            if c > nc:
                return False
            nc = max(nc, c + 1)
        for e in es:
            if e > ne:
                return False
            ne = max(ne, e + 1)
        for u in us:
            if u > nu:
                return False
            nu = max(nu, u + 1)
    return True


def gen_exhaustive(users: int, conns: int, units: int, maxlen: int, engines: bool = False) -> list[dict]:
    ab = alphabet(users, conns, units, engines)
    return [{"units": units, "ops": [list(o) for o in h]}
            for ln in range(1, maxlen + 1) for h in itertools.product(ab, repeat=ln) if _canonical(h)]


def gen_sessions(ctx: Check, n: int) -> list[dict]:
    """Mostly well-behaved browser sessions: connect, register, move between units, reconnect, several tabs, close."""
    rng = ctx.rng
    cases = []
    for _ in range(n):
        units, users = rng.randrange(1, 4), rng.randrange(1, 4)
        next_conn = 0
        open_conns: dict[int, int] = {}
        ops: list[list] = []
        pending_up: list[list[int]] = []
        for _ in range(rng.randrange(4, 40)):
            for pu in list(pending_up):
                pu[0] -= 1
                if pu[0] < 0:
                    ops.append(["eup", pu[1]])
                    pending_up.remove(pu)
            u = rng.randrange(users)
            mine = [c for c, w in open_conns.items() if w == u]
            k = rng.random()
            if k < 0.25 or not open_conns:
                c = next_conn
                next_conn += 1
                open_conns[c] = u
                noise = ["x"] * rng.randrange(0, 3)
                ops.append(["sub", c, noise + [rng.choice([f"u{u}", f"u{u}", f"u{u}+"])]])
                if rng.random() < 0.3:
                    ops.append(["sub", c, ["x"]])
            elif k < 0.46:
                ops.append(["reg", rng.randrange(units), u])
            elif k < 0.50:            # the unit's engine drops out; it comes back a few events later
                e = rng.randrange(units)
                ops.append(["edown", e])
                pending_up.append([rng.randrange(0, 4), e])
            elif k < 0.62:
                e, e2 = rng.randrange(units), rng.randrange(units)
                ops += [["unreg", e, u], ["reg", e2, u]]
            elif k < 0.70:
                ops.append(["unreg", rng.randrange(units), u])
            elif k < 0.92 and mine:
                c = rng.choice(mine)
                if rng.random() < 0.3:   # websocket reconnect: the new connection subscribes, then the old one closes
                    c2 = next_conn
                    next_conn += 1
                    open_conns[c2] = u
                    ops.append(["sub", c2, [f"u{u}"]])
                del open_conns[c]
                ops.append(["disc", c])
            else:
                ops.append(["reg", rng.randrange(units), u])
        if rng.random() < 0.5:
            for c in list(open_conns):
                ops.append(["disc", c])
        cases.append({"units": units, "ops": ops})
    return cases


def gen_malformed(ctx: Check, n: int) -> list[dict]:
    rng = ctx.rng
    cases = [{"units": 1, "ops": [["disc", 0]]}, {"units": 0, "ops": [["reg", 0, 0], ["unreg", 0, 0]]},
             {"units": 1, "ops": [["sub", 0, []], ["disc", 0]]},
             {"units": 1, "ops": [["sub", 0, ["u0", "b", "u1"]], ["reg", 0, 0], ["reg", 0, 1], ["disc", 0]]},
             {"units": 2, "ops": [["sub", 0, ["u0", "u1"]], ["reg", 0, 0], ["reg", 1, 1], ["disc", 0]]}]
    for _ in range(n):
        units = rng.randrange(0, 3)
        ops: list[list] = []
        for _ in range(rng.randrange(1, 14)):
            k = rng.random()
            if k < 0.35:
                toks = [rng.choice(["u0", "u1", "u2", "u0+", "x", "x", "b"]) for _ in range(rng.randrange(0, 4))]
                ops.append(["sub", rng.randrange(3), toks])
            elif k < 0.55:
                ops.append(["disc", rng.randrange(4)])
            elif k < 0.75:
                ops.append(["reg", rng.randrange(units + 1), rng.randrange(3)])
            elif k < 0.85:
                ops.append([rng.choice(["edown", "eup", "edown"]), rng.randrange(units + 1)])
            else:
                ops.append(["unreg", rng.randrange(units + 1), rng.randrange(3)])
        cases.append({"units": units, "ops": ops})
    return cases


def is_nontrivial(case, _out=None) -> bool:
    """A user with a registration is disconnected at least once after an earlier connection of theirs was closed."""
    ops = case["ops"]
    return sum(1 for o in ops if o[0] == "disc") >= 2 and any(o[0] == "reg" for o in ops)


def _count(ctx: Check, case) -> None:
    ops = case["ops"]
    ctx.count(f"len<={(len(ops) + 4) // 5 * 5}")
    if any(o[0] == "edown" for o in ops):
        ctx.count("engine-outage")
        down = set()
        for o in ops:
            if o[0] == "edown":
                down.add(o[1])
            elif o[0] == "eup":
                down.discard(o[1])
            elif o[0] == "disc" and down:
                ctx.count("disconnect-during-engine-outage")
                break
    subs = [o for o in ops if o[0] == "sub"]
    if sum(1 for o in ops if o[0] == "disc") >= 2:
        ctx.count("two-or-more-disconnects")
    users_per_conn: dict[int, set] = {}
    for o in subs:
        users_per_conn.setdefault(o[1], set()).update(t for t in map(wire_topic, o[2]) if t.startswith("u"))
    if any(len(v) > 1 for v in users_per_conn.values()):
        ctx.count("connection-with-two-users")
    if has_bad(case):
        ctx.count("malformed-topic")
    seen = set()
    for o in ops:
        if o[0] == "sub":
            seen.add(o[1])
        if o[0] == "disc" and o[1] not in seen:
            ctx.count("disconnect-of-unknown-connection")
            break


def run(ctx: Check) -> int:
    ctx.prove(MODULE, REQUIRED)
    corpus = [c for c in load_corpus(ctx.id) if "ops" in c]
    small = gen_exhaustive(2, 2, 1, ctx.n(4, 5))
    small2 = gen_exhaustive(1, 3, 2, ctx.n(3, 4)) + gen_exhaustive(1, 1, 1, ctx.n(5, 6), engines=True)
    sessions = gen_sessions(ctx, ctx.n(1200, 20000))
    bad = gen_malformed(ctx, ctx.n(400, 8000))
    ctx.rule = ("histories of [sub c topics | disc c | reg unit user | unreg unit user | edown unit | eup unit] run on the "
                "real Aggregator (FromFrontend + FromEngine.engine_disconnected / register_engine_data on one engine map) "
                "wired to the real FrontendPublisher; the listing, the connection map and the result are compared after EVERY event. small: "
                "ALL histories up to length 4/5 over 2 users x 2 connections x 1 unit and up to length 3/4 over 1 user x 3 "
                "connections x 2 units, and up to length 5/6 over 1 user x 1 connection x 1 unit INCLUDING engine down / up. "
                "(Of histories that differ only by renaming users / connections / units one representative is run.) "
                "sessions (with engine outages of 0-3 events): random browser sessions (connect, register, move, reconnect, tabs, close; "
                "1-3 users, 1-3 units, fresh connection ids). malformed: topics without '/', disconnect of unknown "
                "connections, unknown units, several users on one connection, reused connection ids. Non-trivial = at least "
                "two disconnects and a registration.")
    all_cases: list[dict] = []
    for name, cases in (("corpus+small", corpus + small + small2), ("sessions", sessions), ("malformed", bad)):
        _o, mout = ctx.correspond(name, "ActiveUsers", cases, op_lines, impl_lines, nontrivial=is_nontrivial)
        if name == "sessions" and mout:
            ctx.selftest(name, "ActiveUsers", cases, lambda c: op_lines(c, "initold"), mout)
        all_cases += cases
    for c in all_cases:
        _count(ctx, c)
    ctx.monitor(all_cases, oracle)
    ctx.exhaustive = True
    ctx.extra["exhaustive_scope"] = (f"all histories of length <= {ctx.n(4, 5)} over 2 users x 2 connections x 1 unit "
                                     f"({len(small)}) and of length <= {ctx.n(3, 4)} over 1 user x 3 connections x 2 units "
                                     f"and <= {ctx.n(5, 6)} over 1 user x 1 connection x 1 unit with engine down/up ({len(small2)}), up to "
                                     f"renaming of ids; sessions and malformed streams are sampled")
    ctx.assumptions = ["a live connection of a user = a websocket connection that subscribed to the user's "
                       "dead_man_switch/<user> topic and has not been closed since",
                       "units are 0..n-1, all registered at the start; an engine may leave the map and register again (edown / eup)",
                       "clause 'listed => live connection' is claimed only for histories in which users register while "
                       "connected (C37_partial); the other clauses for all histories"]
    return ctx.finish(search=lambda c: c.monitor(gen_sessions(c, 3000) + gen_exhaustive(2, 2, 1, 4), oracle))


def replay(obj) -> int:
    case = obj.get("case")
    if not isinstance(case, dict) or "ops" not in case:
        print(json.dumps(obj, indent=1))
        return 0
    impl = impl_lines(case)
    model = drive("ActiveUsers", [op_lines(case)])[0]
    for ln, a, b in zip(op_lines(case), impl, model):
        print(f"{ln!r:40} impl {a:40} model {b}" + ("" if a == b else "   <-- differs"))
    fs = oracle(case) or []
    for f in fs:
        print(f"oracle: {f.key}: {f.detail}")
    if not fs:
        print("oracle: ok")
    return 1 if any(f.key != KNOWN_KEY for f in fs) else 0
