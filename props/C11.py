"""C11 Command exclusivity and init/finalize pairing.

Proof half: OPM.Properties.C11 — over model M2 (OPM.Model.CmdMgr: CommandManager's UOD half, UodCommand flags,
uod.command_instances, tracking marks, Start/Stop/Restart as resident commands) an invariant is proved for every
reachable state (all UOD configurations, all sequences of requests / ticks / cancel / force / Start / Stop /
Restart) and from it: exclusivity of the exec callbacks of every tick, the exact callback sequence of every
instance (init, exec*, final), finalized iff released from the instance map, no instance while Stop/Restart waits.
Tie half: correspondence of the real Engine + CommandManager + Tracking (interpreter bypassed) with the model on
generated op streams (random, exhaustive short, malformed).  Oracle: the property stated over the callback log of
instrumented UOD commands — on those streams and on the full engine running generated methods with injected
code, cancel requests and Stop/Restart.

The model follows the code repaired by fixes/C11-uod-cancel-paths.diff; on the unchanged tree the check reports
the defect (two instances executing in one tick).
"""
from __future__ import annotations

from harness.cmd_props import FIX, engine_monitor, streams
from vp.core import Check

META = dict(
    level_text="Lean 4 theorems over the command-manager model (all UOD configurations: durations, failing iterations, "
               "overlap lists; all sequences of UOD requests, ticks, cancel/force requests, Start/Stop/Restart): an "
               "inductive invariant of every reachable state gives (1) in every tick the exec callbacks go to instances "
               "with pairwise different, non-overlapping commands, (2) each instance's callbacks are exactly init, "
               "exec 0..n-1, and final iff finalized, in this order, (3) an instance is in uod.command_instances iff it "
               "is not finalized and then a request the manager still executes owns it, (4) instances that coexist "
               "between requests never conflict, (5) between the two phases of Stop/Restart no instance exists. The "
               "model is tied to CommandManager/UodCommand/Tracking by differential execution of generated op streams "
               "on the real Engine.",
    level_note="The model follows the code as repaired by " + FIX + " (a UOD request that has not started is dropped "
               "when a newer same-name/overlapping request or Stop cancels it; a tracking refusal no longer skips "
               "finalize); the theorem asis_two_instances_execute_in_one_tick shows the unchanged code violates the "
               "property. Trusted: Lean kernel, the harness, the model's abstractions (UOD exec functions are "
               "parameters 'completes at iteration n / raises at iteration k / calls set_complete() and then raises "
               "at iteration k'; whether the argument parser accepts a "
               "request's arguments is a flag of the request; UOD requests are interpreter-sourced; one lifecycle "
               "command in flight). The interpreter's scheduling and UOD commands from the user's command buttons are "
               "covered by the engine-level oracle, not by the theorems: a user command between the two phases of "
               "Stop/Restart is initialised and never finalized (known findings *:started-while-stopping; repair "
               "proposed in fixes/C10-dispose-instances-on-stop.diff). The clause 'no finalize callback on an instance "
               "whose initialize callback never ran' (unpaired finalize) is decided by the oracles over the "
               "implementation's callback log (op streams and engine level, key finalized-without-initialize), not by "
               "a theorem of its own: the model's expected trace admits a final-only instance (`tomb`: an "
               "uninitialised instance left in the map by a rejected request), which OPM.C10.no_stale shows "
               "unreachable once rejected requests dispose their instance.",
    technique="Lean 4 proof (inductive invariant over ops; loop invariants over the executing snapshot) + differential "
              "correspondence + engine-level property oracle",
)
MODULE = "OPM.Properties.C11"
REQUIRED = ["OPM.C11.exclusive_tick", "OPM.C11.callbacks_paired", "OPM.C11.finalized_iff_released",
            "OPM.C11.live_instances_exclusive", "OPM.C11.stopping_quiescent", "OPM.C11.callbacks_have_instances",
            "OPM.C11.asis_two_instances_execute_in_one_tick", "OPM.C11.paused_request_not_executed"]


def engine_oracle(case, res):
    from harness.cmd_engine import oracle_c11
    return oracle_c11(res)


def run(ctx: Check) -> int:
    from harness.cmdmgr_streams import oracle_c11
    ctx.prove(MODULE, REQUIRED)
    ctx.rule = ("Op streams for the command manager: UOD configuration (4 commands, durations 0-6 iterations, optional "
                "failing iteration, 0-3 overlap lists incl. duplicated pairs) + after Start a random sequence of UOD "
                "requests, ticks, cancel/force by request id (known, unknown, ended), Simulate, pause flag on/off, Stop/Restart/Start; "
                "all sequences of length <= 3/4 over a 10-op alphabet (incl. a request with rejected arguments); a malformed stream (requests that are invalid in "
                "the state they arrive in). Non-trivial = a tick in which one instance is finalized while another "
                "executes, or a run ends. Engine level: generated methods (UOD commands from the main sequence and "
                "Watch/Alarm bodies, Wait, Mark, Block) with injected snippets, cancel requests on run-log items and "
                "Stop/Restart at random ticks.")
    streams(ctx, ["c11", "c11", "mixed"], ctx.n(500, 12000), ctx.n(3, 4), ctx.n(60, 1500), [oracle_c11], "cmdmgr")
    engine_monitor(ctx, "c11", ctx.n(500, 12000), engine_oracle)
    ctx.exhaustive = False
    ctx.extra["exhaustive_scope"] = f"all op sequences of length {ctx.n(3, 4)} over 10 ops after Start (one UOD configuration)"
    ctx.extra["fix"] = FIX
    ctx.assumptions = ["UOD command requests come from the interpreter (method or injected code), one node per request",
                       "command arguments parse", "at most one of Start/Stop/Restart in flight",
                       "the paused flag of the run state is an input of the model (Pause/Unpause: model M1); an exception "
                       "in the command phase sets it, Start/Stop/Restart clear it",
                       "the callbacks of the test UOD do nothing but log, complete or raise"]
    return ctx.finish()


def replay(obj) -> int:
    from harness.cmd_props import replay_case
    return replay_case(obj, "C11")
