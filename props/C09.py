"""C09 Unpause restores exactly the outputs from before that pause.

Proof half: OPM.Properties.C09 over model M1: in every state the engine can be in (any operation sequence, errors
included) the stored pre-pause values, if any, are exactly what the most recent Pause captured (= the output
values immediately before it), captured under the current run id, with no Unpause since; Unpause applies exactly
those (or nothing) and forgets them.
Tie half: real Engine vs model with output tags, `_prev_state`, hardware image and number of write_batch calls
observed after every operation: histories of runs, user/method pauses (timed and not), unpauses, stops, restarts,
error pauses, with output values changed between and during pauses.
Oracle: output tags of the implementation after each pause period against the values before its onset.
"""
from __future__ import annotations

import json

from vp.core import Check, Failure, drive, load_corpus

META = dict(
    level_text="Lean 4 theorems over model M1, for EVERY operation sequence (user and method-issued Pause with and "
               "without duration, Unpause, Stop, Restart, Start, Hold, output changes at any time, injected errors, "
               "ill-formed arguments) and every state in which an Unpause body runs (user, method, expiry or "
               "cancellation of a timed Pause): either nothing is stored and Unpause leaves the outputs alone, or "
               "the stored values are exactly those captured by the most recent Pause - the output values in effect "
               "immediately before it, for the registers Pause overwrites - that Pause ran under the current run "
               "id and no Unpause has run since; Unpause writes exactly these values back (whatever was written "
               "during the pause), touches no other output, and clears the store; an error that strikes while the engine is "
               "already paused leaves the stored values untouched; while the engine is not paused nothing is stored, "
               "so an Unpause with no pause in effect (an `Unpause` instruction, the timer of a timed Pause that was "
               "ended early) changes no output. Model tied to the real Engine by "
               "differential execution after every operation.",
    level_note="The theorems are about the repaired code (fixes/C09-clear-prev-state-with-run-id.diff): on the code "
               "as it is `_prev_state` survives Stop/Restart, so an error pause (or a method-issued Unpause) in the "
               "next run applies the previous run's outputs - Lean witness asIs_counterexample, replayed on the real "
               "engine every run and reported as VIOLATION until the diff is applied. 'The most recent Pause' is the moment "
               "the pause BEGAN (C09_full). On the code as it is a Pause body that runs while already paused (two "
               "Pause requests accepted before one tick, user + method Pause in one tick, a queued Pause after an "
               "error pause) captures the safe values, and Unpause then restores those instead of the outputs from "
               "before the pause: C09_counterexample, recorded finding unpause-restores-safe-values-after-double-"
               "pause (reproduced on the real engine every run), proposed repair fixes/C09-double-pause-capture.diff "
               "(C09_repaired: with it the full statement holds; C09_partial: what holds without it). The model "
               "variant follows the tree under test. Trusted: Lean kernel, harness, model (see C06). "
               "Outputs are integer tags of write registers; UOD commands are not in this model, their effect on "
               "outputs is the `set` operation.",
    technique="Lean 4 proof (history variables + invariant over the guarded action system that the controller "
              "refines; list lemmas for capture/overlay; decide +kernel witnesses) + differential correspondence "
              "+ independent pause-period oracle",
)
MODULE = "OPM.Properties.C09"
REQUIRED = ["OPM.C09.unpause_restores_latest_pause_of_same_run", "OPM.C09.prevOK_reach", "OPM.C09.prevOK_run",
            "OPM.C09.pause_captures", "OPM.C09.unpause_applies", "OPM.C09.pause_unpause_roundtrip",
            "OPM.C09.overlay_capture_applySafe", "OPM.C09.error_while_paused_keeps_snapshot",
            "OPM.C09.unpause_without_pause_changes_nothing", "OPM.C09.asIs_counterexample",
            "OPM.C09.C09_repaired", "OPM.C09.C09_counterexample", "OPM.C09.C09_partial",
            "OPM.C09.unpause_restores_onset"]

T = ["tick", 8, 8, 0]
WITNESS = {"method": "Mark: a",
           "ops": [["user", "Start"], T, ["set", 0, 33], ["user", "Pause"], T, ["user", "Stop"], T, T,
                   ["user", "Start"], T, ["set", 0, 44], ["errapi"], ["user", "Unpause"], T]}


def oracle(case: dict, recs: list[dict]) -> list[Failure]:
    """Pause periods of the implementation: onset = the `paused` flag goes up, release = it goes down while the
    same run goes on. A period opened by exactly one Pause command must end with the safe-valued outputs back at
    their values from before the onset - whatever errors struck during the period (they must not disturb the
    snapshot); a period opened by an error must end with the outputs untouched or restored to their values from
    before it; and a tick of a running, not paused run in which no Pause is pending must not change any output
    (an Unpause with no pause in effect - an `Unpause` instruction, the timer of a timed Pause that was ended
    early - applies nothing). Periods with several Pause commands or Pause + error at the onset are not judged.
    (C09 cases change outputs only by `set` operations between ticks, never inside a tick.)"""
    from harness.runstate import SAFES
    out: list[Failure] = []
    safe_idx = [i for i, s in enumerate(SAFES) if s is not None]

    def fail(key, i, msg):
        out.append(Failure(key, {"method": case.get("method", ""), "ops": case["ops"][:i]},
                           f"op {i} {recs[i]['op']}: {msg}"))

    unresolved = 0     # Pause requests (user accepted / method scheduled) not yet seen to take effect
    period = None      # dict(kind, expected)
    for i in range(1, len(recs)):
        a, b = recs[i - 1], recs[i]
        op = b["op"]
        if op[0] == "user":
            if op[1] == "Pause" and b["res"] == "ok":
                unresolved += 1
            continue
        if op[0] == "set":
            continue
        items = b.get("items", []) if op[0] == "tick" else []
        unresolved += sum(1 for x in items if x.startswith("m.pause"))
        n_unpause_m = sum(1 for x in items if x.startswith("m.unpause"))
        error = op[0] == "errapi" or (b["has_error"] and not a["has_error"]) or \
            (b["method_error"] and not a["method_error"]) or bool(b.get("interp_raised")) or \
            (op[0] == "tick" and len(op) > 3 and bool(op[3]))
        same_run = a["run_id"] is not None and a["run_id"] == b["run_id"] and b["started"]
        if not a["paused"] and b["paused"]:
            # the pause begins in this tick: whatever began it (one Pause, several Pause requests, a Pause and an
            # error), the values to restore are the outputs from before this tick
            # `re`: what a Pause body that ran while already paused would have captured instead (the safe
            # values, or the outputs at that later moment) - only used to name the failure
            safe_now = [SAFES[j] if SAFES[j] is not None else a["outs"][j] for j in range(len(SAFES))]
            if a["run_id"] != b["run_id"]:
                # the run changed in this very tick (Start / a whole Restart): what the outputs were when the
                # pause began inside the tick is not visible at the operation boundary
                period = {"kind": "ambiguous"}
                unresolved = 0
            elif op[0] != "tick":
                # an error between ticks began the pause; Pause requests still queued run in a later tick
                period = {"kind": "cmd" if unresolved else "error", "expected": list(a["outs"]), "re": []}
            elif unresolved >= 1:
                period = {"kind": "cmd", "expected": list(a["outs"]),
                          "re": [safe_now] if (unresolved > 1 or error) else []}
                # a Pause with a rejected argument raises in this tick and runs its body in the next one
                unresolved = sum(1 for x in items if x.startswith("m.pause") and x.endswith(":x"))
            elif error:
                period = {"kind": "error", "expected": list(a["outs"]), "re": []}   # an error pause
            else:
                period = {"kind": "ambiguous"}                            # cause unknown to the oracle
        elif a["paused"] and b["paused"]:
            if op[0] == "tick" and unresolved > 0 and period is not None and period["kind"] in ("cmd", "error"):
                period["kind"] = "cmd"
                period["re"].append(list(a["outs"]))      # a Pause body ran while already paused
                if unresolved > 1:                        # ... and another one after it
                    period["re"].append([SAFES[j] if SAFES[j] is not None else a["outs"][j]
                                         for j in range(len(SAFES))])
                unresolved = 0
        elif a["paused"] and not b["paused"]:
            if same_run and period is not None and unresolved == 0:
                if period["kind"] == "cmd":
                    bad = [j for j in safe_idx if b["outs"][j] != period["expected"][j]]
                    if bad:
                        key = ("unpause-restores-capture-of-pause-while-paused"
                               if any(all(b["outs"][j] == alt[j] for j in safe_idx) for alt in period["re"])
                               else "unpause-restores-wrong-values")
                        fail(key, i, f"outputs before the pause began {period['expected']}, after Unpause "
                                     f"{b['outs']}")
                elif period["kind"] == "error":
                    # either the error pause captured nothing and Unpause leaves the outputs alone, or it applied
                    # the safe state like Pause and Unpause restores the values from before it
                    restored = all(b["outs"][j] == period["expected"][j] for j in safe_idx)
                    if b["outs"] != a["outs"] and not restored:
                        fail("unpause-applies-stale-values", i,
                             f"error pause began with outputs {period['expected']}, Unpause changed "
                             f"{a['outs']} -> {b['outs']}")
            period = None
        elif op[0] == "tick" and unresolved == 0 and not error and same_run:
            if b["outs"] != a["outs"]:
                if n_unpause_m > 0:
                    fail("unpause-applies-stale-values", i,
                         f"Unpause while not paused changed outputs {a['outs']} -> {b['outs']}")
                else:
                    fail("stale-values-applied-with-no-pause-in-effect", i,
                         f"no pause in effect and no Pause pending, yet outputs {a['outs']} -> {b['outs']}")
        if not b["started"]:
            period = None
            unresolved = 0
    return out[:1]


def gen_history(rng, length: int, method: str | None = None) -> dict:
    """Histories aimed at C09: runs, pauses, unpauses, stops, restarts, error pauses, output changes."""
    from harness import runstate as R
    methods = ["Mark: a", "Wait: 0.5s\nPause: 0.5s\nMark: b", "Pause\nMark: b", "Wait: 0.25s\nUnpause\nMark: c",
               "Pause: 1s\nUnpause", "Hold: 0.5s\nPause: 0.25s", "Wait: 0.5s\nRestart", "Mark: a\nWait: 1s\nStop"]
    if method is None:
        method = rng.choice(methods) if rng.random() < 0.7 else R.gen_method(rng, False, blocks=False)
    sim = R.Sim(method)
    ops: list[list] = []
    val = 10
    try:
        raw = sim.raw()
        for _ in range(length):
            r = rng.random()
            if r < 0.35:
                op = ["tick", *rng.choice([(8, 8), (8, 8), (4, 4), (2, 2), (16, 16)]), 0]
            elif r < 0.55:
                val += 1
                op = ["set", rng.randrange(0, 3), val]
            elif r < 0.62:
                op = ["errapi"] if rng.random() < 0.7 else ["tick", 8, 8, 1]
            else:
                names = [c for c in R.CMDS if R.valid_now(raw, c)]
                weights = {"Pause": 5, "Unpause": 5, "Stop": 2, "Start": 4, "Restart": 2, "Hold": 1, "Unhold": 1}
                if names and rng.random() < 0.9:
                    name = rng.choices(names, [weights[n] for n in names])[0]
                else:
                    name = rng.choice(R.CMDS)
                op = ["user", name]
            _, _, raw = sim.do(op, "c09")
            ops.append(op)
    finally:
        sim.close()
    return {"method": method, "ops": ops}


def gen_cross_run(rng) -> dict:
    """Template: a run that ends (Stop or Restart) while something may still be stored, then a second run with a
    pause that captures nothing (error) or an Unpause without pause; random fillers in between."""
    val = [20]

    def filler(k):
        out = []
        for _ in range(rng.randrange(0, k + 1)):
            r = rng.random()
            if r < 0.5:
                out.append(list(T))
            else:
                val[0] += 1
                out.append(["set", rng.randrange(0, 3), val[0]])
        return out
    method = rng.choice(["Mark: a", "Mark: a", "Wait: 0.25s\nUnpause\nMark: c", "Wait: 0.5s\nPause: 0.5s\nMark: b",
                         "Wait: 0.25s\nPause\nMark: b"])
    ops = [["user", "Start"], list(T)] + filler(3)
    ops += rng.choice([[["user", "Pause"], list(T)], [["user", "Pause"], ["user", "Pause"], list(T)],
                       [["errapi"], ["user", "Unpause"], list(T), ["user", "Pause"], list(T)], [list(T), list(T)]])
    ops += filler(2)
    ops += rng.choice([[["user", "Stop"], list(T), list(T), ["user", "Start"], list(T)],
                       [["user", "Restart"], list(T), list(T), list(T)],
                       [["user", "Unpause"], list(T), ["user", "Stop"], list(T), list(T), ["user", "Start"], list(T)]])
    ops += filler(3)
    ops += rng.choice([[["errapi"], ["user", "Unpause"], list(T)], [["tick", 8, 8, 1], ["user", "Unpause"], list(T)],
                       [list(T), list(T), list(T)], [["user", "Pause"], list(T), ["user", "Unpause"], list(T)]])
    ops += filler(2)
    return {"method": method, "ops": ops}


def gen_restart_paused(rng) -> dict:
    """Template: a pause that stores values (user Pause, untimed method Pause, error) is still in effect when the
    run is ended by Restart (or Stop + Start); in the new run the outputs are changed and then an Unpause body runs
    with no pause in effect (the method's `Unpause` instruction - the method starts over in the new run) or an
    error pause + Unpause follows: nothing captured in the earlier run may be applied."""
    val = [60]

    def sets(lo, hi):
        out = []
        for _ in range(rng.randrange(lo, hi + 1)):
            val[0] += 1
            out.append(["set", rng.randrange(0, 3), val[0]])
        return out
    method = rng.choice(["Wait: 0.25s\nUnpause\nMark: c", "Mark: a\nUnpause", "Wait: 1.5s\nUnpause\nWait: 1s\nUnpause",
                         "Wait: 0.5s\nUnpause\nMark: b\nWait: 1s\nUnpause", "Mark: a"])
    ops = [["user", "Start"], list(T), list(T)] + sets(1, 3)
    ops += rng.choice([[["user", "Pause"], list(T)], [["user", "Pause"], list(T), list(T)],
                       [["errapi"], list(T)], [["user", "Pause"], list(T), ["errapi"]],
                       [["user", "Pause"], ["user", "Pause"], list(T)]])
    ops += sets(0, 2)
    ops += rng.choice([[["user", "Restart"], list(T), list(T), list(T)],
                       [["user", "Restart"], list(T), list(T), list(T)],
                       [["user", "Stop"], list(T), list(T), ["user", "Start"], list(T)]])
    ops += sets(1, 3)
    for _ in range(rng.randrange(3, 7)):             # the method of the new run reaches its Unpause
        ops.append(rng.choice([list(T), ["tick", 4, 4, 0], ["tick", 2, 2, 0]]))
        if rng.random() < 0.3:
            ops += sets(1, 1)
    if rng.random() < 0.4:
        ops += [["errapi"], ["user", "Unpause"], list(T)]
    return {"method": method, "ops": ops}


def gen_early_unpause(rng) -> dict:
    """Templates around an Unpause that finds nothing to restore: a timed method Pause ended early by the user
    (its timer later calls Unpause again), an `Unpause` instruction after an earlier pause cycle, errors while
    paused; outputs are changed at every stage."""
    from harness import runstate as R
    val = [100]

    def sets(lo, hi):
        out = []
        for _ in range(rng.randrange(lo, hi + 1)):
            val[0] += 1
            out.append(["set", rng.randrange(0, 3), val[0]])
        return out
    kind = rng.randrange(0, 4)
    if kind == 0:
        method = rng.choice(["Pause: 1s\nMark: b", "Wait: 0.25s\nPause: 2s\nMark: b", "Pause: 3s\nWait: 5s"])
    elif kind == 1:
        method = rng.choice(["Pause: 0.5s\nWait: 1s\nUnpause\nMark: c", "Wait: 0.5s\nPause: 0.25s\nUnpause",
                             "Wait: 1.5s\nUnpause\nWait: 1s\nUnpause"])
    else:
        method = "Mark: a\nWait: 10s"
    sim = R.Sim(method)
    ops: list[list] = []

    def do(op):
        ops.append(op)
        return sim.do(op, "c09")[2]
    try:
        raw = do(["user", "Start"])
        for op in [list(T)] + sets(1, 2):
            raw = do(op)
        if kind in (0, 1):
            for _ in range(8):                       # until the method's timed Pause is in effect
                if raw["paused"]:
                    break
                raw = do(["tick", 2, 2, 0])
            for op in sets(0, 1):
                raw = do(op)
            if kind == 0 or rng.random() < 0.5:
                raw = do(["user", "Unpause"])        # ended early; the Pause instance stays resident
                raw = do(["tick", 2, 2, 0])
            for op in sets(1, 2):
                raw = do(op)
            for _ in range(rng.randrange(4, 9)):     # the timer runs out / the method reaches its Unpause
                raw = do(rng.choice([list(T), ["tick", 4, 4, 0]]))
                if rng.random() < 0.3:
                    for op in sets(1, 1):
                        raw = do(op)
        else:
            raw = do(["user", "Pause"])
            if rng.random() < 0.3:
                raw = do(["user", "Pause"])          # two requests accepted before one tick
            raw = do(list(T))
            for op in sets(0, 1):
                raw = do(op)
            for _ in range(rng.randrange(1, 3)):     # errors while paused must not disturb the snapshot
                raw = do(rng.choice([["errapi"], ["tick", 8, 8, 1], list(T)]))
            raw = do(["user", "Unpause"])
            raw = do(list(T))
            if kind == 3:                            # a second cycle
                for op in sets(1, 1) + [["user", "Pause"], list(T), ["errapi"], list(T), ["user", "Unpause"], list(T)]:
                    raw = do(op)
    finally:
        sim.close()
    return {"method": method, "ops": ops}


def gen_cases(ctx: Check) -> dict[str, list[dict]]:
    from harness import runstate as R
    rng = ctx.rng
    streams: dict[str, list[dict]] = {}
    base = [["user", c] for c in ("Start", "Stop", "Pause", "Unpause", "Restart")] + [T, ["errapi"]]
    ex = []
    import itertools
    n = ctx.n(4, 5)
    for k in range(0, n + 1):
        for seq in itertools.product(range(len(base) + 1), repeat=k):
            ops = [["user", "Start"], list(T), ["set", 0, 30]]
            for pos, j in enumerate(seq):
                ops.append(["set", 0, 40 + pos] if j == len(base) else list(base[j]))
            ex.append({"method": "Mark: a", "ops": ops})
    # the same alphabet inside a pause in effect (errors while paused, Unpause, second Pause, Stop, ...)
    for k in range(0, ctx.n(3, 4) + 1):
        for seq in itertools.product(range(len(base) + 1), repeat=k):
            ops = [["user", "Start"], list(T), ["set", 0, 30], ["set", 1, 31], ["user", "Pause"], list(T)]
            for pos, j in enumerate(seq):
                ops.append(["set", 0, 50 + pos] if j == len(base) else list(base[j]))
            ops.append(list(T))
            ex.append({"method": "Mark: a", "ops": ops})
    streams["exhaustive"] = ex
    streams["early-unpause"] = [gen_early_unpause(rng) for _ in range(ctx.n(120, 2500))]
    streams["cross-run"] = [gen_cross_run(rng) for _ in range(ctx.n(150, 3000))]
    streams["restart-while-paused"] = [gen_restart_paused(rng) for _ in range(ctx.n(80, 1500))]
    streams["histories"] = [gen_history(rng, rng.randrange(6, ctx.n(13, 31))) for _ in range(ctx.n(300, 10000))]
    streams["sessions"] = [R.gen_session(rng, rng.randrange(6, 31), malformed=(i % 3 == 0), errors=True)
                           for i in range(ctx.n(120, 3000))]
    return streams


def run(ctx: Check) -> int:
    from harness import runstate as R
    ctx.prove(MODULE, REQUIRED)
    pr = R.probe()
    cfg = dict(pr, prev=True)
    ctx.extra["tree_variant"] = pr
    runner = R.Runner("c09", cfg)
    corpus = [c for c in load_corpus("C09")] or [WITNESS]
    streams = {"corpus": corpus}
    streams.update(gen_cases(ctx))
    ctx.rule = ("exhaustive: all sequences <=4/5 over {Start, Stop, Pause, Unpause, Restart, tick, error pause, "
                "output change} after Start, tick, output change, and <=3/4 inside a pause in effect; early-unpause: "
                "templates (timed method Pause ended early by the user and its timer running out later, `Unpause` "
                "instruction after an earlier pause cycle, errors while paused, second cycle) with output changes at "
                "every stage; cross-run: templated two-run histories (first run ends "
                "by Stop/Restart with or without a pause in effect, second run has an error pause / a method Unpause "
                "/ a normal pause) with random fillers; restart-while-paused: a storing pause (user Pause, double "
                "Pause, error) still in effect when the run is ended by Restart or Stop+Start, then output changes "
                "in the new run and the restarted method's `Unpause` instruction / an error pause + Unpause; "
                "histories: adaptive sequences of runs / pauses "
                "(user and method, timed and not) / unpauses / stops / restarts / error pauses with output changes "
                "between and during pauses, length <=12/30; sessions: the general M1 generator incl. malformed "
                "input. Non-trivial = an Unpause applied stored values (prev became none while outputs changed) "
                "or a Pause captured values.")
    all_mout, all_cases = [], []
    for name, cases in streams.items():
        _, mout = ctx.correspond(name, "RunState", cases, runner.lines, runner.impl,
                                 nontrivial=lambda c, o: any("prev=" in ln and "prev=none" not in ln for ln in o))
        for c in cases:
            recs = runner.recs(c)
            for f in oracle(c, recs):
                ctx.fail(f)
            runs = len({r["run_id"] for r in recs if r["run_id"]})
            ctx.count(f"runs:{min(runs, 3)}{'+' if runs > 3 else ''}")
            ctx.count("onsets", sum(1 for a, b in zip(recs, recs[1:]) if not a["paused"] and b["paused"]))
            ctx.count("releases", sum(1 for a, b in zip(recs, recs[1:]) if a["paused"] and not b["paused"]))
            ctx.count("error-ops", sum(1 for r in recs if r["op"][0] == "errapi"))
        all_mout += mout
        all_cases += cases
    if all_mout and len(all_mout) == len(all_cases):
        def mutant(c):
            ls = list(runner.lines(c))
            ls[0] = R.cfg_line(dict(cfg, prev=False), "c09")
            return ls
        n = len(streams["corpus"]) + len(streams["exhaustive"])
        ctx.selftest("exhaustive", "RunState", all_cases[:n], mutant, all_mout[:n])
    ctx.exhaustive = True
    ctx.extra["exhaustive_scope"] = "stream 'exhaustive' only; 'histories' and 'sessions' are sampled"
    ctx.assumptions = ["output tags are integers on three write registers (two with a safe value, one without)",
                       "the effect of UOD commands on outputs is represented by `set` operations between ticks",
                       "uuid4 run ids are canonicalised to allocation ordinals"]
    return ctx.finish(search=search)


def search(ctx: Check) -> None:
    from harness import runstate as R
    for c in [WITNESS] + [gen_history(ctx.rng, 30) for _ in range(ctx.n(300, 3000))]:
        _, _, recs = R.execute(c, "c09", dict(prev=True))
        for f in oracle(c, recs):
            ctx.fail(f)
        if ctx.failures:
            return


def replay(obj) -> int:
    from harness import runstate as R
    case = obj.get("case") or (obj.get("disagreements") or [{}])[0].get("case")
    if not case or "ops" not in case:
        print(json.dumps(obj, indent=1)[:2000])
        return 0
    pr = R.probe()
    cfg = dict(pr, prev=True)
    lines, outs, recs = R.execute(case, "c09", cfg)
    mout = drive("RunState", [lines])[0]
    for ln, a, b in zip(lines, outs, mout):
        print(ln.replace("\t", " "))
        print("   impl :", a)
        print("   model:", b, "" if a == b else "   <-- differs")
    fs = oracle(case, recs)
    for f in fs:
        print("ORACLE:", f.key, "-", f.detail)
    if not fs:
        print("ORACLE: no violation of C09 on this case")
    return 1 if fs else 0
