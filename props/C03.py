"""C03 Thresholds and Wait durations are honoured.

Proof half: OPM.Properties.C03 — over the interpreter model (frame-stack machine of pinterpreter.py), for
every method and every schedule: `started` flips only at the node's threshold point with
`_is_awaiting_threshold` false (micro-step, tick and event form); the threshold point passes in the very
tick in which the clock has reached T; the Wait loop holds exactly while `tick_time < start + d - 0.1`;
the window [d, d+Δ] for the default interval Δ = 0.1 s.
Tie half: correspondence of the real PInterpreter with OPM.Model.Interp on generated threshold / Base /
Wait heavy methods (1/8 s ticks with arbitrary clock inputs; 0.1 s ticks; malformed methods).
Oracle: the property stated over the real Engine (Scope Time / Block Time / Block / Base tags as the
engine shows them, node `started` flags per tick, pauses and holds between ticks).
"""
from __future__ import annotations

import random
from fractions import Fraction

from vp.core import Check, Failure, load_corpus

META = dict(
    level_text="Lean 4 theorems over the interpreter model (frame-stack machine of pinterpreter.py), for ALL methods and ALL "
               "states. Clause 1 (never before T): in any micro-step of any generator `started` flips only at the line's own "
               "threshold point and only if it is completed, has no threshold, is forced, or T x base-factor <= Block clock "
               "(Block tag set) / Scope clock (otherwise) — lifted to whole ticks (threshold_honoured_tick, event form). "
               "Clause 2 (no later than the first tick with the clock at T and the predecessor done), over runs with an "
               "arbitrary environment between resumptions: from the step in which a line is ENTERED (record created; by "
               "C02 exactly when the previous line's visit returned) the same micro-run reaches its threshold point, every "
               "resumption with the threshold awaited changes nothing, the first resumption with it not awaited starts the "
               "line (entered_line_starts_at_first_eligible_run, threshold_run; main visitor over ticks: "
               "main_threshold_ticks; successor_started_same_tick for the step from a returning line to the next). Clause 3 "
               "(Wait) on the frame machine: wait_run — a Wait entered at tick time T0 waits through every resumption with "
               "tick time < T0+d-0.1, completes in the first resumption k whose tick time has reached it, and the next "
               "line is started in resumption k+1 (k is characterised, not assumed; any method, any environment that does "
               "not force/reset the Wait); wait_run_window / _default_interval turn the tick times of that run into the "
               "window: start of the next line within [d-eps, d+0.1+2eps) of the tick the Wait began waiting, for ticks of "
               "0.1 s up to eps (float rounding, jitter); Pause/Hold remove resumptions while the tick time runs on (lower "
               "bound unaffected). Also: Wait completes only in its loop frame with the deadline reached (all methods, "
               "reachable states); reachable-state lower bound for methods without Alarm/Call macro. Tied to the real "
               "PInterpreter by differential execution, incl. 0.1 s ticks with on-grid durations compared exactly as the "
               "code's doubles compare them; checked on the real Engine by an independent oracle.",
    level_note="Trusted: Lean kernel, the correspondence harness, the model's inputs. The clocks are inputs of the model (what "
               "the Scope/Block Time or accumulator tags show when the interpreter runs; their own behaviour is C07/engine "
               "level): the volume/CV accumulators exist on the engine oracle (UOD with totalizer + column volume, Base "
               "L/mL/CV) and in the 0.1 s correspondence stream (accumulator-unit tags fed with the clock values), not as "
               "separate model state. Floats: the model compares exactly; the 0.1 s stream feeds it the exact rationals of "
               "the float tick times and, as the Wait parameter, the net double duration (start+float(d))-0.1-start (checked "
               "to be independent of the start time, else the tie is declared broken) + 1/10, so model and code agree tick "
               "for tick also for on-grid durations; the run theorem carries an explicit timing error eps. FINDINGS "
               "(findings.d/C03.json, reproduced every run, fix diffs proposed): (1) a thresholded UOD command in an Alarm "
               "body starts at once from the 2nd invocation (stale completion sets `completed`; C03_threshold_full refuted by "
               "C03_threshold_counterexample, proved instead C03_threshold_partial / threshold_honoured_tick with the "
               "explicit `completed` escape); (2) with Base L/mL/CV the first line of a Block is judged on the enclosing "
               "scope's accumulator (Block Volume/CV tag refreshed only after the interpreter ran) — engine level, outside "
               "the model. ORACLE CLOCKS: for s/min/h the engine oracle judges against its OWN ledger of the scope and block "
               "clocks (per scope activation / started block the sum of the tick increments of the ticks in which the System "
               "State tag showed Running and no Pause/Hold issued by the oracle was in force; emptied at every run start), "
               "not against the engine's timers; a clock tag that differs from the ledger at judgement time is reported as "
               "scope-clock-differs-from-elapsed-running-time. Two findings of that kind are recorded (Scope Time stuck at "
               "0: stale scope entries kept over Stop/Restart, fix diff proposed; a scope activated twice in an alarm "
               "nest). Volume/CV thresholds are judged against the accumulator tags. "
               "RECORDED INTERPRETATIONS: 'starts' = `started` flag; 'the Wait started' = the tick it began "
               "waiting (wait_start_time, run-log state Started, what the repo's tests measure) — from the Wait's own "
               "`started` flag one tick earlier the window fails unless d is on the grid "
               "(C03_wait_window_from_own_start_counterexample; a reviewer of the property should decide that reading); "
               "clause 2 is read as 'conditions true when the interpreter runs in tick k => started in tick k' (a line is "
               "entered one tick after its predecessor completed, every body ends with EndTick); `Wait: d` with d < 0.1 s "
               "is skipped by the code (0 ticks accepted; never completes: C02/C15). 'Inside a block' is the Block tag at "
               "the moment of evaluation; the oracle additionally requires the block clock for lines lexically inside a "
               "Block. NOT PROVED: the link from the `completed` FLAG of the predecessor to the stack shape of clause 2 for "
               "arbitrary methods (C02 proves the entering order for sequential methods); the Wait lower bound over "
               "reachable states for methods with Alarm/Call macro (C03_wait_lower_bound_all_methods kept visible).",
    technique="Lean 4 proof (guard lemmas over all micro-step branches, run theorems with adversarial environment, inductive "
              "invariants through runGen/tick/Reachable) + differential correspondence (float-faithful at 0.1 s) + engine oracle",
)
MODULE = "OPM.Properties.C03"
REQUIRED = [
    "OPM.C03.awaiting_false_iff", "OPM.C03.start_flag_guard_step", "OPM.C03.start_event_guard_step",
    "OPM.C03.clocks_constant_in_tick", "OPM.C03.threshold_honoured_tick", "OPM.C03.threshold_honoured_tick_event",
    "OPM.C03.threshold_point_passes", "OPM.C03.threshold_point_waits", "OPM.C03.runGen_prompt",
    "OPM.C03.main_prompt_tick", "OPM.C03.main_waits_tick", "OPM.C03.successor_started_same_tick",
    "OPM.C03.wait_enter", "OPM.C03.wait_holds", "OPM.C03.wait_releases", "OPM.C03.wait_completion_guard_step",
    "OPM.C03.reachable_ok", "OPM.C03.reachable_wait_inv", "OPM.C03.wait_lower_bound_noReset",
    "OPM.C03.wait_window", "OPM.C03.wait_window_default_interval",
    "OPM.C03.C03_wait_window_any_interval_counterexample",
    "OPM.C03.C03_threshold_partial", "OPM.C03.C03_threshold_counterexample",
    "OPM.C03.C03_wait_window_from_own_start_counterexample", "OPM.C03.wait_window_from_own_start_on_grid",
    "OPM.C03.threshold_run", "OPM.C03.entered_line_starts_at_first_eligible_run", "OPM.C03.main_threshold_ticks",
    "OPM.C03.wait_loop_run", "OPM.C03.wait_successor_started", "OPM.C03.wait_run", "OPM.C03.wait_run_window",
    "OPM.C03.wait_run_window_default_interval",
]
FEATURES = {"mark", "block", "watch", "alarm", "macro", "wait", "cmd", "thr", "base", "blank"}


# ----------------------------------------------------------------------------------------
# correspondence

def _stream(ctx: Check, stream: str, cases: list[dict], runner, mutant):
    cache: dict[int, tuple[list[str], list[str]]] = {}

    def both(c):
        if id(c) not in cache:
            try:
                cache[id(c)] = runner(c)
            except Exception as e:  # the harness could not drive the implementation on this input
                cache[id(c)] = ([], [f"harness-exception:{type(e).__name__}:{e}"])
        return cache[id(c)]

    def thr_nodes(c) -> set[int]:
        out = set()
        for ln in both(c)[0]:
            f = ln.split("\t")
            if f[0] == "node" and f[4] != "-":
                out.add(int(f[1]))
        return out

    def nontrivial(c, out):
        # some instruction with a threshold was seen not started in one tick and started in a later one,
        # or a Wait was seen started-and-not-completed and later completed
        tn = thr_nodes(c)
        waits = {int(ln.split("\t")[1]) for ln in both(c)[0] if ln.startswith("node\t") and ln.split("\t")[3].startswith("wait ")}
        seen_waiting: set[int] = set()
        for o in out:
            if "|fl=" not in o:
                continue
            fl = o.split("|fl=")[1].split(" ")
            for k in tn | waits:
                if k >= len(fl):
                    continue
                started, completed = fl[k][0] == "1", fl[k][1] == "1"
                if k in tn:
                    if not started:
                        seen_waiting.add(k)
                    elif k in seen_waiting:
                        return True
                if k in waits:
                    if started and not completed:
                        seen_waiting.add(-k - 1)
                    elif completed and (-k - 1) in seen_waiting:
                        return True
        return False

    impl_out, model_out = ctx.correspond(stream, "Interp", cases, lambda c: both(c)[0], lambda c: both(c)[1],
                                         nontrivial=nontrivial, impl_timeout=60)
    for c, o in zip(cases, impl_out):
        ctx.count(stream + ":ticks", sum(1 for x in o if x.startswith("err=")))
        if any(x.startswith("err=1") for x in o):
            ctx.count(stream + ":runs_with_interpreter_error")
        if nontrivial(c, o):
            ctx.count(stream + ":runs_with_awaited_threshold_or_wait_completed")
    if model_out:
        ctx.selftest(stream, "Interp", cases, lambda c: mutant(both(c)[0]), model_out)
    return impl_out, model_out


def gen_corr_cases(ctx: Check, n: int, denom: int) -> list[dict]:
    from harness.c03 import WAITS_ANY, WAITS_TENTHS, gen_clock_schedule, gen_method
    rng = ctx.rng
    cases = []
    for _ in range(n):
        feats = set(FEATURES)
        if rng.random() < 0.5:
            feats -= {"macro"}
        if rng.random() < 0.5:
            feats -= {"alarm"}
        pcode, stats = gen_method(rng, feats, max_lines=rng.choice([8, 12, 14]), max_depth=rng.choice([2, 3]),
                                  waits=WAITS_TENTHS if denom == 10 else WAITS_ANY,
                                  bases=["s", "s", "min", "h", "L", "mL", "CV"] if denom == 10 else None)
        for k, v in stats.items():
            ctx.count("instr:" + k, v)
        cases.append({"pcode": pcode, "ops": gen_clock_schedule(rng, rng.randrange(15, 50), denom=denom)})
    return cases


# ----------------------------------------------------------------------------------------
# oracle

HAND_CASES = [
    # (method, dt, ticks, [(tick, user command)])
    ("Base: s\nMark: a\n1.5 Mark: b\nWait: 0.5s\nMark: c", "0.1", 60, []),
    ("Base: s\nMark: a\n1.5 Mark: b\nWait: 0.25s\nMark: c", "0.1", 60, [(8, "Pause"), (20, "Unpause")]),
    ("Base: s\nWait: 1.25s\nMark: c", "0.1", 60, [(6, "Hold"), (30, "Unhold")]),
    ("Base: s\nWait: 0.0625s\nMark: c\nWait: 0.1s\nMark: d", "0.1", 30, []),
    ("Base: min\n0.015625 Mark: a\nBase: h\n0.00048828125 Mark: b\nBase: s\n3 Mark: c", "0.125", 60, []),
    ("Base: s\nBlock: B\n    0.5 Mark: a\n    1 Mark: b\n    End block\n0.75 Mark: c", "0.125", 60, [(5, "Hold"), (9, "Unhold")]),
    ("Base: s\nWatch: T0 > 0\n    0.5 Mark: w\n    Wait: 0.375s\n    Mark: x\n2 Mark: m", "0.1", 60, []),
    # witness of the recorded finding (findings.d/C03.json): from the second invocation on, `1.5 CmdC` starts 0.2 s
    # into the Alarm body, because the 6-tick command of the previous invocation completes meanwhile
    ("Base: s\nAlarm: T0 > 0\n    1.5 CmdC", "0.1", 60, []),
    # every execution of a Wait waits its full duration: in a Macro called three times, in a re-firing Alarm
    ("Base: s\nMacro: M1\n    Mark: a\n    Wait: 1s\n    Mark: b\nCall macro: M1\nCall macro: M1\nCall macro: M1", "0.1", 90, []),
    ("Base: s\nMacro: M1\n    Wait: 0.75s\n    Mark: b\nCall macro: M1\nMark: m\nCall macro: M1", "0.1", 70, [(30, "Pause"), (36, "Unpause")]),
    ("Base: s\nAlarm: T0 > 0\n    Mark: a\n    Wait: 0.75s\n    Mark: b", "0.1", 90, [(40, "Hold"), (44, "Unhold")]),
    # durations in minutes and hours, also below 0.1 of the unit: 1.2 s, 3.6 s, 3 s, 0.9 s
    ("Base: s\nWait: 0.02min\nMark: a\nWait: 0.001h\nMark: b\nWait: 0.05 min\nMark: c\nWait: 0.00025h\nMark: d", "0.1", 120,
     [(30, "Pause"), (36, "Unpause")]),
    # a second run of the method after Stop + Start / after Restart: every scope and block clock starts at 0 again
    ("Base: s\nMark: A\n3 Mark: B\nBlock: X\n    1 Mark: C\n    End block\nMark: D", "0.1", 120, [(30, "Stop"), (34, "Start")]),
    ("Base: s\nMark: A\n2 Mark: B\nWatch: T0 > 0\n    1 Mark: w\n3 Mark: D", "0.1", 120, [(40, "Restart")]),
    # overlapping Hold and Pause: the clocks stand still until both are released
    ("Base: s\nMark: A\n3 Mark: B\nBlock: X\n    1.5 Mark: C\n    End block", "0.1", 90,
     [(10, "Hold"), (12, "Pause"), (18, "Unpause"), (26, "Unhold"), (45, "Pause"), (47, "Hold"), (52, "Unhold"), (60, "Unpause")]),
    # volume / column-volume base units (totalizer 0.25 L per tick, column volume 2 L): outside and inside blocks
    ("Base: L\n1 Mark: a\nBlock: B\n    Mark: p\n    0.75 Mark: x\n    End block\n0.5 Mark: y\nBase: mL\n6000 Mark: w", "0.1", 60, []),
    ("Base: CV\n0.5 Mark: a\nBlock: C\n    Mark: p\n    0.5 Mark: z\n    Watch: T0 > 0\n        0.25 Mark: w\n    1.5 End block\n2 Mark: e", "0.1", 80,
     [(20, "Pause"), (26, "Unpause")]),
    # witness of the second recorded finding: the FIRST line of a block that starts when 1 CV has already been
    # accumulated starts at once, although the block's own accumulator is 0
    ("Base: CV\n1 Mark: a\nBlock: C\n    1 Mark: z\n    End block", "0.1", 40, []),
]


def hand_cases() -> list[dict]:
    out = []
    for pcode, dt, ticks, users in HAND_CASES:
        plan: list[list] = [[] for _ in range(ticks)]
        for t, cmd in users:
            plan[t].append(["user", cmd])
        if "T0" in pcode:
            plan[0 if "Alarm" in pcode else 10].append(["tag", "T0", 1])
        for t in range(ticks):
            plan[t].append(["tag", "Totalizer", 0.25 * (t + 1)])
        out.append({"pcode": pcode, "dt": dt, "ticks": ticks, "plan": plan})
    return out


def gen_oracle_cases(ctx: Check, n: int) -> list[dict]:
    from harness.c03 import gen_oracle_case
    return [gen_oracle_case(ctx.rng, default_interval=(i % 3 != 2)) for i in range(n)]


def run_oracle(ctx: Check, cases: list[dict]) -> None:
    from harness.c03 import oracle_case
    stats: dict[str, int] = {}
    ctx.monitor(cases, lambda c: oracle_case(c, stats), impl_timeout=60)
    for k, v in stats.items():
        ctx.count("oracle:" + k, v)
    for c in cases:
        ctx.count("oracle:cases_dt_" + c["dt"])
        if any(a[0] == "user" for acts in c["plan"] for a in acts):
            ctx.count("oracle:cases_with_pause_or_hold")
        for k, v in (c.get("stats") or {}).items():
            if k.startswith("rerun_") or k in ("stop_start", "restart", "overlapping_hold_pause", "volume_method"):
                ctx.count("oracle:cases_" + k, v)


def run(ctx: Check) -> int:
    from harness.c03 import perturb_clocks, perturb_time, run_case_tenths
    from harness.interp_corr import m3_stream
    from harness.interp_run import run_case
    ctx.prove(MODULE, REQUIRED)
    ctx.rule = ("Correspondence, three streams on the real PInterpreter vs OPM.Model.Interp: (a) methods generated from the "
                "P-code grammar with a threshold on ~40% of the lines (values reachable in the current base unit), Base "
                "changes s/min/h, Waits 0.0625-1.5 s, blocks, watches, alarms, macros, UOD commands; schedules of 15-50 "
                "ticks of 1/8 s or 1/4 s with generated Scope/Block clock inputs (regular steps, stalls, jumps, block-clock "
                "restarts), condition tags, command completions and force requests; (b) the same with the default 0.1 s "
                "interval, float-faithful (Wait durations on and off the 0.1 s grid; Base units s/min/h/L/mL/CV); (c) the shared malformed-method stream. "
                "Non-trivial = a threshold instruction observed waiting and later started, or a Wait observed waiting and "
                "later completed. Self-tests: clocks shifted by 1/8 s (a), tick times doubled (b) must change the model's "
                "answers. Oracle: generated + hand-written methods on the real Engine, 60-120 ticks of 0.1 s (2/3) or "
                "0.125 s (1/3), random Pause/Hold periods and condition-tag changes between ticks; 30% of the 0.1 s cases "
                "put a Wait into a Macro called 2-3 times or into the body of an Alarm that keeps firing, and the Wait "
                "window is judged per execution of the Wait, from one origin (the tick it began waiting): [d, d+0.1]; 25% of "
                "the cases use volume / CV base units on a UOD with totalizer, column volume and the accumulator tags. In "
                "ticks in which scope/block stacks, Block tag or Base change, a start is judged against the clocks that "
                "were current at some moment of that tick, restricted by the line's lexical block / Watch scope. Run control in "
                "the plans: Pause / Hold periods (also overlapping), Stop + Start and Restart with a second run of the method; "
                "time-unit clocks come from the oracle's own ledger of elapsed Running time per scope / block.")
    corpus = [c for c in load_corpus("C03") if "pcode" in c and "plan" in c]
    run_oracle(ctx, corpus + hand_cases())
    a = gen_corr_cases(ctx, ctx.n(120, 2500), 8)
    _stream(ctx, "interp-m3-thresholds", a, run_case, lambda ls: perturb_clocks(ls, Fraction(1, 8)))
    b = gen_corr_cases(ctx, ctx.n(60, 1500), 10)
    _stream(ctx, "interp-m3-default-interval", b, run_case_tenths, lambda ls: perturb_time(ls, 2))
    m3_stream(ctx, "interp-m3-malformed", ctx.n(25, 600), malformed=True)
    run_oracle(ctx, gen_oracle_cases(ctx, ctx.n(400, 6000)))
    ctx.exhaustive = False
    ctx.assumptions = ["clock tags, condition tags and command completion are inputs of the interpreter model",
                       "thresholds / clocks are exactly representable decimals (dyadic or 0.1-grid values)",
                       "oracle: 'inside a block' = Block tag non-empty at the moment the engine evaluates the threshold",
                       "oracle: Wait window measured in ticks of 0.1 s from the tick the Wait began waiting; the Wait reads the "
                       "engine tick time, which runs on during Pause/Hold; ticks in which the interpreter does not run do not "
                       "count towards 'no later than'"]
    return ctx.finish(search=lambda c: run_oracle(c, gen_oracle_cases(c, c.n(600, 6000))))


def replay(obj) -> int:
    from harness.c03 import oracle_case
    c = obj.get("case", {})
    if "pcode" in c and "plan" in c:
        st: dict = {}
        f = oracle_case(c, st)
        print(c["pcode"])
        print("judged:", st)
        print("oracle:", f)
        return 1 if f else 0
    if "pcode" in c and "ops" in c:
        from harness.interp_run import run_case
        from vp.core import drive
        lines, outs = run_case(c)
        mo = drive("Interp", [lines])[0]
        for i, (x, y) in enumerate(zip(outs, mo)):
            if x != y:
                print(f"line {i}: {lines[i]}\n impl : {x}\n model: {y}")
                return 1
        print("impl and model agree")
        return 0
    print(obj)
    return 0
