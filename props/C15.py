"""C15 Run log is always producible and well-formed.

Proof half: OPM.Properties.C15 — `getRunlog` (model of RuntimeInfo.get_runlog) is total on every well-formed
record list and, whenever it returns, its items are sorted by start, have distinct ids, end >= start, concluded
items have an end and are neither cancellable nor forcible, Completed states of shown records have Completed
items; well-formedness + disjoint instance ids are an invariant of the (repaired) tracking API for every op
sequence with a monotone clock; the unrepaired `_add_state` is refuted by a kernel-evaluated witness.

Tie half:
  * stream `tracking-engine`: the real Engine is driven through generated methods and schedules (ticks, Cancel /
    Force by run-log item id — offered, arbitrary and already concluded items —, Pause/Hold/Stop/Restart, tag
    changes for Watch/Alarm conditions, injections, live edits); every outermost call of the tracking API is
    logged as an op for the model (`step`), and after every tick the records of the real RuntimeInfo and the real
    run log are compared with the model's records and `getRunlog` of them;
  * stream `records-engine`: the record lists of the same runs, loaded as data (no tracking model involved);
  * stream `records-synthetic`: random record lists, well-formed and deliberately not (disorder, states after
    conclusive ones, shared instance ids), built directly from RuntimeRecord objects, so that the raises correspond.
Oracle (independent of the model): the clauses of the property on what `Tracking.get_runlog()` returned after every
tick; last clause per invocation: every write `node.completed = True` of the real code is observed (harness hook) and THE
run-log item of the invocation in progress must be Completed at that tick's time, invocations must not share ids.
Methods with repeated invocations of command nodes (macro called 2-4 times, re-firing Alarm) are 30 % of the cases.
"""
from __future__ import annotations

import json

from vp.core import Check, Failure, load_corpus

META = dict(
    level_text="Lean 4 theorems: the model of RuntimeInfo.get_runlog never raises on a record list whose shown "
               "invocations are time/tick ordered and have no state after a conclusive one; whenever it returns, items "
               "are sorted by start, ids are distinct (instance ids not shared between records), end >= start, "
               "completed/failed/cancelled items have an end and are neither cancellable nor forcible, and every "
               "Completed state of a shown record has a Completed item with its instance id and time. These "
               "well-formedness conditions are proved to be an invariant of the model of the Tracking API "
               "(tracking.py + RuntimeRecord._add_state with the proposed repair, node/instance maps included) for "
               "every sequence of calls under a non-decreasing engine clock (induction over the op list); the "
               "unrepaired code is refuted by a kernel-evaluated witness (C15_asis_counterexample). The models are "
               "tied to the code by differential execution: the tracking calls of real engine runs are replayed on the "
               "model and records + run log are compared after every tick; plus random well-formed and malformed "
               "record lists against get_runlog (raise kinds included).",
    level_note="Models the code with the committed repair d8c530da (RuntimeRecord._add_state refuses states for a "
               "concluded invocation); C15_asis_counterexample keeps the unrepaired behaviour refuted. The theorems of "
               "part B are per RuntimeInfo: Stop, Restart and an accepted live edit install a FRESH RuntimeInfo "
               "(MethodManager._create_interpreter; in the op stream an `init` op) so every run-log-producing state is "
               "reachable from TS.init by the modelled ops; RuntimeInfo.with_edited_program / RuntimeRecord.with_edited_node "
               "(a clone of the records for an edited program) have no caller in the engine and are not modelled - the check "
               "scans the source for callers on every run and breaks the tie if one appears. Rec.visible also excludes "
               "ProgramNode, InjectedNode wrappers, NullNode (user requests) and records without a name (none of them is a "
               "method instruction that completes). The link from node.completed to a Completed state (callers of the "
               "tracking API: interpreter, command manager) is not proved; it is covered by an oracle that is complete for the "
               "generated executions: a harness hook observes EVERY write node.completed = True of the real code (also those "
               "reset within the same tick) together with the invocation in progress, and demands THE item of that invocation "
               "(by instance id) to be Completed with that tick's time, and distinct instance ids for distinct invocations. "
               "Known findings (root causes outside the run log, narrow keys by node kind and site): a command cancelled "
               "before it started still runs (C12), a Watch/Alarm body run by two generators (C02 alarm-nest). Not modelled: "
               "tag value snapshots and progress of items. Assumption: engine tick times never decrease. Trusted: Lean kernel, "
               "harness.",
    technique="Lean 4 proof (structural induction over states/records, invariant induction over tracking ops, "
              "mergeSort lemmas) + differential correspondence on engine runs and synthetic record lists + engine oracle",
)
MODULE = "OPM.Properties.C15"
REQUIRED = ["OPM.C15.runlog_producible", "OPM.C15.runlog_producible_iff", "OPM.C15.runlog_sorted", "OPM.C15.runlog_ids_distinct",
            "OPM.C15.runlog_items_wellformed", "OPM.C15.completed_state_has_completed_item",
            "OPM.C15.tracking_invariant_init", "OPM.C15.tracking_invariant_step", "OPM.C15.reachable_good",
            "OPM.C15.C15_run_log", "OPM.C15.mark_completed_records_completed", "OPM.C15.C15_asis_counterexample"]

USER_CMDS = ["Pause", "Unpause", "Hold", "Unhold", "Stop", "Restart", "Start"]


def clone_callers() -> list[str]:
    """Call sites of the record-cloning API (`with_edited_program`, `with_edited_node`) outside runlog.py itself.
    The tracking model has no clone op because the engine installs a fresh RuntimeInfo on every interpreter reset."""
    import ast
    import pathlib
    import openpectus
    root = pathlib.Path(openpectus.__file__).parent
    out = []
    for f in sorted(root.rglob("*.py")):
        rel = f.relative_to(root).as_posix()
        if rel.startswith("test/") or rel == "lang/exec/runlog.py":
            continue
        try:
            tree = ast.parse(f.read_text())
        except SyntaxError:
            continue
        for n in ast.walk(tree):
            if isinstance(n, ast.Attribute) and n.attr in ("with_edited_program", "with_edited_node"):
                out.append(f"{rel}:{n.lineno}")
    return out


def with_flaky(rng, pcode: str, p: float) -> str:
    """Replace some UOD command lines by commands whose exec function raises (first / third iteration)."""
    out = []
    for ln in pcode.split("\n"):
        w = ln.strip().split(" ")[-1]
        if w in ("CmdA", "CmdB", "CmdC") and rng.random() < p:
            ln = ln[:len(ln) - len(w)] + rng.choice(["FlakyA", "FlakyC"])
        out.append(ln)
    return "\n".join(out)


def gen_repeat_method(rng) -> tuple[str, list]:
    """Methods in which command nodes are invoked repeatedly through the real interpreter: a macro with commands
    called 2-4 times, an Alarm whose body (with commands) fires again and again; first schedule entries arm the alarm."""
    cmd = lambda: rng.choice(["CmdA", "CmdA", "CmdB", "CmdC", "CmdLong", "CmdLong", "FlakyC", "CmdNum: 5", "Wait: 0.25s",
                              "Pause: 0.25s"])  # noqa: E731   (CmdLong runs 15 ticks: outlasts an Alarm cycle / a macro call)
    lines: list[str] = []
    pre: list = []
    kind = rng.choice(["macro", "alarm", "both"])
    if kind in ("alarm", "both"):
        tag = rng.choice(["T0", "T1", "T2"])
        lines += [f"Alarm: {tag} > 0"] + ["    " + cmd() for _ in range(rng.randrange(1, 3))] + ["    Mark: al"]
        pre.append(["tag", tag, rng.randrange(1, 4)])
    if kind in ("macro", "both"):
        lines += ["Macro: M"] + ["    " + cmd() for _ in range(rng.randrange(1, 3))] + ["    Mark: in"]
        for k in range(rng.randrange(2, 5)):
            lines.append("Call macro: M")
            if rng.random() < 0.6:
                lines.append(rng.choice([f"Mark: mid{k}", "Wait: 0.5s", "CmdA"]))
    lines.append(rng.choice(["Wait: 6s", "Mark: end", "Wait: 2s"]))
    return "\n".join(lines), pre


def gen_case(rng, thorough: bool) -> dict:
    from harness.gen_pcode import gen_program, gen_snippet, gen_edit_script
    repeat = rng.random() < 0.3
    malformed = (not repeat) and rng.random() < 0.15
    pre: list = []
    if repeat:
        pcode, pre = gen_repeat_method(rng)
    else:
        pcode, stats = gen_program(rng, max_lines=rng.choice([6, 10, 14] + ([24] if thorough else [])),
                                   max_depth=rng.choice([2, 3]), malformed=malformed)
        pcode = with_flaky(rng, pcode, 0.2)
    calm = 0.35 if repeat else 1.0          # repeated-invocation runs get fewer disturbances so that they get far
    sched = []
    for k in range(rng.randrange(35, 65) if repeat else rng.randrange(20, 90 if thorough else 60)):
        ops = list(pre) if k == 0 else []
        x = rng.random() / calm
        if x < 0.10:
            ops.append(["cancel", rng.choice(["any", "offered", "offered", "concluded"]), rng.random()])
        elif x < 0.20:
            ops.append(["force", rng.choice(["any", "offered", "offered", "concluded"]), rng.random()])
        elif x < 0.25:
            ops.append(["user", rng.choice(USER_CMDS)])
        elif x < 0.40:
            ops.append(["tag", rng.choice(["T0", "T1", "T2"]), rng.randrange(0, 4)])
        elif x < 0.44:
            ops.append(["inject", with_flaky(rng, gen_snippet(rng), 0.3)])
        elif x < 0.48:
            ops.append(["edit", gen_edit_script(rng)])
        sched.append(ops)
    return {"pcode": pcode, "schedule": sched, "malformed": malformed, "repeat": repeat}


def records_engine_case(case: dict, every: int) -> tuple[list[str], list[str]]:
    """Second pass over a case without the op log: the record list after every `every`-th tick as data."""
    import harness.runlog_c15 as H
    from harness.engine_run import EngineRun
    from harness.interp_run import apply_edit_script
    lines: list[str] = []
    outs: list[str] = []
    run = H.flaky_engine_run(case["pcode"])
    try:
        rl = None
        for k, ops in enumerate(case["schedule"]):
            for op in ops:
                kind = op[0]
                try:
                    rl = run.engine.tracking.get_runlog()
                except Exception:
                    rl = None
                if kind in ("cancel", "force"):
                    items = rl.items if rl is not None else []
                    if op[1].startswith("name:"):
                        items = [it for it in items if it.name == op[1][5:]]
                    elif op[1] == "offered":
                        items = [it for it in items if (it.cancellable if kind == "cancel" else it.forcible)]
                    elif op[1] == "concluded":
                        items = [it for it in items if str(it.state) in H.CONCLUSIVE]
                    if items:
                        it = items[min(int(op[2] * len(items)), len(items) - 1)]
                        run.cancel(it.id) if kind == "cancel" else run.force(it.id)
                elif kind == "user":
                    run.user(op[1])
                elif kind == "tag":
                    run.set_tag(op[1], op[2])
                elif kind == "inject":
                    run.inject(op[1])
                elif kind == "edit":
                    cur = [(ln.id, ln.content) for ln in run.engine.method_manager._method.lines]
                    new = apply_edit_script(cur, op[1])
                    run.edit(run.Mdl.Method(lines=[run.Mdl.MethodLine(id=i, content=c) for i, c in new], version=0))
            run.tick()
            if (k + 1) % every == 0 or k + 1 == len(case["schedule"]):
                ri = run.engine.tracking.runtimeinfo
                nodes, insts = H.Ords(), H.Ords()
                ls = H.record_lines(ri.records, nodes, insts)
                lines += ls
                outs += ["ok"] * (len(ls) - 1) + [H.runlog_text(ri, insts)[0]]
    finally:
        run.close()
    return lines, outs


def synthetic_case(recs: list[dict]) -> tuple[list[str], list[str]]:
    import harness.runlog_c15 as H
    ri = H.build_runtimeinfo(recs)
    nodes, insts = H.Ords(), H.Ords()
    lines = H.record_lines(ri.records, nodes, insts)
    return lines, ["ok"] * (len(lines) - 1) + [H.runlog_text(ri, insts)[0]]


def run(ctx: Check) -> int:
    ctx.prove(MODULE, REQUIRED)
    import harness.runlog_c15 as H
    callers = clone_callers()
    if callers:
        ctx.proof_broken.append("RuntimeInfo.with_edited_program / with_edited_node now have callers outside runlog.py "
                                f"({callers[:3]}): the record clone of a live edit is not an op of the tracking model")
    rng = ctx.rng
    thorough = ctx.tier == "thorough"
    ctx.rule = ("engine runs: methods from harness.gen_pcode (all features, 15 % malformed; 20 % of the UOD command lines "
                "and 30 % of those in injected snippets replaced by FlakyA / FlakyC whose exec function raises in its "
                "first / third iteration => Cancelled (clean-up) then Failed for the same instance) x schedules of 20-60/90 "
                "ticks with Cancel/Force on run-log item ids (offered / any / already concluded), user commands, tag "
                "changes, injections, live edits; corpus witnesses first. Non-trivial = the run log reached >= 2 "
                "concluded items or a Cancel/Force request was accepted. Synthetic: 0-5 records x 0-3 instance ids x "
                "0-8 states, half well-formed, half arbitrary (disorder, states after conclusive ones, shared ids); "
                "non-trivial = at least two states.")

    # ---- engine runs: tracking ops + per-tick dumps, oracle on the real run log
    cases = [dict(c) for c in load_corpus("C15")] + [gen_case(rng, thorough) for _ in range(ctx.n(30, 2000))]
    results: dict[int, dict] = {}
    for k, c in enumerate(cases):
        c["_k"] = k
        results[k] = H.run_case(c)
    impl_out, model_out = ctx.correspond(
        "tracking-engine", "RunLog", cases, lambda c: results[c["_k"]]["lines"], lambda c: results[c["_k"]]["outs"],
        nontrivial=lambda c, o: results[c["_k"]]["stats"]["conclusive_items"] >= 2
        or results[c["_k"]]["stats"]["cancel_ok"] + results[c["_k"]]["stats"]["force_ok"] > 0, impl_timeout=120)
    if model_out:
        # mutant: the unrepaired _add_state (guard off) must be told apart by the generated schedules
        ctx.selftest("tracking-engine", "RunLog", cases,
                     lambda c: [ln.replace("init\t1\t1", "init\t1\t0").replace("init\t0\t1", "init\t0\t0")
                                for ln in results[c["_k"]]["lines"]], model_out)
    for k, c in enumerate(cases):
        r = results[k]
        for key, v in r["stats"].items():
            ctx.count("run:" + key, v)
        for key, v in r["counts"].items():
            ctx.count("op:" + key, v)
        ctx.count("cases:malformed" if c.get("malformed") else
                  ("cases:repeated-invocations" if c.get("repeat") else "cases:wellformed-method"))
        for key, detail, tick in r["fails"]:
            case = {kk: vv for kk, vv in c.items() if not kk.startswith("_")}
            ctx.fail(Failure(key, case, f"after tick {tick}: {detail}"))
    ctx.evaluations += sum(r["stats"]["runlogs"] for r in results.values())

    # ---- record lists of engine runs as data
    every = ctx.n(6, 1)
    sub = cases[:ctx.n(12, 300)]
    rec_cache: dict[int, tuple[list[str], list[str]]] = {}
    for c in sub:
        rec_cache[c["_k"]] = records_engine_case(c, every)
    ctx.correspond("records-engine", "RunLog", sub, lambda c: rec_cache[c["_k"]][0], lambda c: rec_cache[c["_k"]][1],
                   nontrivial=lambda c, o: len(o) > 10, impl_timeout=120)

    # ---- synthetic record lists
    syn = [{"recs": H.gen_records(rng, wf=(i % 2 == 0)), "wf": i % 2 == 0} for i in range(ctx.n(1000, 40000))]
    syn_cache = [synthetic_case(s["recs"]) for s in syn]
    for i, s in enumerate(syn):
        s["_k"] = i
    so, smo = ctx.correspond("records-synthetic", "RunLog", syn, lambda s: syn_cache[s["_k"]][0],
                             lambda s: syn_cache[s["_k"]][1],
                             nontrivial=lambda s, o: sum(len(r["states"]) for r in s["recs"]) >= 2)
    if smo:
        ctx.selftest("records-synthetic", "RunLog", syn,
                     lambda s: syn_cache[s["_k"]][0][:-1] + ["runlogm"], smo)
    for s, o in zip(syn, so):
        res = o[-1]
        ctx.count("synthetic:" + ("wf" if s["wf"] else "arbitrary") + ":" +
                  (res if res.startswith("err:") else ("empty" if res == "-" else "items")))
        if s["wf"] and res.startswith("err:"):
            # well-formed by construction of the generator: the implementation must not raise
            ctx.fail(Failure("runlog-raises-on-wellformed-records", {"recs": s["recs"]}, res))
    # ---- exhaustive small scope: one shown record, one invocation, every sequence of state names up to length 3/4
    import itertools
    depth = ctx.n(3, 4)
    exh = []
    for n in range(0, depth + 1):
        for seq in itertools.product(H.STATE_NAMES, repeat=n):
            exh.append({"recs": [{"cls": "UodCommandNode", "name": "CmdA", "states": [
                {"i": 0, "n": nm, "t": 10 + j, "k": 1 + j, "l": "CmdA", "f": "1010",
                 "c": {"uodcommandset": "u", "internalenginecommandset": "o"}.get(nm, "n")} for j, nm in enumerate(seq)]}]})
    exh_cache = [synthetic_case(e["recs"]) for e in exh]
    for i, e in enumerate(exh):
        e["_k"] = i
    eo, _ = ctx.correspond("records-exhaustive", "RunLog", exh, lambda e: exh_cache[e["_k"]][0],
                           lambda e: exh_cache[e["_k"]][1], nontrivial=lambda e, o: len(e["recs"][0]["states"]) >= 2)
    for e, o in zip(exh, eo):
        e.pop("_k", None)
        sts = [x["n"] for x in e["recs"][0]["states"]]
        wf = all(x not in H.CONCLUSIVE for x in sts[:-1])
        if wf and o[-1].startswith("err:"):
            ctx.fail(Failure("runlog-raises-on-wellformed-records", e, o[-1]))
    ctx.extra["exhaustive_scopes"] = [f"records-exhaustive: all {len(exh)} state-name sequences of length <= {depth} of one "
                                      "invocation of one shown record (increasing times)"]
    ctx.exhaustive = False
    ctx.assumptions = ["engine tick times never decrease (Tracking.tick is fed by the engine clock)",
                       "uuid4 instance ids are fresh",
                       "tick times in the harness are multiples of 1/8 s (exact floats)"]
    for s in syn:
        s.pop("_k", None)
    for c in cases:
        c.pop("_k", None)

    def search(c: Check) -> None:
        for _ in range(c.n(60, 300)):
            case = gen_case(c.rng, thorough)
            r = H.run_case(case, with_ops=False)
            c.evaluations += r["stats"]["runlogs"]
            for key, detail, tick in r["fails"]:
                c.fail(Failure(key, case, f"after tick {tick}: {detail}"))
    return ctx.finish(search=search)


def replay(obj) -> int:
    import harness.runlog_c15 as H
    from vp import core
    c = obj.get("case", {})
    if "pcode" in c:
        r = H.run_case(c)
        print(json.dumps({k: v for k, v in c.items() if k != "schedule"}, indent=1))
        print("schedule:", json.dumps(c["schedule"]))
        for key, detail, tick in r["fails"]:
            print(f"oracle: {key} after tick {tick}: {detail}")
        try:
            mo = core.drive("RunLog", [r["lines"]])[0]
            k = next((i for i in range(len(mo)) if r["outs"][i] != mo[i]), None)
            if k is None:
                print("model and implementation agree on all", len(mo), "op lines")
            else:
                print(f"first difference at op {k}: {r['lines'][k][:160]}\n  impl : {r['outs'][k][:400]}\n  model: {mo[k][:400]}")
        except core.Infra as e:
            print("model not run:", e)
        return 1 if r["fails"] else 0
    if "recs" in c:
        lines, outs = synthetic_case(c["recs"])
        mo = core.drive("RunLog", [lines])[0]
        print("impl :", outs[-1], "\nmodel:", mo[-1])
        return 1 if outs[-1].startswith("err:") else 0
    print(obj)
    return 0
