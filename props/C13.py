"""C13 Engine ticks never crash; method errors pause the run."""
from __future__ import annotations

from harness.gen_pcode import gen_program, gen_snippet
from harness.interp_corr import m3_stream
from vp.core import Check, Failure

META = dict(
    level_text="Lean 4: (1) a table of EVERY call expression of Engine.tick / read_process_image / write_process_image / "
               "set_error_state / _apply_safe_state (any callee, also inside handlers and loop heads) and the phases of a "
               "tick with their guards and handlers is regenerated from the source on every run; against a total raise "
               "table (default: may raise anything; the calls assumed not to raise are listed one by one) every call that "
               "may raise sits in a try that catches it with a handler ending in set_error_state (`decide`); (2) a model "
               "of the try/except shell of Engine.tick executes that phase table under a fault plan: for every plan that "
               "respects the raise table a tick does not raise (all states); a raising interpreter phase ends the run "
               "paused with Method Status Error; an error while no run is active is only reported (state stays Stopped, "
               "Start accepted); an accepted Stop stops the run within `stopTicks` command phases whatever guarded faults "
               "recur; a merged corrected method clears the error and Unpause resumes; what happens when an unguarded "
               "phase or set_error_state itself raises; (3) over the interpreter model a raising instruction marks its "
               "node failed and stores the error, micro-steps never clear it, an accepted method edit clears it. Tie: "
               "fault injection into the real Engine.tick phase by phase (every callee of the tick patched to raise on "
               "chosen ticks) against the shell model, differential execution of malformed programs on the real "
               "PInterpreter vs the interpreter model; oracle: malformed texts, failing UOD commands, random injections "
               "and control-command schedules on the real engine — no exception may escape Engine.tick, a failing "
               "instruction (interpreter phase or command phase) pauses with status Error and a failed line, also in a "
               "second run after Stop+Start; Stop stops within the model's bound; a corrected method merged while paused "
               "on the error sets Method Status OK and Unpause resumes the run.",
    level_note="PARTIAL: (a) exceptions from calls the raise table lists as non-raising (logging, tag accessors, hardware/UOD "
               "callbacks assumed in-domain, listeners) cannot be exhibited by the theorems — the fault-injection stream "
               "shows they would escape the tick, only the search on the real engine can find inputs that trigger them; "
               "(b) FINDING: a Stop accepted by the engine is lost when a method is saved before the next tick "
               "(C13_counterexample; the Stop theorems hold without an edit in between, C13_partial); (c) 'marked failed "
               "in the method state' for the command phase is oracle-only. Assumes hardware/UOD callbacks return values "
               "in their declared domains.",
    technique="Lean 4 proof over a source-regenerated call/phase table (decide) + shell-model theorems (induction over the "
              "phase list) + fault-injection correspondence + differential correspondence + engine oracle",
)
MODULE = "OPM.Properties.C13"
REQUIRED = ["OPM.C13.calls_accounted", "OPM.C13.guarded_sites_present", "OPM.C13.set_error_state_shape",
            "OPM.C13.table_wf", "OPM.C13.phases_guarded", "OPM.C13.tick_never_raises",
            "OPM.C13.tick_never_raises_guarded", "OPM.C13.unguarded_fault_escapes",
            "OPM.C13.failing_instruction_pauses", "OPM.C13.error_pauses_a_run",
            "OPM.C13.error_without_run_only_reports", "OPM.C13.error_while_no_run",
            "OPM.C13.error_while_no_run_is_reported", "OPM.C13.start_after_idle_error", "OPM.C13.last_error_persists",
            "OPM.C13.stop_accepted_in_error_state", "OPM.C13.stop_completes", "OPM.C13.stop_completes_clean",
            "OPM.C13.stop_completes_whatever_recurs", "OPM.C13.corrected_method_clears_error",
            "OPM.C13.corrected_method_resumes", "OPM.C13.C13_counterexample", "OPM.C13.C13_partial",
            "OPM.C13.raise_marks_failed", "OPM.C13.lastError_persists_stepGen", "OPM.C13.merged_method_clears_error"]

STOP_TICKS = 2     # = OPM.TickShell.stopTicks (theorem stop_completes); cross-checked against the driver on every run

UNICODE_LINES = ["Mark: æøå", "   ", "\tMark: tab", "Mark: a # c", "# only comment", "Watch: T0 > ", "Watch:", "Block:",
                 "End block", "Call macro: x", "Macro:", "Wait: -1s", "Wait: 1 parsec", "5 5 Mark", "1e3 Mark: a",
                 "Simulate: T0 = x", "Simulate off: nosuch", "Base: CV", "Info: hello", "Warning: w", "Error: e",
                 "Pause: 0.5s", "Hold: 0.25s", "Stop", "Restart", "Run counter: -2", "Increment run counter",
                 "Mark: ‮", "Notify", "Simulate: Run Time = abc", "Simulate: Connection Status = abc",
                 "Simulate: Process Time = x", "Simulate: System State = abc", "Simulate: Run Id = 5",
                 "Simulate: Method Status = x", "Simulate: Base = zz", "Simulate: Block = 7", "Simulate: Mark = 7",
                 "Simulate: Clock = abc", "Simulate: Block Time = abc", "Simulate: Scope Time = q", "Simulate: Run Counter = z",
                 "Simulate off: Run Time", "Watch: Run Time > 1", "Watch: Block > 1", "Watch: Connection Status = Connected", "0.5 Watch: T1 = 1", "    Mark: deep", "CmdA: 5", "CmdB", "Unknown thing: 1", "CmdNum: 5",
                 "CmdNum: lots", "CmdNum: lots", "CmdNum", "CmdFail", "CmdFailLater", "Pause: 5x", "Hold: abc",
                 "Info", "Stop: now", "Wait: 0.25s", "Mark: m", "Alarm: T0 = 0", "Alarm: Run Time > 0.2s",
                 "Macro: M", "Call macro: M", "    Frobnicate", "    Run counter: abc"]


USER_UOD = ["CmdFail", "CmdNum", "CmdA"]   # UOD commands the operator issues from the UI (no arguments: CmdNum is rejected)


def uod_extra(b):
    """UOD commands whose exec function fails: a failing instruction that is not an interpretation error."""
    def exec_fail(cmd, **kvargs):
        raise ValueError("exec failed")

    def exec_fail_later(cmd, **kvargs):
        cmd._verif_iter = getattr(cmd, "_verif_iter", 0) + 1
        if cmd._verif_iter >= 3:
            raise RuntimeError("exec failed in its third iteration")
    return b.with_command(name="CmdFail", exec_fn=exec_fail).with_command(name="CmdFailLater", exec_fn=exec_fail_later)


def gen_case(ctx: Check) -> dict:
    rng = ctx.rng
    if rng.random() < 0.5:
        pcode, _ = gen_program(rng, malformed=True, bad_conditions=True, max_lines=12)
    else:
        n = rng.randrange(1, 10)
        pcode = "\n".join(("    " * rng.randrange(0, 3) if rng.random() < 0.3 else "") + rng.choice(UNICODE_LINES)
                          for _ in range(n))
    sched = []
    for t in range(rng.randrange(15, 60)):
        x = rng.random()
        if x < 0.06:
            sched.append(("user", rng.choice(["Pause", "Unpause", "Hold", "Unhold", "Stop", "Start", "Restart"] + USER_UOD)))
        elif x < 0.10:
            sched.append(("inject", rng.choice([gen_snippet(rng), rng.choice(UNICODE_LINES)])))
        elif x < 0.13:
            sched.append(("tag", f"T{rng.randrange(3)}", rng.randrange(4)))
        sched.append(("tick",))
    return {"pcode": pcode, "sched": sched, "end": rng.choice(["stop", "fix", "fix", "restart"])}


SWEEP_METHODS = ["Mark: a\nCmdNum: lots\nMark: b", "CmdNum: lots", "Mark: a\nFrobnicate\nMark: b",
                 "Block: B\n    CmdNum: x\n    End block\nMark: c", "Watch: T0 = 0\n    CmdNum: lots\nMark: a",
                 "CmdB\nCmdNum: lots", "Mark: a\nWait: banana"]
FAILING_METHODS = ["Mark: a\nCmdFail\nMark: b", "Mark: a\nCmdFailLater\nMark: b", "Mark: a\nPause: 5x\nMark: b",
                   "Hold: abc", "Mark: a\nWatch: T0 > \n    Mark: w\nMark: b", "Mark: a\nUnknown thing: 1\nMark: b",
                   "Mark: a\nSimulate: T0 = x\nMark: b", "Mark: a\nWait: 1 parsec", "Info\nMark: b", "Mark: a\nStop: now",
                   "Mark: a\nBase: zz\nMark: b", "Mark: a\nRun counter: x", "Mark: a\nCall macro: nosuch\nMark: b",
                   "Block: B\n    CmdFail\n    End block\nMark: c", "Watch: T0 = 0\n    Hold: 5x\nMark: a",
                   "Mark: a\nWait: banana", "Mark: a\nCmdNum: lots\nMark: b", "Mark: a\nRestart: 5\nMark: b",
                   "Simulate: Clock = abc\nMark: a\nFrobnicate\nMark: b",
                   # failing lines in the body of an Alarm that fires (the Alarm re-arms itself, resetting its subtree, in
                   # the tick its body finishes) and in macros that are called repeatedly
                   "Alarm: Run Time > 0.2s\n    Mark: x\n    Frobnicate\nMark: a\nWait: 5s\nMark: b",
                   "Alarm: Run Time > 0.2s\n    Frobnicate\nMark: a\nMark: b\nMark: c",
                   "Alarm: Run Time > 0.2s\n    Mark: x\n    Run counter: abc\nMark: a\nMark: b\nWait: 5s",
                   "Alarm: Run Time > 0.2s\n    Run counter: abc\n    Mark: y\nWait: 5s",
                   "Alarm: T0 = 0\n    Mark: x\n    Unknown thing: 1\nWait: 5s",
                   "Alarm: Run Time > 0.2s\n    Mark: x\n    Watch: T0 = 0\n        Base: zz\nWait: 5s",
                   "Alarm: Run Time > 0.2s\n    Mark: x\n    CmdFail\nWait: 5s",
                   "Alarm: Run Time > 0.2s\n    Mark: x\n    Pause: 5x\nWait: 5s",
                   "Watch: Run Time > 0.2s\n    Mark: x\n    Frobnicate\nMark: a\nWait: 5s",
                   "Macro: M\n    Mark: x\n    Frobnicate\nCall macro: M\nCall macro: M\nMark: b",
                   "Macro: M\n    Mark: x\nCall macro: M\nCall macro: M\nFrobnicate",
                   "Macro: M\n    Mark: x\n    Wait: 0.25s\nCall macro: M\nCall macro: M\nRun counter: abc\nMark: b"]


def sweep_cases() -> list[dict]:
    """Stop / Pause / Unpause requested at every tick around a failing instruction; every kind of failing
    instruction followed by each of the end games (Stop / corrected method / Stop+Start / Stop lost by an edit)."""
    out = []
    for m in SWEEP_METHODS:
        for cmd in ("Stop", "Pause", "Unpause"):
            for t in range(0, 10):
                sched = [("tick",)] * t + [("user", cmd)] + [("tick",)] * (12 - t)
                if cmd != "Stop":
                    sched += [("user", "Stop")] + [("tick",)] * 5
                out.append({"pcode": m, "sched": sched, "end": "stop"})
    for m in FAILING_METHODS:
        for end in ("stop", "fix", "restart"):
            out.append({"pcode": m, "sched": [("tick",)] * 14, "end": end})
    out.append({"pcode": FAILING_METHODS[0], "sched": [("tick",)] * 8, "end": "stop-then-fix"})
    # a timed Pause of the method ended early by the operator, then a failing instruction around the time the Pause expires
    for dur, marks, t in (("0.5s", 0, 5), ("1s", 1, 7), ("1s", 2, 5), ("1s", 2, 4), ("0.5s", 1, 3)):
        out.append({"pcode": f"Pause: {dur}\n" + "Mark: a\n" * marks + "Frobnicate\nMark: c", "end": "stop",
                    "sched": [("tick",)] * t + [("user", "Unpause")] + [("tick",)] * 12})
    # the operator presses Stop and right after it issues a UOD command that fails (before the same tick / one and
    # two ticks later); a failing operator command while the run executes, then Stop
    for cmd in ("CmdFail", "CmdNum"):
        for gap in (0, 1, 2):
            for t in (2, 5):
                out.append({"pcode": "Mark: a\nWait: 2s\nMark: b", "end": "stop",
                            "sched": [("tick",)] * t + [("user", "Stop")] + [("tick",)] * gap + [("user", cmd)] + [("tick",)] * 8})
        out.append({"pcode": "Mark: a\nWait: 2s\nMark: b", "end": "stop",
                    "sched": [("tick",)] * 3 + [("user", cmd)] + [("tick",)] * 3 + [("user", "Stop")] + [("tick",)] * 6})
    return out


class Instrument:
    """Observational wrappers (they call the original and re-raise): which phase of a tick failed."""

    def __init__(self):
        self.interp_calls = 0
        self.interp_raised: list[str] = []      # this tick
        self.cmd_ok = 0                          # CommandManager.tick calls that returned normally (whole run)
        self.cmd_failed: list[tuple] = []        # this tick: (name, source, node id, node failed after the raise)
        self.set_error_calls = 0
        self.scheduled = 0                       # CommandManager.schedule calls (whole run)
        self._undo = []

    def __enter__(self):
        from openpectus.engine.command_manager import CommandManager
        from openpectus.engine.engine import Engine
        from openpectus.lang.exec.pinterpreter import PInterpreter
        ins = self
        o_it, o_ct, o_ec, o_se = PInterpreter.tick, CommandManager.tick, CommandManager._execute_command, Engine.set_error_state
        o_sc = CommandManager.schedule

        def schedule(self, req):
            ins.scheduled += 1
            return o_sc(self, req)

        def interp_tick(self, *a, **kw):
            ins.interp_calls += 1
            try:
                return o_it(self, *a, **kw)
            except Exception as e:
                ins.interp_raised.append(type(e).__name__)
                raise

        def cmd_tick(self, *a, **kw):
            r = o_ct(self, *a, **kw)
            ins.cmd_ok += 1
            return r

        def exec_command(self, req):
            try:
                return o_ec(self, req)
            except Exception:
                node_id, failed = None, None
                try:
                    rec = self.tracking.runtimeinfo.get_record_by_instance(req.instance_id)
                    if rec is not None:
                        node_id = rec.node_id
                        node = self.tracking.get_known_node_by_id(rec.node_id)
                        failed = None if node is None else bool(node.failed)
                except Exception:
                    pass
                ins.cmd_failed.append((req.name, req.source, node_id, failed))
                raise

        def set_error_state(self, ex):
            ins.set_error_calls += 1
            return o_se(self, ex)
        for cls, name, new, old in [(PInterpreter, "tick", interp_tick, o_it), (CommandManager, "tick", cmd_tick, o_ct),
                                    (CommandManager, "_execute_command", exec_command, o_ec),
                                    (CommandManager, "schedule", schedule, o_sc),
                                    (Engine, "set_error_state", set_error_state, o_se)]:
            setattr(cls, name, new)
            self._undo.append((cls, name, old))
        return self

    def __exit__(self, *exc):
        for cls, name, old in reversed(self._undo):
            setattr(cls, name, old)
        return False

    def new_tick(self):
        self.interp_raised = []
        self.cmd_failed = []


def all_nodes(root) -> list:
    out, todo = [], [root]
    while todo:
        n = todo.pop()
        out.append(n)
        todo.extend(getattr(n, "children", None) or [])
    return out


TIME_TAGS = ("Clock", "Run Time", "Process Time", "Block Time", "Scope Time")   # formatted by format_time_as_clock
CORRECTED = {"WatchNode": "Watch: T0 < -1", "AlarmNode": "Watch: T0 < -1", "BlockNode": "Block: Fixed",
             "MacroNode": "Macro: Fixed"}


def corrected_method(pcode: str, nodes: list[dict]):
    """The method with every failed line replaced by a valid instruction of the same shape (same line ids)."""
    lines = pcode.split("\n")
    for n in nodes:
        if n["failed"] and str(n["id"]).startswith("id_"):
            i = int(str(n["id"])[3:]) - 1
            if 0 <= i < len(lines):
                indent = lines[i][:len(lines[i]) - len(lines[i].lstrip(" \t"))]
                lines[i] = indent + CORRECTED.get(n["cls"], "Mark: fixed")
    return "\n".join(lines)


def oracle(case) -> list[Failure]:
    with Instrument() as ins:
        return _oracle(case, ins)


def _oracle(case, ins: Instrument) -> list[Failure]:
    from harness.engine_run import EngineRun
    from harness import runstate as RS      # run-state flags by role (robust against a rename of the attributes)
    fails: list[Failure] = []
    try:
        run = EngineRun(case["pcode"], uod_extra=uod_extra)
    except Exception:  # the method text was refused when it was set: no run, no tick — nothing C13 speaks about
        return fails
    e = run.engine
    restarting = "Restart" in case["pcode"] or any(o[0] == "user" and o[1] == "Restart" for o in case["sched"]) \
        or any(o[0] == "inject" and "Restart" in o[1] for o in case["sched"])
    injected: list = []
    st = {"prev_failed": set(), "prog": e.interpreter._program, "stop": None, "other_errors": 0, "failed_interps": []}

    def raw(snap, name):
        return snap["raw_tags"].get(name)

    def failed_now() -> set:
        prog = e.interpreter._program
        if st["prog"] is not prog:           # Stop / Start / an edit installed a new program: new node objects
            st["prog"], st["prev_failed"] = prog, set()
            injected.clear()                 # (snippets injected into the previous interpreter are gone with it)
        s = {(id(n), n.id) for n in prog.get_all_nodes() if n.failed}
        for root in injected:
            s |= {(id(n), n.id) for n in all_nodes(root) if n.failed}
        return s

    def bad_time_tags() -> list:
        # (as_readonly() raises TypeError in format_time_as_clock for these: recorded finding, repair proposed)
        return [t.name for t in e._system_tags if t.name in TIME_TAGS and t.simulated
                and not isinstance(t.simulated_value, (int, float))]

    def in_started_macro(nodes: list[dict]) -> bool:
        """a failed line inside a macro: the merge refuses to modify a macro that has started executing"""
        by_id = {n["id"]: n for n in nodes}
        for n in nodes:
            if n["failed"]:
                p = n
                while p is not None:
                    if p["cls"] == "MacroNode":
                        return True
                    p = by_id.get(p["parent"])
        return False

    def idle_and_gated() -> bool:
        cm = e._command_manager
        return (cm.cmd_queue.qsize() == 0 and not cm.cmd_executing and not e.registry.get_running_command_names()
                and (RS.flag(e, 'paused') or RS.flag(e, 'holding') or not RS.flag(e, 'started')))

    def tick() -> dict | None:
        """one tick + everything that is judged in every tick; None when the tick raised"""
        ins.new_tick()
        # the first error of this interpreter (once it has failed it raises again on every tick it gets)
        interp = e.interpreter
        fresh = not any(i is interp for i in st["failed_interps"])
        se0 = ins.set_error_calls
        names0 = list(e.registry.get_running_command_names())
        snap = run.tick()
        if snap["raised"]:
            fails.append(Failure("tick-raised:" + snap["raised"].split(":")[0], case, snap["raised"][:300]))
            return None
        if ins.interp_raised and fresh:
            st["failed_interps"].append(interp)
        prog_before = st["prog"]
        before = st["prev_failed"]
        failed = failed_now()
        new_failed = failed - st["prev_failed"]
        if st["prog"] is prog_before and before - failed:
            # same program, same node objects: an instruction that was marked failed is not any more
            fails.append(Failure("failed-mark-lost", case,
                                 f"lines {sorted(i for _, i in before - failed)} were marked failed and are no longer"))
        st["prev_failed"] = failed
        sysst, ms = raw(snap, "System State"), raw(snap, "Method Status")
        instr_failures = len(ins.interp_raised) + len([c for c in ins.cmd_failed if c[1] != "user"])
        st["other_errors"] += max(0, (ins.set_error_calls - se0) - len(ins.interp_raised) - (1 if ins.cmd_failed else 0))
        # a failing instruction is marked failed …
        if ins.interp_raised and fresh and not new_failed:
            site = ":time-tag-simulated-non-numeric" if bad_time_tags() else ""
            fails.append(Failure("interpreter-error-without-failed-instruction" + site, case,
                                 f"the interpreter phase raised {ins.interp_raised[0]}, no instruction was marked failed"))
        for name, source, node_id, node_failed in ins.cmd_failed:
            if source != "user" and node_failed is False:
                # (Tracking.silently_skip exempts Start/Stop/Restart requests from every mark_*: recorded finding)
                site = ":" + name if name in ("Start", "Stop", "Restart") else ""
                fails.append(Failure("failed-command-not-marked-failed" + site, case,
                                     f"command '{name}' of instruction {node_id} failed in the command phase, its node is not marked failed"))
        # … and pauses the run with Method Status Error
        if (new_failed or instr_failures) and sysst not in ("Stopped", "Restarting"):
            what = f"lines {sorted(i for _, i in new_failed)} failed" if new_failed else "an instruction failed"
            if ms != "Error":
                fails.append(Failure("failed-instruction-without-error-status", case, f"{what}, Method Status = {ms!r}"))
            elif sysst != "Paused" and not RS.flag(e, 'stopping'):
                # (recorded finding: a timed Pause of the method that the operator ended early with Unpause keeps waiting
                #  for its duration; when it expires it unpauses whatever pause is then in effect — here the error pause)
                site = ":timed-pause-expired-in-same-tick" if ("Pause" in names0 and "Pause" not in
                                                               e.registry.get_running_command_names()) else ""
                # (a Stop that started in the same command phase cancels a timed Pause of the method, which unpauses:
                #  the run is stopping, one tick later it is Stopped)
                fails.append(Failure("failed-instruction-did-not-pause" + site, case, f"{what}, System State = {sysst!r}"))
        if new_failed and sysst not in ("Stopped", "Restarting"):
            mstate = e.method_manager.get_method_state()
            ids = {i for _, i in new_failed if str(i).startswith("id_")}
            # (after a live edit the method manager's view is detached: C01 finding, not judged here)
            if e.method_manager.program is e.interpreter._program and not ids <= set(mstate.failed_line_ids):
                fails.append(Failure("failed-instruction-not-in-method-state", case,
                                     f"{sorted(ids)} not in failed_line_ids {mstate.failed_line_ids}"))
        # Stop: the run is stopped after `stopTicks` command phases that run (theorem stop_completes); every other
        # request that was pending when Stop was accepted, or arrived since, can make one command phase fail
        if st["stop"] is not None:
            sp = st["stop"]
            sp["ticks"] += 1
            if not RS.flag(e, 'started'):
                st["stop"] = None
            elif sp["ticks"] >= STOP_TICKS + sp["pending"] + (ins.scheduled - sp["sched0"]):
                fails.append(Failure("stop-did-not-stop", case,
                                     f"run still started {sp['ticks']} ticks after an accepted Stop with {sp['pending']} + "
                                     f"{ins.scheduled - sp['sched0']} other requests pending (System State {sysst!r})"))
                st["stop"] = None
        return snap

    def user(name: str) -> str:
        cm = e._command_manager
        pending = cm.cmd_queue.qsize() + len(cm.cmd_executing)
        r = run.user(name)
        if name in USER_UOD:
            return r             # (counted as a request that arrived since, see the Stop bound in tick())
        st["stop"] = ({"ticks": 0, "pending": pending, "sched0": ins.scheduled}
                      if (name == "Stop" and r == "ok" and not restarting) else None)
        return r

    try:
        for op in case["sched"]:
            if op[0] == "user":
                user(op[1])
            elif op[0] == "inject":
                before = {id(i.node) for i in e.interpreter.interrupts}
                run.inject(op[1])
                injected += [i.node for i in e.interpreter.interrupts
                             if id(i.node) not in before and type(i.node).__name__ == "InjectedNode"]
            elif op[0] == "tag":
                run.set_tag(op[1], op[2])
            elif tick() is None:
                return fails
        # ---- end games: the engine stays responsive to Stop and to a corrected method
        snap = run.snapshot()
        end = case.get("end", "stop")
        in_error_pause = raw(snap, "Method Status") == "Error" and raw(snap, "System State") == "Paused"
        if not in_error_pause or restarting:
            return fails
        prog_failed = [n for n in snap["nodes"] if n["failed"]]
        if end in ("fix", "stop-then-fix") and RS.flag(e, 'started') and e.method_manager.program_is_started and prog_failed \
                and st["other_errors"] == 0 and not RS.flag(e, 'stopping') \
                and e.method_manager.program is e.interpreter._program:
            if end == "stop-then-fix":
                if not idle_and_gated() or run.user("Stop") != "ok":
                    return fails
            try:
                how = e.set_method(run.Mdl.Method.from_pcode(corrected_method(case["pcode"], snap["nodes"])))
            except Exception as ex:
                if type(ex).__name__ == "MethodEditError" and in_started_macro(snap["nodes"]):
                    return fails          # refused with a reason, by design: started macros may not be edited
                site = ":time-tag-simulated-non-numeric" if isinstance(ex, TypeError) and bad_time_tags() else ""
                fails.append(Failure("corrected-method-refused:" + type(ex).__name__ + site, case,
                                     f"saving the method with the failed lines corrected raised: {str(ex)[:200]}"))
                return fails
            if how != "merge_method":
                return fails
            s1 = run.snapshot()
            if raw(s1, "Method Status") != "OK" or e.has_error_state():
                fails.append(Failure("error-not-cleared-by-corrected-method", case,
                                     f"after the merge Method Status = {raw(s1, 'Method Status')!r}, has_error_state = {e.has_error_state()}"))
                return fails
            if end == "stop-then-fix":
                ok0 = ins.cmd_ok
                for _ in range(STOP_TICKS + 2):
                    if tick() is None:
                        return fails
                if RS.flag(e, 'started'):
                    fails.append(Failure("stop-lost:method-saved-before-next-tick", case,
                                         "Stop was accepted, a method was saved before the next tick, the run is still "
                                         f"started after {ins.cmd_ok - ok0} command phases"))
                return fails
            if run.user("Unpause") != "ok":
                fails.append(Failure("unpause-refused-after-corrected-method", case, "Unpause raised"))
                return fails
            holding = RS.flag(e, 'holding')
            calls0 = ins.interp_calls
            s2 = tick()
            if s2 is None:
                return fails
            if RS.flag(e, 'paused') or raw(s2, "System State") != ("Holding" if holding else "Running") \
                    or raw(s2, "Method Status") != "OK":
                fails.append(Failure("run-not-resumed-after-corrected-method", case,
                                     f"after Unpause: paused={RS.flag(e, 'paused')} System State={raw(s2, 'System State')!r} "
                                     f"Method Status={raw(s2, 'Method Status')!r}"))
                return fails
            if not holding:
                if tick() is None:
                    return fails
                if ins.interp_calls == calls0:
                    fails.append(Failure("interpreter-not-resumed-after-corrected-method", case,
                                         "the interpreter phase did not run in the tick after the run was resumed"))
            return fails
        # Stop is accepted in the error state and stops the run
        n_fail, se0 = len(fails), ins.set_error_calls
        if user("Stop") != "ok":
            fails.append(Failure("stop-refused-in-error-state", case, "Stop raised in error state"))
            return fails
        s2 = snap
        while st["stop"] is not None:
            s2 = tick()
            if s2 is None:
                return fails
        if len(fails) > n_fail:
            return fails
        # (theorem stop_completes_clean: nothing failed since ⇒ System State Stopped, Method Status OK)
        if ins.set_error_calls == se0 and (raw(s2, "System State") != "Stopped" or raw(s2, "Method Status") != "OK"):
            fails.append(Failure("stop-did-not-stop-in-error-state", case,
                                 f"System State {raw(s2, 'System State')!r}, Method Status {raw(s2, 'Method Status')!r} "
                                 "after Stop completed"))
            return fails
        if raw(s2, "System State") != "Stopped":
            return fails
        if end == "restart":
            # a second run of the same method: the failing instruction fails again and must pause again
            if run.user("Start") != "ok":
                fails.append(Failure("start-refused-after-stop", case, "Start raised after the run was stopped"))
                return fails
            n = next((k for k, o in enumerate(case["sched"]) if o[0] != "tick"), len(case["sched"]))
            for _ in range(min(n, 12) + 2):
                if tick() is None:
                    return fails
        elif run.edit("Mark: ok\n") != "ok":
            fails.append(Failure("corrected-method-refused", case, "set_method of a valid method raised"))
        return fails
    finally:
        run.close()


# ---------------------------------------------------------------------------------------------
# fault injection into the real Engine.tick vs. the shell model (lean/Driver/TickShell.lean)

FAULT_CMDS = ["Start", "Stop", "Pause", "Unpause", "Hold", "Unhold"]


def gen_fault_case(rng, phases: list[dict]) -> list:
    guarded = [i for i, p in enumerate(phases) if p["catches"]]
    ops: list = []
    if rng.random() < 0.85:
        ops += [["user", "Start"], ["tick", {}, "n"]]
        if rng.random() < 0.8:
            ops.append(["tick", {}, "n"])
    fixed = False
    for _ in range(rng.randrange(6, 28)):
        x = rng.random()
        if x < 0.22:
            ops.append(["user", rng.choice(FAULT_CMDS)])
        elif x < 0.27 and not fixed:
            # (one edit per case: whether a second one merges depends on the run-state transplant, see C01)
            fixed = True
            ops.append(["fix"])
        elif x < 0.28:
            ops.append(["halt"])
        else:
            plan: dict = {}
            if rng.random() < 0.5:
                for _ in range(rng.choice([1, 1, 1, 2, 3])):
                    i = rng.choice(guarded) if rng.random() < 0.75 else rng.randrange(len(phases))
                    kind = "h" if ("HardwareLayerException" in phases[i]["catches"] and rng.random() < 0.8) else rng.choice("ho")
                    plan[str(i)] = kind
            hf = "n" if rng.random() < 0.9 else rng.choice("fl")
            ops.append(["tick", plan, hf])
    return ops


def fault_lines(ops: list) -> list[str]:
    out = []
    for op in ops:
        if op[0] == "tick":
            fs = ",".join(f"{i}:{k}" for i, k in op[1].items()) or "-"
            out.append(f"tick\t{fs}\t{op[2]}")
        elif op[0] == "user":
            out.append(f"user\t{op[1]}")
        else:
            out.append(op[0])
    return out + ["phases", "stopbound"]


def fault_impl(ops: list) -> list[str]:
    from harness.tick_faults import FaultRun
    r = FaultRun()
    try:
        out = []
        for op in ops:
            if op[0] == "tick":
                out.append(r.tick({int(i): k for i, k in op[1].items()}, op[2]))
            elif op[0] == "user":
                out.append(r.user(op[1]))
            elif op[0] == "fix":
                out.append(r.fix())
            else:
                out.append(r.halt())
        return out + [str(len(r.phases)), str(STOP_TICKS)]
    finally:
        r.close()


def fault_stream(ctx: Check, n: int) -> None:
    from harness.translators import tick_table
    phases = tick_table.tables()["phases"]
    fixed_cases = [
        # every phase faulted once with each kind, in a running and in an error-paused run
        [["user", "Start"], ["tick", {}, "n"], ["tick", {}, "n"]] + [["tick", {str(i): k}, "n"], ["tick", {}, "n"]]
        for i in range(len(phases)) for k in "ho"
    ] + [
        [["user", "Start"], ["tick", {}, "n"], ["tick", {}, "n"], ["tick", {str(i): "o"}, hf], ["tick", {}, "n"]]
        for i in range(len(phases)) if phases[i]["catches"] for hf in "fl"
    ]

    def idx(callee: str) -> str | None:
        return next((str(i) for i, p in enumerate(phases) if p["callee"] == callee), None)
    ip, cm, rd, nt, wr = (idx(c) for c in ("self.interpreter.tick", "self._command_manager.tick", "self.uod.hwl.read_batch",
                                           "self.notify_tag_updates", "hwl.write_batch"))
    if None not in (ip, cm, rd, nt, wr):
        up = [["user", "Start"], ["tick", {}, "n"], ["tick", {}, "n"], ["tick", {ip: "o"}, "n"]]    # paused on an error
        fixed_cases += [
            # Stop in the error pause under recurring faults; Stop lost by an edit; corrected method + Unpause
            up + [["user", "Stop"], ["tick", {rd: "h", nt: "o"}, "n"], ["tick", {cm: "o"}, "n"], ["tick", {wr: "h"}, "n"],
                  ["tick", {}, "n"]],
            up + [["user", "Stop"], ["fix"], ["tick", {}, "n"], ["tick", {}, "n"], ["user", "Stop"], ["tick", {}, "n"],
                  ["tick", {}, "n"]],
            up + [["fix"], ["user", "Unpause"], ["tick", {}, "n"], ["tick", {}, "n"]],
        ]
        # an error while no run is active (before the first run; after a Stop): reported, state stays Stopped, Start accepted
        fixed_cases += [
            [["tick", {}, "n"], ["tick", {k: "o"}, "n"], ["tick", {}, "n"], ["user", "Pause"], ["user", "Start"],
             ["tick", {}, "n"], ["tick", {}, "n"], ["tick", {ip: "o"}, "n"]] for k in (cm, nt)
        ] + [
            [["tick", {rd: "h"}, "n"], ["tick", {wr: "h"}, "n"], ["user", "Start"], ["tick", {}, "n"], ["tick", {rd: "h"}, "n"]],
            up + [["user", "Stop"], ["tick", {}, "n"], ["tick", {}, "n"], ["tick", {nt: "o"}, "n"], ["tick", {cm: "o"}, "n"],
                  ["user", "Stop"], ["user", "Start"], ["tick", {}, "n"], ["tick", {}, "n"]],
        ]
    cases = fixed_cases + [gen_fault_case(ctx.rng, phases) for _ in range(n)]
    for c in cases:
        ctx.count("fault:" + ("handler-fault" if any(o[0] == "tick" and o[2] != "n" for o in c) else
                              "faults" if any(o[0] == "tick" and o[1] for o in c) else "none"))
    impl_out, model_out = ctx.correspond(
        "tick-fault-injection", "TickShell", cases, lines=fault_lines, impl=fault_impl, impl_timeout=60,
        nontrivial=lambda c, out: any("ms=Error" in ln or ln.startswith("r=1") for ln in out))
    if model_out:
        # the cases discriminate: without the injected faults the model answers differently
        ctx.selftest("tick-fault-injection", "TickShell", cases,
                     lambda c: fault_lines([["tick", {}, "n"] if o[0] == "tick" else o for o in c]), model_out)


def run(ctx: Check) -> int:
    from harness.translators import tick_table
    tick_table.generate()
    ctx.prove(MODULE, REQUIRED)
    ctx.rule = ("Translated table: every call expression of Engine.tick/read_process_image/write_process_image/"
                "set_error_state/_apply_safe_state + the phases of a tick. Fault-injection stream: every phase faulted "
                "with each exception kind in a running and in an error-paused run, faults inside set_error_state, then "
                "random schedules of ticks with random fault plans (0-3 phases, 75 % on guarded ones), user "
                "Start/Stop/Pause/Unpause/Hold/Unhold, one method edit; non-trivial = a tick raised or ended with "
                "Method Status Error. M3 stream with the malformed generator (unknown instructions, bad arguments, bad "
                "units, bad indentation, unknown macros/tags). Oracle stream: malformed / unicode / random-line methods "
                "(incl. UOD commands whose exec fails, engine commands with bad arguments) x schedules of ticks, user "
                "control commands, injected snippets (valid and invalid) on the real engine, each followed by an end "
                "game in the error pause (Stop / corrected method + Unpause / Stop + Start of a second run); "
                "non-trivial = run with at least one failed instruction or rejected command.")
    fault_stream(ctx, ctx.n(60, 1500))
    m3_stream(ctx, "interp-m3-malformed", ctx.n(80, 2500), malformed=True)
    cases = sweep_cases() + [gen_case(ctx) for _ in range(ctx.n(220, 3000))]
    ctx.monitor(cases, oracle, impl_timeout=60, timeout_key="tick-hangs")
    ctx.assumptions = ["raise table (lean/OPM/Properties/C13.lean, `mayRaise`): every callee not listed may raise anything; "
                       "listed as not raising: logging calls, builtin container methods, has_error_state / tracking.tick / "
                       "_tick_timer.stop, hardware tick and register conversion callbacks (the property's assumption on "
                       "callbacks), accessors of registered tags, emit_on_method_error (listener errors are swallowed: "
                       "checked, `emitSwallows`); hwl.read_batch / write_batch raise HardwareLayerException only",
                       "Stop bound: stopTicks command phases that run (theorem stop_completes) + one tick for every other "
                       "request that was pending when Stop was accepted or arrived since (a request fails the command "
                       "phase at most once)"]
    return ctx.finish(search=lambda c: c.monitor([gen_case(c) for _ in range(c.n(300, 2000))], oracle,
                                                 impl_timeout=60, timeout_key="tick-hangs"))


def replay(obj) -> int:
    c = obj.get("case", {})
    if isinstance(c, dict) and "sched" in c:
        fs = oracle(c)
        print(c["pcode"])
        for f in fs:
            print("oracle:", f.key, f.detail)
        return 1 if fs else 0
    if isinstance(c, list):     # a fault-injection case
        from vp.core import drive
        io, mo = fault_impl(c), drive("TickShell", [fault_lines(c)])[0]
        for ln, a, b in zip(fault_lines(c), io, mo):
            print(ln.replace("\t", " "), "|", a, "|", b if a != b else "=")
        return 1 if io != mo else 0
    rc = 0
    for d in obj.get("disagreements", []):
        if d.get("stream") == "tick-fault-injection" and isinstance(d.get("case"), list):
            rc |= replay({"case": d["case"]})
    if not obj.get("disagreements"):
        print(obj)
    return rc
