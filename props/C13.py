"""C13 Engine ticks never crash; method errors pause the run."""
from __future__ import annotations

from harness.gen_pcode import gen_program, gen_snippet
from harness.interp_corr import m3_stream
from vp.core import Check, Failure

META = dict(
    level_text="Lean 4: (1) a table of every call site of Engine.tick / read_process_image / write_process_image with its "
               "enclosing exception handlers is regenerated from the source on every run and `decide`d against the "
               "raise table: every may-raise call is caught by a handler ending in set_error_state; (2) over a shell "
               "model of that handler structure no exception escapes a tick and an interpreter failure ends paused "
               "with Method Status Error; (3) over the interpreter model a raising instruction marks its node failed "
               "and stores the error, micro-steps never clear it, an accepted method edit clears it. Tie: translator "
               "(table) + differential execution of malformed programs on the real PInterpreter vs the model; oracle: "
               "malformed texts, random injections and control-command schedules on the real engine — no exception "
               "may escape Engine.tick, failures pause with status Error and a failed line, Stop and a corrected "
               "method are accepted afterwards.",
    level_note="PARTIAL: exceptions from call sites that the raise table lists as non-raising (tag callbacks, listeners, "
               "notify_tag_updates asserts) cannot be exhibited by the model; only the search on the real engine can "
               "find them. Assumes hardware/UOD callbacks return values in their declared domains.",
    technique="Lean 4 proof over a source-regenerated handler table (decide) + model theorems + differential correspondence + engine oracle",
)
MODULE = "OPM.Properties.C13"
REQUIRED = ["OPM.C13.tick_sites_guarded", "OPM.C13.guarded_sites_present", "OPM.C13.shell_tick_never_raises",
            "OPM.C13.interpreter_error_pauses", "OPM.C13.raise_marks_failed", "OPM.C13.lastError_persists_stepGen",
            "OPM.C13.merged_method_clears_error"]

UNICODE_LINES = ["Mark: æøå", "   ", "\tMark: tab", "Mark: a # c", "# only comment", "Watch: T0 > ", "Watch:", "Block:",
                 "End block", "Call macro: x", "Macro:", "Wait: -1s", "Wait: 1 parsec", "5 5 Mark", "1e3 Mark: a",
                 "Simulate: T0 = x", "Simulate off: nosuch", "Base: CV", "Info: hello", "Warning: w", "Error: e",
                 "Pause: 0.5s", "Hold: 0.25s", "Stop", "Restart", "Run counter: -2", "Increment run counter",
                 "Mark: ‮", "Notify", "Simulate: Run Time = abc", "Simulate: Connection Status = abc",
                 "Simulate: Process Time = x", "Simulate: System State = abc", "Simulate: Run Id = 5",
                 "Simulate: Method Status = x", "Simulate: Base = zz", "Simulate: Block = 7", "Simulate: Mark = 7",
                 "Simulate: Clock = abc", "Simulate: Block Time = abc", "Simulate: Scope Time = q", "Simulate: Run Counter = z",
                 "Simulate off: Run Time", "Watch: Run Time > 1", "Watch: Block > 1", "Watch: Connection Status = Connected", "0.5 Watch: T1 = 1", "    Mark: deep", "CmdA: 5", "CmdB", "Unknown thing: 1", "CmdNum: 5",
                 "CmdNum: lots", "CmdNum: lots", "CmdNum"]


def gen_case(ctx: Check) -> dict:
    rng = ctx.rng
    if rng.random() < 0.5:
        pcode, _ = gen_program(rng, malformed=True, bad_conditions=True, max_lines=12)
    else:
        n = rng.randrange(1, 10)
        pcode = "\n".join(("    " * rng.randrange(0, 3) if rng.random() < 0.3 else "") + rng.choice(UNICODE_LINES)
                          for _ in range(n))
    sched = []
    for t in range(rng.randrange(15, 60)):
        x = rng.random()
        if x < 0.06:
            sched.append(("user", rng.choice(["Pause", "Unpause", "Hold", "Unhold", "Stop", "Start", "Restart"])))
        elif x < 0.10:
            sched.append(("inject", rng.choice([gen_snippet(rng), rng.choice(UNICODE_LINES)])))
        elif x < 0.13:
            sched.append(("tag", f"T{rng.randrange(3)}", rng.randrange(4)))
        sched.append(("tick",))
    return {"pcode": pcode, "sched": sched}


SWEEP_METHODS = ["Mark: a\nCmdNum: lots\nMark: b", "CmdNum: lots", "Mark: a\nFrobnicate\nMark: b",
                 "Block: B\n    CmdNum: x\n    End block\nMark: c", "Watch: T0 = 0\n    CmdNum: lots\nMark: a",
                 "CmdB\nCmdNum: lots", "Mark: a\nWait: banana"]


def sweep_cases() -> list[dict]:
    """Stop / Pause / Unpause requested at every tick around a failing instruction."""
    out = []
    for m in SWEEP_METHODS:
        for cmd in ("Stop", "Pause", "Unpause"):
            for t in range(0, 10):
                sched = [("tick",)] * t + [("user", cmd)] + [("tick",)] * (12 - t)
                if cmd != "Stop":
                    sched += [("user", "Stop")] + [("tick",)] * 5
                out.append({"pcode": m, "sched": sched})
    return out


def oracle(case) -> list[Failure]:
    from harness.engine_run import EngineRun
    fails: list[Failure] = []
    try:
        run = EngineRun(case["pcode"])
    except Exception as e:  # setting a method must not crash the engine either, but that is not a tick
        return [Failure(f"set-method-raised:{type(e).__name__}", case, str(e)[:200])]
    try:
        prev_failed: set = set()
        stop_age = None      # ticks since a user Stop was accepted (no other user command since)
        for op in case["sched"]:
            if op[0] == "user":
                r = run.user(op[1])
                # (a Restart issued by the method or the user races with Stop by design: not judged then)
                restarting = "Restart" in case["pcode"] or any(o[0] == "user" and o[1] == "Restart" for o in case["sched"])
                stop_age = 0 if (op[1] == "Stop" and r == "ok" and not restarting) else None
            elif op[0] == "inject":
                run.inject(op[1])
            elif op[0] == "tag":
                run.set_tag(op[1], op[2])
            else:
                snap = run.tick()
                if snap["raised"]:
                    fails.append(Failure("tick-raised:" + snap["raised"].split(":")[0], case, snap["raised"][:300]))
                    return fails
                if stop_age is not None:
                    stop_age += 1
                    if stop_age == 4:
                        if snap["raw_tags"].get("System State") != "Stopped":
                            fails.append(Failure("stop-did-not-stop", case,
                                                 f"System State {snap['raw_tags'].get('System State')!r} four ticks after an accepted Stop"))
                        stop_age = None
                failed = {n["id"] for n in snap["nodes"] if n["failed"]}
                new_failed = failed - prev_failed
                if new_failed and snap["raw_tags"].get("System State") not in ("Stopped", "Restarting"):
                    if snap["raw_tags"].get("Method Status") != "Error":
                        fails.append(Failure("failed-instruction-without-error-status", case,
                                             f"lines {sorted(new_failed)} failed, Method Status = {snap['raw_tags'].get('Method Status')!r}"))
                    elif snap["raw_tags"].get("System State") != "Paused":
                        fails.append(Failure("failed-instruction-did-not-pause", case,
                                             f"lines {sorted(new_failed)} failed, System State = {snap['raw_tags'].get('System State')!r}"))
                    ms = run.engine.method_manager.get_method_state()
                    # (after a live edit the method manager's view is detached: C01 finding, not judged here)
                    if run.engine.method_manager.program is run.engine.interpreter._program and \
                            not set(new_failed) <= set(ms.failed_line_ids):
                        fails.append(Failure("failed-instruction-not-in-method-state", case,
                                             f"{sorted(new_failed)} not in failed_line_ids {ms.failed_line_ids}"))
                prev_failed = failed
        # responsiveness: Stop is accepted in an error state and stops; a corrected method is accepted
        snap = run.snapshot()
        if snap["raw_tags"].get("Method Status") == "Error" and snap["raw_tags"].get("System State") == "Paused":
            if run.user("Stop") != "ok":
                fails.append(Failure("stop-refused-in-error-state", case, "Stop raised in error state"))
            else:
                for _ in range(3):
                    s2 = run.tick()
                    if s2["raised"]:
                        fails.append(Failure("tick-raised:" + s2["raised"].split(":")[0], case, s2["raised"][:300]))
                        return fails
                if s2["raw_tags"].get("System State") != "Stopped":
                    fails.append(Failure("stop-did-not-stop-in-error-state", case,
                                         f"System State {s2['raw_tags'].get('System State')!r} three ticks after Stop"))
            if run.edit("Mark: ok\n") != "ok":
                fails.append(Failure("corrected-method-refused", case, "set_method of a valid method raised"))
        return fails
    finally:
        run.close()


def run(ctx: Check) -> int:
    from harness.translators import tick_table
    tick_table.generate()
    ctx.prove(MODULE, REQUIRED)
    ctx.rule = ("Translated table: all call sites of Engine.tick/read_process_image/write_process_image. M3 stream with "
                "the malformed generator (unknown instructions, bad arguments, bad units, bad indentation, unknown "
                "macros/tags). Oracle stream: malformed / unicode / random-line methods x schedules of ticks, user "
                "control commands, injected snippets (valid and invalid) on the real engine; non-trivial = run with "
                "at least one failed instruction or rejected command.")
    m3_stream(ctx, "interp-m3-malformed", ctx.n(120, 2500), malformed=True)
    cases = sweep_cases() + [gen_case(ctx) for _ in range(ctx.n(300, 3000))]
    ctx.monitor(cases, oracle, impl_timeout=60, timeout_key="tick-hangs")
    ctx.assumptions = ["raise table: interpreter.tick, command_manager.tick, update_calculated_tags and notify_tag_updates "
                       "may raise anything; hwl.read_batch / write_batch may raise HardwareLayerException; every other "
                       "call site of the tick does not raise"]
    return ctx.finish(search=lambda c: c.monitor([gen_case(c) for _ in range(c.n(300, 2000))], oracle,
                                                 impl_timeout=60, timeout_key="tick-hangs"))


def replay(obj) -> int:
    c = obj.get("case", {})
    if "sched" in c:
        fs = oracle(c)
        print(c["pcode"])
        for f in fs:
            print("oracle:", f.key, f.detail)
        return 1 if fs else 0
    print(obj)
    return 0
