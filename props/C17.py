"""C17 Parsing maps every line to one node with indentation structure.

Proof half: OPM.Properties.C17 — for every list of per-line nodes the pre-order of the parsed tree is the
source order (any decision policy); for the repaired indentation pass: structure law on every correctly
indented text, and some instruction is flagged on every other text.
Tie half: the real `PcodeParser` (splitlines + _parse_line + indentation pass) against the Lean model on
whole texts: grammar-generated programs with random indentation, all short texts over a small line alphabet,
arbitrary unicode lines with every line-boundary character of str.splitlines.
"""
from __future__ import annotations

import itertools
import os
import random
from typing import Any

from vp.core import reraise_harness_fault as core_reraise
from vp.core import Check, Failure, drive, enc, load_corpus

META = dict(
    level_text="Lean 4 theorems about the parser model: (1) for every list of lines and either indentation policy the "
               "parsed tree read in pre-order lists every line exactly once, in source order, under its line number "
               "(one_node_per_line, text_one_node_per_line); (2) for the repaired indentation pass, on every correctly "
               "indented text no instruction is flagged and every instruction hangs under the nearest preceding "
               "instruction one level (4 spaces) shallower, which opens a body (structure_law, "
               "parent_is_nearest_shallower; bodies are opened by exactly Block/Watch/Alarm/Macro: opener_names); "
               "(3) on every other text an instruction is flagged — the first offending one; later independent offenders "
               "are not claimed (bad_indentation_flagged, flagged_iff_incorrect). Judged from the TEXT (indentation = "
               "leading white space of the line, srcInfos): the law holds on every text all of whose lines are blank, "
               "comments or match the instruction pattern (C17_partial), and on every text for the line parser as "
               "repaired in /repo (4ad2b33e; text_law_repaired). "
               "The model is tied to PcodeParser by differential execution on whole texts (structured, exhaustive "
               "small scope, arbitrary unicode).",
    level_note="The text-level law holds for the parser as repaired in /repo (text_law_repaired; fix 4ad2b33e: an "
               "indented line that does not match the instruction pattern keeps its column and stays in its block). "
               "For the line parser before that repair the law is false (C17_full / C17_counterexample on "
               "'Block: A / Mark: a / ? / Mark: b') and holds on texts whose lines all scan (C17_partial); the check "
               "runs the repaired variant of the model, so a regression shows as a disagreement plus the oracle key "
               "unparsable-line-treated-as-column-0. The structure law is for the indentation pass with the committed C17 repair (asis_* witnesses "
               "for the pass before it). 'Four spaces' = any four white-space characters. Blank and "
               "comment-only lines are transparent for the indentation discipline (as in IndentationCheckAnalyzer). "
               "'Parsing never fails' is a model totality + an observable of the correspondence (an exception of the "
               "real parser is a diff). Trusted: Lean kernel, harness, CPython str.splitlines/re (differential), "
               "character tables regenerated from the running interpreter.",
    technique="Lean 4 proof (refinement tree machine = control machine; invariant over the open-node chain) + "
              "differential correspondence + independent reference-nesting oracle",
)
MODULE = "OPM.Properties.C17"
REQUIRED = ["OPM.C17.one_node_per_line", "OPM.C17.text_one_node_per_line", "OPM.C17.structure_law",
            "OPM.C17.parent_is_nearest_shallower", "OPM.C17.bad_indentation_flagged",
            "OPM.C17.text_bad_indentation_flagged", "OPM.C17.flagged_iff_incorrect", "OPM.C17.opener_names",
            "OPM.C17.lines_have_no_boundary", "OPM.C17.text_law_of_columns", "OPM.C17.C17_counterexample",
            "OPM.C17.C17_partial", "OPM.C17.text_law_repaired"]
DRIVER = "Parse"


# ----------------------------------------------------------------------------------------------
# generators (cases are {"text": str, "meta": [[indent, kind], …] | None}; kind o/l/w as the *generator* intends)

def _join(lines: list[str], rng: random.Random, fancy_breaks: bool) -> str:
    from harness.parse_common import BREAKS
    out = []
    for i, ln in enumerate(lines):
        last = i == len(lines) - 1
        sep = rng.choice(BREAKS) if fancy_breaks and rng.random() < 0.5 else "\n"
        if last and ln != "" and rng.random() < 0.5:
            sep = ""
        out.append(ln + sep)
    return "".join(out)


def gen_structured(rng: random.Random, max_lines: int, p_bad: float) -> dict:
    from harness import parse_common as pc
    n = rng.randint(1, max_lines)
    lines: list[str] = []
    meta: list[list[Any]] = []
    level, prev_opener = 0, False
    p_ws = rng.choice([0.0, 0.15, 0.35])
    p_enter = rng.choice([0.6, 0.85, 1.0])
    p_x = rng.choice([0.0, 0.0, 0.1, 0.25])        # instruction lines that do not match the line pattern
    deep = rng.random() < 0.3                       # nest eagerly: multi-level outdents from depth >= 3
    while len(lines) < n:
        if rng.random() < p_ws:
            lines.append(pc.rand_ws_line(rng, 4 * level))
            meta.append([0, "w"])
            continue
        if rng.random() < p_bad:
            ind = rng.choice([1, 2, 3, 5, 6, 7, 4 * level + 8, 4 * level + 12, 4 * (level + 1), rng.randrange(0, 20)])
        elif prev_opener and rng.random() < p_enter:
            ind = 4 * (level + 1)
        else:
            ind = 4 * rng.choice([level] * 3 + list(range(0, level + 1)))
        if rng.random() < p_x:
            text, kind = rng.choice(pc.UNPARSABLE), "x"
        else:
            text, kind = pc.rand_instruction(rng, opener=(True if deep and rng.random() < 0.6 else None)
                                             if level < 5 else False)
        lines.append(" " * ind + text)
        meta.append([ind, kind])
        if ind % 4 == 0:
            level, prev_opener = ind // 4, kind == "o"
    case = {"text": _join(lines, rng, rng.random() < 0.15), "meta": meta}
    if rng.random() < 0.25:
        case["ids"] = "custom"   # ParserMethod built by the caller (the frontend path), ids are not id_<n>
    return case


def gen_unparsable_in_bodies() -> list[dict]:
    """every unparsable line in the body of every opener kind: first / middle / last line, one and two levels deep"""
    from harness import parse_common as pc
    heads = {"Block": "Block: A", "Watch": "Watch: X > 1", "Alarm": "Alarm: X < 2", "Macro": "Macro: M"}
    out = []
    for name, head in heads.items():
        for u in pc.UNPARSABLE:
            for pos in range(3):
                for depth in (1, 2):
                    ind = 4 * depth
                    pre = [("Block: Outer", 0, "o")] if depth == 2 else []
                    body = [("Mark: a", ind, "l"), ("Mark: b", ind, "l")]
                    body.insert(pos, (u, ind, "x"))
                    ls = pre + [(head, ind - 4, "o")] + body + [("Mark: after", 0, "l")]
                    out.append({"text": "".join(" " * i + t + "\n" for t, i, _ in ls),
                                "meta": [[i, k] for _, i, k in ls]})
    return out


ALPHABET = [("Block: A", "o", 0), ("Watch: X > 1", "o", 4), ("Mark: a", "l", 0), ("Mark: b", "l", 4),
            ("Mark: d", "l", 2), ("# c", "w", 0), ("", "w", 0), ("Macro: M", "o", 8), ("?", "x", 4),
            ("Mark: c", "l", 8)]


def gen_exhaustive(maxlen: int, symbols: int) -> list[dict]:
    out = []
    alpha = ALPHABET[:symbols]
    for k in range(1, maxlen + 1):
        for combo in itertools.product(alpha, repeat=k):
            lines = [" " * ind + t for t, _, ind in combo]
            out.append({"text": "".join(ln + "\n" for ln in lines), "meta": [[ind, kd] for _, kd, ind in combo]})
    return out


def gen_unicode(rng: random.Random, max_lines: int) -> dict:
    from harness import parse_common as pc
    parts = []
    for _ in range(rng.randint(0, max_lines)):
        r = rng.random()
        if r < 0.08:   # conditions that repeat their operator (ill-formed; parsing must still not fail)
            parts.append(" " * rng.choice([0, 4]) + rng.choice(["Watch", "Alarm", "Simulate"]) + ": "
                         + rng.choice(pc.REPEATED_OP))
        elif r < 0.55:
            parts.append(pc.rand_unicode_line(rng, 10))
        elif r < 0.7:
            parts.append(pc.rand_ws_line(rng, rng.choice([0, 4, 8])))
        else:
            parts.append(" " * rng.choice([0, 0, 4, 4, 8, 2, 16]) + pc.rand_instruction(rng)[0])
        parts.append(rng.choice(pc.BREAKS) if rng.random() < 0.5 else "\n")
    if parts and rng.random() < 0.3:
        parts.pop()
    return {"text": "".join(parts), "meta": None}


# ----------------------------------------------------------------------------------------------
# reference semantics for the oracle (independent of the Lean model and of the implementation)

def reference(meta: list[list[Any]]) -> dict:
    """correctly indented? expected parent (line index or None) of every instruction line; shapes present."""
    correct = True
    prev, opn = 0, False
    empty_body = ws_after_opener = False
    last_instr = None
    first_bad = None
    after_empty: list[int] = []
    for i, (ind, kind) in enumerate(meta):
        if kind == "w":
            if last_instr is not None and meta[last_instr][1] == "o":
                ws_after_opener = True
            continue
        if ind % 4 != 0 or not (ind <= prev or (opn and ind == prev + 4)):
            correct = False
            if first_bad is None:
                first_bad = i
        if opn and ind <= prev:
            empty_body = True
            after_empty.append(i)
        prev, opn, last_instr = ind, kind == "o", i
    parents: dict[int, int | None] = {}
    if correct:
        for i, (ind, kind) in enumerate(meta):
            if kind == "w":
                continue
            parents[i] = next((j for j in range(i - 1, -1, -1)
                               if meta[j][1] != "w" and meta[j][0] + 4 == ind), None)
    return {"correct": correct, "parents": parents, "empty_body": empty_body, "ws_after_opener": ws_after_opener,
            "first_bad": first_bad, "after_empty": after_empty}


def oracle(case: dict, program=None, report_case=None) -> Failure | None:
    """The property over what the real parser built. `program`: a tree some long-lived parser of the engine built
    for `case["text"]` (injected code: ids are not line ids, lines are identified by `position.line`); it is judged
    exactly like a fresh parse of the same text."""
    import openpectus.lang.model.ast as p
    from harness import parse_common as pc
    text, meta = case["text"], case.get("meta")
    src = text.splitlines()
    report_case = case if report_case is None else report_case
    if program is None:
        try:
            method, prog = pc.parse_text(text, custom_ids=case.get("ids") == "custom")
        except Exception as e:
            core_reraise(e)
            return Failure(f"parse-raises:{type(e).__name__}", case,
                           f"parsing the method raised {type(e).__name__}: {e} — parsing must never fail")
        nodes = pc.preorder(prog)
        ids = [n.id for n, _ in nodes]
        want = [ln.id for ln in method.lines]
        n_lines = len(method.lines)
    else:
        nodes = pc.preorder(program)
        ids = [n.position.line for n, _ in nodes]
        want = list(range(len(src)))
        n_lines = len(src)
    case = report_case
    if n_lines != len(src) or ids != want:
        return Failure("not-one-node-per-line-in-source-order", case,
                       f"{len(src)} source lines, node ids in tree order {ids[:12]}, line ids {want[:12]}")
    if meta is None:
        return None
    if len(meta) != len(src):
        return None  # generator and splitlines disagree on the lines: not a structured case
    ref = reference(meta)
    index = {n.id: i for i, (n, _) in enumerate(nodes)}
    flagged = [i for i, (n, _) in enumerate(nodes) if meta[i][1] != "w" and n.indent_error]

    def unparsable_before(i: int) -> bool:
        """an indented line that does not match the line pattern at or before line i (recorded finding)"""
        return any(k == "x" and ind > 0 for ind, k in meta[: i + 1])

    if not ref["correct"]:
        if not flagged:
            key = "unparsable-line-treated-as-column-0" if unparsable_before(ref["first_bad"]) \
                else "bad-indentation-not-flagged"
            return Failure(key, case, f"line {ref['first_bad'] + 1} ({src[ref['first_bad']]!r}) breaks the indentation "
                           "discipline (judged from the text) but no instruction carries indent_error")
        return None
    wrong = []
    for i, (n, par) in enumerate(nodes):
        if meta[i][1] == "w":
            continue
        got = None if isinstance(par, p.ProgramNode) else index[par.id]
        if got != ref["parents"][i]:
            wrong.append((i, got, ref["parents"][i]))
    if not wrong:
        # correctly indented and correctly nested: then nothing is an indentation error either (a flagged line does
        # not execute) — except under the reading that flags the line after an opener without body
        bad = [f for f in flagged if not any(e <= f for e in ref["after_empty"])]
        if bad:
            return Failure("correct-indentation-flagged", case,
                           f"line {bad[0] + 1} ({src[bad[0]]!r}) of a correctly indented text carries indent_error")
        return None
    i, got, exp = wrong[0]
    if any(e in flagged and e <= i for e in ref["after_empty"]):
        return None  # reading "an opener without body is an indentation error": the line after it is flagged
    prev_instr = next((j for j in range(i - 1, -1, -1) if meta[j][1] != "w"), None)
    if unparsable_before(i):
        key = "unparsable-line-treated-as-column-0"
    elif prev_instr is not None and meta[prev_instr][1] == "o" and meta[i][0] <= meta[prev_instr][0]:
        key = "empty-body-opener-adopts-following-line"
    elif ref["ws_after_opener"] and flagged:
        key = "blank-or-comment-after-opener-renests-following-lines"
    else:
        key = "wrong-parent-in-correctly-indented-text"
    return Failure(key, case, f"line {i + 1} ({src[i]!r}) hangs under "
                   f"{'the program' if got is None else 'line ' + str(got + 1)}, the nearest preceding opener one "
                   f"level shallower is {'none (top level)' if exp is None else 'line ' + str(exp + 1)}; "
                   f"flagged instruction lines: {[j + 1 for j in flagged]}")


# ----------------------------------------------------------------------------------------------

def _uod() -> str:
    from harness.parse_common import UOD, enc_list
    return enc_list(UOD)


# The model follows the code that exists. fixes/C17-error-line-keeps-indentation.diff is a proposed repair that is
# NOT in /repo: with it applied set this to True (and move the finding of findings.d/C17.json to "fixed"); the
# Lean side has both variants (`TextLaw false` = C17_full/C17_counterexample/C17_partial, `text_law_repaired`).
ERROR_LINE_REPAIRED = os.environ.get("VERIF_C17_ERROR_LINE_REPAIRED", "1") == "1"   # the repair is committed in /repo (fix: 2nd C17 entry)


def text_op(case: dict, fx_indent: str = "1", fe: str | None = None) -> list[str]:
    fe = ("1" if ERROR_LINE_REPAIRED else "0") if fe is None else fe
    return [f"text\t1\t{fe}\t{fx_indent}\t{_uod()}\t{enc(case['text'])}"]


def _shape(ctx: Check, case: dict) -> None:
    from harness.parse_common import REPEATED_OP
    meta = case.get("meta")
    if any(": " + r in case["text"] for r in REPEATED_OP):
        ctx.count("has_condition_repeating_its_operator")
    if meta is None:
        ctx.count("unicode_text")
        return
    ref = reference(meta)
    ctx.count("correct" if ref["correct"] else "incorrect")
    if ref["empty_body"]:
        ctx.count("has_empty_body")
    if ref["ws_after_opener"]:
        ctx.count("blank_or_comment_right_after_opener")
    if any(k == "x" and ind > 0 for ind, k in meta):
        ctx.count("has_indented_unparsable_line")
    if case.get("ids") == "custom":
        ctx.count("caller_supplied_line_ids")
    depth = max([ind // 4 for ind, k in meta if k != "w" and ind % 4 == 0] + [0])
    ctx.count(f"max_level_{min(depth, 4)}")


def run(ctx: Check) -> int:
    from harness.translators import parse_tables
    from harness import parse_common as pc
    parse_tables.generate()
    ctx.prove(MODULE, REQUIRED)
    rng = ctx.rng
    ctx.rule = ("texts: (a) corpus; (b) grammar-generated programs (Block/Watch/Alarm/Macro bodies to 5 levels, thresholds, "
                "arguments, comments, blank/comment lines at arbitrary indentation, empty bodies) with 0 % / 15 % of "
                "the instruction lines indented wrongly (1-19 spaces), 0/10/25 % instruction lines that do not match the line "
                "pattern ('?', ':x', '-5 Mark', …) at their intended indentation, eager nesting in 30 % of the texts, "
                "every str.splitlines line boundary, a quarter through caller-built ParserMethod objects with foreign line "
                "ids; (b') every unparsable line x every opener kind x first/middle/last body line x depth 1/2; (c) all "
                "texts of up to 4/5 lines over a 9-line alphabet (openers, leaves, comments, blanks, an unparsable line, "
                "indentation 0/2/4/8); (d) arbitrary unicode lines. The oracle judges indentation from the text. (e) sequences through the "
                "engine's long-lived parsers: 2-4 generated texts injected through ONE MethodManager inject parser (each judged "
                "as a fresh parse, and compared with a fresh inject parser); set_method / Start / live edit that inserts, "
                "removes, reorders unstarted lines / Restart or Stop+Start: node ids = line ids of the current method. Non-trivial = at least two instruction lines of which one is "
                "indented.")

    def nontrivial(c, o):
        m = c.get("meta")
        if m is None:
            return len(c["text"].splitlines()) >= 2
        ins = [x for x in m if x[1] != "w"]
        return len(ins) >= 2 and any(x[0] > 0 for x in ins)

    impl = lambda c: [pc.observe_rows(c["text"], custom_ids=c.get("ids") == "custom")]  # noqa: E731

    corpus = [c for c in load_corpus("C17") if "text" in c]
    structured = [gen_structured(rng, ctx.n(12, 40), 0.0 if rng.random() < 0.6 else 0.15)
                  for _ in range(ctx.n(600, 30000))]
    exhaustive = gen_exhaustive(ctx.n(4, 5), 9)
    unparsable = gen_unparsable_in_bodies()
    uni = [gen_unicode(rng, ctx.n(8, 20)) for _ in range(ctx.n(600, 30000))]

    streams = [("structured", corpus + unparsable + structured), ("exhaustive", exhaustive), ("unicode", uni)]
    ctx.extra["structured_stream"] = {"corpus": len(corpus), "unparsable_line_in_every_body": len(unparsable),
                                      "generated": len(structured)}
    outs = {}
    for name, cases in streams:
        if not cases:
            continue
        outs[name] = ctx.correspond(name, DRIVER, cases, text_op, impl, nontrivial=nontrivial)
        for c in cases:
            _shape(ctx, c)
    # first pass of parse_method alone: number of lines and node class per line
    ctx.correspond("nodes", DRIVER, uni[: ctx.n(300, 15000)],
                   lambda c: [f"nodes\t1\t{'1' if ERROR_LINE_REPAIRED else '0'}\t{_uod()}\t{enc(c['text'])}"], lambda c: [pc.observe_nodes(c["text"])])
    # self-test: the unrepaired indentation policy must be visible on the generated texts
    if "structured" in outs and outs["structured"][1]:
        ctx.selftest("structured", DRIVER, structured[: ctx.n(400, 5000)], lambda c: text_op(c, "0"),
                     outs["structured"][1][len(corpus) + len(unparsable):][: ctx.n(400, 5000)])
    # the property oracle on everything generated
    for name, cases in streams:
        ctx.monitor(cases, oracle)
    # the engine's long-lived parser objects: sequences of injections through one inject parser; method re-parsed
    # after live edit + Restart / Stop+Start. Each parse is judged as a fresh parse of the same text would be.
    seqs = [gen_inject_sequence(rng) for _ in range(ctx.n(25, 400))] + \
           [gen_method_sequence(rng) for _ in range(ctx.n(10, 120))]
    seqs = [c for c in load_corpus("C17") if "inject_sequence" in c or "method_sequence" in c] + seqs
    ctx.monitor(seqs, oracle_sequence, impl_timeout=60.0)
    ctx.count("inject_sequences", sum(1 for c in seqs if "inject_sequence" in c))
    ctx.count("method_edit_reparse_sequences", sum(1 for c in seqs if "method_sequence" in c))
    ctx.exhaustive = False
    ctx.extra["exhaustive_scope"] = (f"all texts of 1..{ctx.n(4, 5)} lines over 9 line shapes (incl. an indented "
                                     f"unparsable line): "
                                     f"{len(exhaustive)} texts")
    ctx.assumptions = ["method text is a valid unicode string (no lone surrogates)",
                       "indentation of blank and comment-only lines carries no meaning (IndentationCheckAnalyzer "
                       "ignores them; test_parser.test_parse_block_w_blank_*, "
                       "test_analyzer_check.test_end_block_after_not_indented_comment)",
                       "a line that opens a body and has none is correctly indented text (the oracle also accepts a "
                       "parser that flags the line right after it instead)",
                       "a source line is a line of str.splitlines (what ParserMethod.from_pcode uses)"]
    return ctx.finish(search=_search)


# ----------------------------------------------------------------------------------------------
# sequences through the engine's long-lived parsers

def gen_inject_sequence(rng: random.Random) -> dict:
    return {"inject_sequence": [gen_structured(rng, 5, 0.0 if rng.random() < 0.6 else 0.2) for _ in range(rng.randint(2, 4))]}


def gen_method_sequence(rng: random.Random) -> dict:
    pool = ["Mark: b", "Mark: c", "Info: x", "Wait: 0.1s", "Mark: d", "Warning: w", "Mark: e"]
    head = [["01", "Mark: A"], ["02", "Wait: 0.5s"]]
    tail = [[f"{i + 3:02d}", rng.choice(pool)] for i in range(rng.randint(1, 4))]
    new = list(tail)
    nxt = 50
    for _ in range(rng.randint(1, 3)):   # insert / remove / reorder lines that have not started
        r = rng.random()
        if r < 0.5 or not new:
            new.insert(rng.randint(0, len(new)), [f"{nxt}", rng.choice(pool)])
            nxt += 1
        elif r < 0.8:
            new.pop(rng.randrange(len(new)))
        else:
            rng.shuffle(new)
    return {"method_sequence": {"v1": head + tail, "v2": head + new, "how": rng.choice(["Restart", "Stop+Start"])}}


def oracle_sequence(case: dict) -> list[Failure]:
    from harness import parse_common as pc
    from harness import parse_sequences as ps
    out: list[Failure] = []
    if "inject_sequence" in case:
        seq = case["inject_sequence"]
        res = ps.run_inject_sequence([c["text"] for c in seq])
        for k, (c, r) in enumerate(zip(seq, res)):
            rc = {"inject_sequence": seq[: k + 1]}
            if r["raised"]:
                out.append(Failure("parse-raises:" + r["raised"].split(":")[0], rc,
                                   f"injection {k + 1} ({c['text']!r}): the inject parser raised {r['raised']}"))
                break
            fresh = ps.fresh_inject_rows(c["text"], pc.UOD)
            f = oracle(c, program=r["program"], report_case=rc)
            if f is not None:
                f.detail = f"injection {k + 1} of {len(seq)} through one inject parser: " + f.detail
                out.append(f)
                break
            if r["rows"] != fresh:
                out.append(Failure("parse-depends-on-earlier-parses", rc,
                                   f"injection {k + 1} ({c['text']!r}) parsed by the engine's inject parser after "
                                   f"{k} other injection(s): {r['rows']}; parsed by a fresh parser: {fresh}"))
                break
        return out
    m = case["method_sequence"]
    o = ps.run_method_sequence(m["v1"], m["v2"], m["how"])
    if o["raised"]:
        return [Failure("parse-raises:" + o["raised"].split(":")[0], case, f"the sequence raised {o['raised']}")]
    if o.get("reparse", "ok") != "ok":
        out.append(Failure("parse-raises:" + o["reparse"].split(":")[0], case,
                           f"re-parsing the current method (reset_interpreter, as Restart/Stop do) after a live edit "
                           f"raised {o['reparse']}"))
    for st in o["stages"]:
        if st["stage"] == "live-edit" and o["edit"] != "ok":
            break   # the edit was refused: nothing to judge
        if st["node_ids"] != st["line_ids"] or st["node_lines"] != list(range(len(st["line_ids"]))):
            out.append(Failure("node-ids-differ-from-current-method-line-ids", case,
                               f"stage {st['stage']}: program node ids {st['node_ids']} (lines {st['node_lines']}) but the "
                               f"current method has line ids {st['line_ids']}"))
            break
    return out


def _search(ctx: Check) -> None:
    rng = random.Random(ctx.seed * 7919 + 17)
    for _ in range(3000):
        c = gen_structured(rng, 8, 0.0 if rng.random() < 0.7 else 0.2)
        f = oracle(c)
        if f is not None:
            ctx.fail(f)
            return


def replay(obj) -> int:
    from harness import parse_common as pc
    case = obj.get("case") or {}
    if "inject_sequence" in case or "method_sequence" in case:
        if "inject_sequence" in case:
            for k, c in enumerate(case["inject_sequence"]):
                print(f"injection {k + 1}: {c['text']!r}")
        else:
            print("method sequence:", case["method_sequence"])
        fs = oracle_sequence(case)
        for f in fs:
            print("oracle:", f.key, f.detail)
        print("oracle: ok" if not fs else "")
        return 1 if fs else 0
    if "text" not in case:
        for d in obj.get("disagreements", [])[:1]:
            case = d.get("case", {})
    if "text" not in case:
        print(obj)
        return 0
    print("text:")
    for i, ln in enumerate(case["text"].splitlines()):
        print(f"  {i + 1:3d} {ln!r}")
    print("implementation rows (idx:parent:indent_error:char:kind):", pc.observe_rows(case["text"]))
    try:
        print("model rows (repaired policy):                          ", drive(DRIVER, [text_op(case)])[0][0])
        print("model rows (policy as it was):                         ", drive(DRIVER, [text_op(case, '0')])[0][0])
    except Exception as e:  # the model is optional for a replay
        print("model not available:", e)
    f = oracle(case)
    print("oracle:", "ok" if f is None else f"{f.key}: {f.detail}")
    return 0 if f is None else 1
