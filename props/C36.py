"""C36 Every changed tag is reported with its latest value.

Proof half: OPM.Properties.C36 over the tag/report model M5 (changed ⊆ reported with the current value for every
operation sequence of the repaired code, no duplicates, snapshot = all tags) + tables regenerated from the
source (no Tag subclass assigns its value outside the primitives).
Tie half: (A) explicit operation sequences against the real Tag / BlockTimeTag / ScopeTimeTag / Engine /
EngineMessageBuilder objects (exhaustive short sequences over a small alphabet + long random ones);
(B) traces of real engine runs (every primitive call and every direct field assignment the engine performs on
its tags, recorded by class-level wrappers) replayed on the model, comparing every report.
Oracle: the aggregator's view (latest reported value per tag) must equal the engine's tag values after every
report; no duplicates; a snapshot names every tag.
"""
from __future__ import annotations

import json
from pathlib import Path

from vp.core import Check, Failure, ImplTimeout, quiet_logging, with_timeout

META = dict(
    level_text="Lean 4 theorems over the tag/report model (Tag.set_value / simulate_value(_and_unit) / stop_simulation, "
               "the change listeners, Engine.notify_tag_updates / notify_all_tags, the tag_updates queue, "
               "collect_tag_updates, the Block Time / Scope Time handlers): for every sequence of tag operations of the "
               "repaired code between two reports taken at tick boundaries, every tag whose reported value differs from "
               "before is in the next report with its current value; a report never names a tag twice; a snapshot names "
               "exactly all tags. A table regenerated from the source on every run (every assignment to an attribute value / "
               "simulated_value / simulated on ANY receiver, and every setattr, in all of openpectus/engine and "
               "openpectus/lang/exec) shows that no tag field is assigned outside Tag's notifying primitives. The model is tied to the real classes by differential execution "
               "(exhaustive short operation sequences, long random ones, and recorded traces of real engine runs).",
    level_note="Model follows the code repaired by fixes/C36-notify-clock-tags-and-simulation-changes.diff (Block Time / "
               "Scope Time assigned self.value without notifying; stop_simulation compared after clearing; "
               "simulate_value_and_unit set `simulated` before validating): on a tree without that repair this check "
               "reports a violation. Trusted: Lean kernel, the harness (trace recorder, canonical encoding), the AST "
               "translator. Not modelled: DerivedTag, value_formatted, the order inside a report; "
               "`simulate_value(None, …)` (never issued by the interpreter) is outside the theorem's operation set; "
               "reports are taken between ticks. Reports are compared modulo entries that tell the receiver nothing new (a "
               "notification of an unchanged tag is neither required nor forbidden); the harness UOD has an output tag "
               "with a safe value so that the safe-state / restore paths (Pause, Hold, Stop, error pause) are exercised.",
    technique="Lean 4 proof (pending-set invariant over operation sequences) + translated source table + differential "
              "correspondence (unit operations, recorded engine traces) + engine-level oracle",
)
MODULE = "OPM.Properties.C36"
REQUIRED = ["OPM.C36.no_silent_assignments", "OPM.C36.dynamic_setattrs_not_on_tags",
            "OPM.C36.every_field_has_a_notifying_primitive", "OPM.C36.changed_reported",
            "OPM.C36.report_value_current", "OPM.C36.report_no_duplicates", "OPM.C36.snapshot_reports_every_tag",
            "OPM.C36.blockTime_never_silent", "OPM.C36.scopeTime_never_silent", "OPM.C36.tick_boundary_clean"]
CORPUS = Path(__file__).resolve().parent.parent / "corpus" / "C36"


def oracle(case: dict, res: dict) -> list[Failure]:
    """The property over what the implementation did: after every report the receiver's view equals the engine's."""
    fails: list[Failure] = []
    seen_keys: set[str] = set()

    def fail(key: str, detail: str):
        if key not in seen_keys:
            seen_keys.add(key)
            fails.append(Failure(key, case, detail))

    view: dict[str, object] = {}
    for ob in res["obs"]:
        names = [e[0] for e in ob["entries"]]
        for n in set(names):
            if names.count(n) > 1:
                fail(f"duplicate-tag-in-report:{n}", f"report after tick {ob['tick']} names {n!r} {names.count(n)} times")
        if ob["kind"] == "snap":
            for n in ob["all_names"]:
                if n not in names:
                    fail(f"snapshot-misses-tag:{n}", f"snapshot after tick {ob['tick']} does not contain {n!r}")
        for n, v, _, _ in ob["entries"]:
            view[n] = v
        for n, cur in ob["readonly"].items():
            if n in view and view[n] != cur:
                if n in names:
                    fail(f"reported-value-not-latest:{n}",
                         f"report after tick {ob['tick']}: {n!r} reported as {view[n]!r}, the tag shows {cur!r}")
                else:
                    fail(f"changed-tag-not-reported:{n}",
                         f"report after tick {ob['tick']}: {n!r} changed to {cur!r} (last reported {view[n]!r}) "
                         f"but is not in the report")
                view[n] = cur  # report each stale episode once
    return fails


def simple_case(pcode: str, ticks: int = 30, users: dict[int, str] | None = None) -> dict:
    return {"pcode": pcode, "malformed": False,
            "sched": [{"dt": 0.125, "hw": {}, "user": (users or {}).get(k), "report": "upd"} for k in range(ticks)]}


def count_gaps(ctx: Check, case: dict) -> None:
    """distribution of the number of ticks between two reports, and whether a register changed in the last 3 ticks"""
    gap, late = 0, False
    window: list[bool] = []
    for st in case["sched"]:
        gap += 1
        window = (window + [bool(st["hw"]) or bool(st.get("user"))])[-3:]
        if st.get("report"):
            b = "1-5" if gap <= 5 else "6-40" if gap <= 40 else "41-120" if gap <= 120 else "121-300" \
                if gap <= 300 else "301-1000" if gap <= 1000 else "1001-3000" if gap <= 3000 else "3001+"
            ctx.extra["longest_gap_driven_ticks"] = max(ctx.extra.get("longest_gap_driven_ticks", 0), gap)
            ctx.count(f"gap:{b}:{st['report']}")
            if gap > 40 and any(window):
                ctx.count("gap>40:change-in-last-3-ticks")
            gap = 0


def corpus_cases() -> list[dict]:
    if not CORPUS.is_dir():
        return []
    return [json.loads(p.read_text()) for p in sorted(CORPUS.glob("*.json"))]


def run(ctx: Check) -> int:
    quiet_logging()
    from harness import tagrep
    from harness.translators import tag_sites
    table = tag_sites.generate()
    ctx.extra["translated"] = {"set_sites": len(table["set_sites"]), "value_assignments": len(table["assigns"]),
                               "silent_assignments": [f"{a['cls']}.{a['func']}:{a['line']}" for a in table["assigns"]
                                                      if a["kind"] == "silent"]}
    ctx.prove(MODULE, REQUIRED)
    rng = ctx.rng

    # ---- (A) unit operations on the real objects
    unit_cases: list[list] = list(tagrep.exhaustive_unit_ops(ctx.n(2, 3)))
    n_exh = len(unit_cases)
    longer = list(tagrep.exhaustive_unit_ops(ctx.n(3, 4)))[n_exh:]     # one length beyond the exhaustive scope: sampled
    unit_cases += rng.sample(longer, ctx.n(300, 6000))
    unit_cases += [tagrep.gen_unit_ops(rng, rng.randrange(8, 40)) for _ in range(ctx.n(150, 5000))]
    cache: dict[int, tuple[list[str], list[str]]] = {}

    def unit(c):
        k = id(c)
        if k not in cache:
            cache[k] = tagrep.run_unit_ops(c)
        return cache[k]

    for c in unit_cases:
        for op in c:
            ctx.count("unit:" + op[0] + (":" + op[1] if op[0] in ("bt", "st") else ""))
    _, mout = ctx.correspond("tag-ops", "Tags", unit_cases, lambda c: unit(c)[0], lambda c: unit(c)[1],
                             nontrivial=lambda c, o: any(x not in ("ok", "-") and not x.startswith(("ok ", "err"))
                                                         for x in o))

    def mutant(c):
        out = []
        for ln in unit(c)[0]:
            f = ln.split("\t")
            if f[0] in ("bt", "st"):
                f[0] += "old"
            elif f[0] in ("simoff", "simfail"):
                f[0] += "old"
            out.append("\t".join(f))
        return out
    if mout:
        ctx.selftest("tag-ops", "Tags", unit_cases, mutant, mout)
    ctx.extra["exhaustive_scope"] = (f"all {n_exh} operation sequences up to length {ctx.n(2, 3)} over "
                                     f"{len(tagrep.EXH_ALPHABET)} operations (2 tags x 2 values: set, simulate, "
                                     f"stop/fail simulation; notify; report; snapshot; Block Time start/block/tick)")

    # ---- (B) recorded engine traces + oracle
    cases = corpus_cases()
    n_corpus = len(cases)
    cases += [tagrep.gen_case(rng, malformed=(i % 6 == 5)) for i in range(ctx.n(30, 1000))]
    cases += [tagrep.gen_gap_case(rng, total=ctx.n(180, 400)) for _ in range(ctx.n(3, 40))]   # reports after long gaps
    cases += [tagrep.gen_lock_case(rng) for _ in range(ctx.n(3, 60))]
    results: dict[int, dict] = {}

    def traced(c):
        k = id(c)
        if k not in results:
            try:
                results[k] = with_timeout(60, lambda: tagrep.run_case(c, record=True))
            except ImplTimeout:
                results[k] = {"lines": ["collect\t0\t0"], "answers": ["TIMEOUT: engine run exceeded 60 s"], "obs": [],
                              "fields": [], "tick_times": [], "start": 0.0, "raised": [], "skew": 0.0, "classes": {},
                              "mut": [], "system": []}
        return results[k]

    def interesting(c, o):
        kinds = {f[3] if f[0] == "sat" else f[0] for f in (ln.split("\t") for ln in traced(c)["lines"])}
        return bool(kinds & {"sim", "simoff", "simfail"}) or any("Block:" in ln for ln in c["pcode"].split("\n"))

    ctx.correspond("engine-trace", "Tags", cases, lambda c: traced(c)["lines"], lambda c: traced(c)["answers"],
                   nontrivial=interesting, impl_timeout=60)
    for c in cases:
        r = traced(c)
        for ln in r["lines"]:
            ctx.count("trace:" + ln.split("\t")[0])
        ctx.count("runs:malformed" if c.get("malformed") else "runs:wellformed")
        ctx.count("runs:with-user-commands" if any(s.get("user") for s in c["sched"]) else "runs:plain")
        ctx.count("reports", len(r["obs"]))
        ctx.count("reports:snapshot", sum(1 for o in r["obs"] if o["kind"] == "snap"))
        count_gaps(ctx, c)
        for f in oracle(c, r):
            ctx.fail(f)
        ctx.evaluations += 1
    # more oracle-only runs (no recorder)
    more = [tagrep.gen_case(rng, malformed=(i % 6 == 5)) for i in range(ctx.n(60, 3000))]
    # reports after arbitrary numbers of ticks: gaps of 1..300 ticks with changes in the last ticks of the gap,
    # incremental reports and snapshots after the gap
    more += [tagrep.gen_gap_case(rng) for _ in range(ctx.n(30, 700))]
    # very long stretches without a report (quick: 1500-3000 ticks, thorough: 600-8000; the engine is ticked
    # directly on the virtual clock): tags that change for the first time in the last ticks of the stretch
    more += [tagrep.gen_long_gap_case(rng, *((1500, 3000) if ctx.tier == "quick" else rng.choice([(600, 1500), (1500, 4000), (4000, 8000)])))
             for _ in range(ctx.n(5, 40))]
    for c in more:
        count_gaps(ctx, c)
    ctx.monitor(more, lambda c: oracle(c, tagrep.run_case(c)), impl_timeout=60, timeout_key="engine-run-timeout")
    ctx.rule = ("tag-ops: operation sequences on the real objects of a stopped engine (22 tags): exhaustive short "
                "sequences + random ones of 8-40 operations (set / simulate / simulate with unit / failing simulate / "
                "stop simulation on 8 tags incl. None-valued and clock tags, Block Time and Scope Time event handlers, "
                "engine ticks with register reads, notify, report, snapshot; 20 % adversarial time arguments). "
                "engine-trace: grammar-generated methods (blocks, watches, alarms, macros, waits, marks, commands, "
                "Simulate / Simulate off incl. failing ones, output commands OutA/OutB on a write register with a safe "
                "value, timed Pause / Hold, 1 in 6 malformed) x 40-tick schedules with register plans, user commands (Pause/Unpause/Hold/Unhold/Stop/Start/Restart) and reports after 1-5 ticks "
                "(12 % snapshots); plus long-gap runs: 400 ticks of an active run cut into gaps of 1-300 ticks, register "
                "changes / user commands / the end of a Wait placed in the last 3 ticks of each gap, every gap closed by "
                "an incremental report or (30 %) a snapshot; and very-long-gap runs (quick 5 runs with a stretch of 1500-3000 "
                "ticks, thorough 60 runs with 600-8000) in which registers and run state stay constant until the last 3 "
                "ticks of the stretch (register change, Pause/Hold, end of a Wait -> Mark); non-trivial = a simulation or a block occurs. "
                f"{n_corpus} corpus cases run first.")
    ctx.exhaustive = False
    ctx.assumptions = ["reports are taken between engine ticks (collect_tag_updates is not interleaved with a tick)",
                       "DerivedTag is not part of the model or of the harness UOD",
                       "values are compared with Python == (as the code does)"]
    return ctx.finish(search=search)


def search(ctx: Check) -> None:
    from harness import tagrep
    rng = ctx.rng
    pool = corpus_cases() + [tagrep.gen_long_gap_case(rng) for _ in range(ctx.n(6, 30))] + \
        [tagrep.gen_gap_case(rng) for _ in range(ctx.n(40, 300))] + \
        [tagrep.gen_case(rng, malformed=(i % 5 == 4)) for i in range(ctx.n(150, 1500))]
    for k in range(0, len(pool), 25):
        ctx.monitor(pool[k:k + 25], lambda c: oracle(c, tagrep.run_case(c)), impl_timeout=60,
                    timeout_key="engine-run-timeout")
        if ctx.failures:
            return


def replay(obj) -> int:
    quiet_logging()
    from harness import tagrep
    c = obj.get("case", {})
    if isinstance(c, dict) and "pcode" in c:
        r = tagrep.run_case(c)
        print(c["pcode"])
        for ob in r["obs"]:
            print(f"report after tick {ob['tick']} ({ob['kind']}):",
                  sorted((n, v) for n, v, _, _ in ob["entries"] if n not in ("Clock", "Process Time", "Run Time")))
        fs = oracle(c, r)
        for f in fs:
            print("oracle:", f.key, "-", f.detail)
        return 1 if fs else 0
    if isinstance(c, list):  # a unit-operation case
        lines, answers = tagrep.run_unit_ops(c)
        for ln, a in zip(lines, answers):
            print(ln.replace("\t", " ")[:160], "->", a[:300])
        return 0
    print(obj)
    return 0
