"""C28 A run survives engine reconnects and aggregator restarts.

Proof half: OPM.Properties.C28 — over all histories of {register, disconnect, graceful aggregator restart, crash of
the aggregator process, RunStarted, RunStopped, TagsUpdated}: the run associated with the engine (in memory, or in its RecentEngines row) is
invariant under everything that does not end it; re-registration resumes it; the first tags message after a
reconnect — and every later one that passes the persistence threshold — is recorded on a PlotLogs row of that run id
and nothing is ever recorded elsewhere; the run has no RecentRuns row before its stop and exactly one ever after.
With crashes (`C28_full`) this holds of the code that writes the RecentEngines row with the run messages
(fixes/C28-persist-active-run.diff) and is refuted (`C28_counterexample`) for the code that writes it on disconnect and
shutdown only; without crashes (`C28_partial`) it holds of both.  Which code it is, is measured by a probe.

Tie half: correspondence of the model with the real `AggregatorMessageHandlers` / `FromEngine` /
`Aggregator.shutdown` / repositories on an in-memory SQLite database that survives the restarts: all histories up
to a length bound over the six event kinds, engine-protocol histories with reconnects at every point, and random
malformed ones; after every event the engine data (registered, run id, last persisted time, tag time) and the rows
of RecentEngines / PlotLogs / PlotLogEntryValues / RecentRuns are compared.
"""
from __future__ import annotations

import itertools
import json
from typing import Any

from vp.core import Check, Failure, load_corpus

META = dict(
    level_text="Lean 4 theorems by induction over all histories of registration, disconnect, graceful aggregator "
               "restart, crash of the aggregator process, RunStarted, RunStopped and TagsUpdated messages (tag messages "
               "with any log interval and any lagging/leading System State): the run id associated with the engine is "
               "invariant until the run is stopped and is resumed by re-registration; tag data of the run after a "
               "reconnect is recorded on a plot log of that run id and on no other; the run gets its RecentRuns row "
               "exactly at its stop and never a second one. Model tied to the real handlers/repositories by "
               "differential execution over exhaustive short and generated long histories on in-memory SQLite.",
    level_note="The model is one engine's view (messages of a second engine are interleaved by the harness and must be "
               "no-ops); restart = Aggregator.shutdown() then a new Aggregator on the same database, crash = a new "
               "Aggregator on the same database without shutdown; registration = RegisterEngineMsg + UodInfoMsg (one "
               "reading, log interval 0/2/5); a tags message carries one value of the reading and optionally the System "
               "State tag. SQLAlchemy/SQLite are modelled as "
               "row lists (validated differentially). Trusted: Lean kernel, the harness.",
    technique="Lean 4 proof (invariants + induction over operation lists) + differential correspondence",
)
MODULE = "OPM.Properties.C28"
REQUIRED = ["OPM.C28.run_id_survives", "OPM.C28.same_run_whenever_registered", "OPM.C28.reregistration_resumes_run",
            "OPM.C28.first_tags_after_reconnect_recorded", "OPM.C28.tags_recorded_in_run_plot_log",
            "OPM.C28.value_rows_only_for_current_run", "OPM.C28.plot_log_rows_are_stable",
            "OPM.C28.run_stored_exactly_once", "OPM.C28.C28_full_holds", "OPM.C28.C28_counterexample",
            "OPM.C28.C28_partial"]
CONNECTIVITY = ("register", "disconnect", "restart", "crash")


# ------------------------------------------------------------------------------------------------
# histories

def exhaustive(alphabet: list[list], n: int, prefix: list[list]) -> list[list[list]]:
    out = []
    for tup in itertools.product(alphabet, repeat=n):
        ops = [list(o) for o in prefix]
        for i, o in enumerate(tup):
            ops.append(["tags", o[1], len(prefix) + i + 1, o[2] if len(o) > 2 else None] if o[0] == "tags" else list(o))
        out.append(ops)
    return out


def engine_history(rng, n_runs: int) -> tuple[list[list], dict]:
    """What a real engine produces: runs r1, r2, … each `start r, tags…, stop r`, with tags outside runs carrying no
    run id, tick times strictly increasing; the connection drops / the aggregator restarts at random points, the
    engine re-registers and re-sends what was refused while it was away.  Tag messages may carry the System State
    tag; the state the aggregator gets to see lags or leads the run messages: still Stopped (0) for the first
    messages of a run (RunStartedMsg overtakes the tag update with Running), Running (1) / Paused (2) in the middle,
    Stopped again for the last messages before the (buffered) RunStoppedMsg, and now and then any state anywhere.
    Returns (ops, info for the oracle)."""
    ops: list[list] = [["register"]]
    registered = True
    t = 0
    backlog: list[list] = []

    def send(op):
        nonlocal registered
        if rng.random() < 0.2:               # the other engine does something in between
            ops.append(rng.choice([["o-register"], ["o-start", 7], ["o-tags", 7, t], ["o-stop", 7], ["o-disconnect"],
                                   ["o-tags", None, t]]))
        if registered:
            ops.append(op)
        else:
            if rng.random() < 0.3:
                ops.append(op)        # sent into the void: refused by validate_msg, kept by the engine
            backlog.append(op)

    def maybe_break(p: float = 0.22):
        nonlocal registered
        x = rng.random()
        if x < p:
            kind = rng.choice(["disconnect", "restart", "crash", "disconnect+restart", "restart+restart",
                               "disconnect+crash", "crash+restart"])
            for k in kind.split("+"):
                ops.append([k])
            registered = False
        if not registered and rng.random() < 0.6:
            ops.append(["register"])
            registered = True
            for op in backlog:
                ops.append(op)
            backlog.clear()
            if rng.random() < 0.25:
                ops.append(["register"])      # a second RegisterEngineMsg while registered

    def state(expected: int):
        x = rng.random()
        if x < 0.25:
            return None                       # the state tag did not change: not in this message
        if x < 0.9:
            return expected
        return rng.choice([0, 1, 2])

    for r in range(1, n_runs + 1):
        for _ in range(rng.randrange(0, 3)):
            t += rng.randrange(1, 4)
            send(["tags", None, t, state(0)])
            maybe_break()
        send(["start", r])
        maybe_break(0.35)                     # the window right after RunStartedMsg
        n = rng.randrange(1, 6)
        lag = rng.randrange(0, 2)             # messages of the run that still report Stopped
        lead = rng.randrange(0, 2)            # messages at the end that already report Stopped
        for i in range(n):
            t += rng.randrange(1, 4)
            expected = 0 if (i < lag or i >= n - lead) else rng.choice([1, 1, 1, 2])
            send(["tags", r, t, state(expected)])
            maybe_break(0.35 if (i < lag or i >= n - lead) else 0.22)
            if rng.random() < 0.08:
                send(["start", r])           # RunStartedMsg delivered twice
        send(["stop", r])
        maybe_break()
    if not registered:
        ops.append(["register"])
        ops.extend(backlog)
    return ops, {"protocol": True}


def random_history(rng) -> list[list]:
    ops = []
    for _ in range(rng.randrange(4, 16)):
        k = rng.choice(["register", "disconnect", "restart", "crash", "start", "stop", "tags", "tags", "other"])
        if k == "other":
            ops.append(rng.choice([["o-register"], ["o-start", rng.choice([1, 7])], ["o-tags", 7, rng.randrange(0, 12)],
                                   ["o-stop", 7], ["o-disconnect"]]))
        elif k in ("start", "stop"):
            ops.append([k, rng.choice([1, 1, 2, 3])])
        elif k == "tags":
            ops.append(["tags", rng.choice([1, 1, 2, None]), rng.randrange(0, 12), rng.choice([None, None, 0, 1, 2])])
        else:
            ops.append([k])
    return ops


# ------------------------------------------------------------------------------------------------
# property oracle over what the implementation did (engine data + database rows), independent of the model

def oracle(case: dict, trace: list[tuple[list, str, dict]]) -> list[Failure]:
    """trace = [(op, reply, facts after op)].  Demands only what C28 says:
      (1) a registration / disconnect / restart / tags message never changes the run id of the engine data, and a
          registration after an absence resumes the run the engine was in when it was last registered;
      (2) a value row appears only through a tags message and hangs on a plot log of the run the engine was in;
          with strictly increasing tick times (protocol histories) every accepted tags message of the current run
          is recorded;
      (3) an accepted stop of a run that has no RecentRuns row yet leaves exactly one; in protocol histories the row
          count of every finished run stays one and that of an unfinished run zero."""
    fails: list[Failure] = []
    rid = lambda k: None if k is None else f"run-{k}"  # noqa: E731
    prev = {"registered": False, "run": None, "values": [], "logs": [], "recent": []}
    last_run = None          # run of the engine data at the last moment it was registered
    delivered_run = None     # protocol histories: run per accepted start/stop
    finished: list[str] = []
    interval = case.get("interval", 0)
    last_row_t = None        # tick time of the last row recorded since the engine data / the run data was created
    gone_by = None           # the operation that took the engine data away last
    for (op, reply, f) in trace:
        kind = op[0]
        if kind.startswith("o-"):            # the other engine: must not touch anything of ours
            for k in ("registered", "run", "values", "logs", "recent", "row"):
                if k in prev and f[k] != prev[k]:
                    fails.append(Failure("message-of-another-engine-changed-this-engine", case,
                                         f"{op}: {k} {prev[k]} -> {f[k]}"))
            # …and the other engine must not take over a run of ours (its own runs are called orun-*)
            if f.get("other_run") is not None and not str(f["other_run"]).startswith("orun-"):
                fails.append(Failure("run-adopted-by-another-engine", case,
                                     f"{op}: the other engine is now in run {f['other_run']}, a run of this engine"))
            prev = f
            continue
        # (1) continuity
        if kind in CONNECTIVITY or kind == "tags":
            if prev["registered"] and f["registered"] and f["run"] != prev["run"]:
                fails.append(Failure("run-id-changed-without-run-message", case,
                                     f"{op}: run {prev['run']} -> {f['run']} while registered"))
            if prev["registered"] and not f["registered"]:
                gone_by = kind
            if not prev["registered"] and f["registered"] and f["run"] != last_run:
                fails.append(Failure("run-not-resumed-after-aggregator-crash" if gone_by == "crash"
                                     else "run-not-resumed-after-reconnect", case,
                                     f"{op}: engine was in run {last_run} when last registered, re-registered with "
                                     f"run {f['run']}"))
        # (2) value rows
        new_rows = f["values"][len(prev["values"]):]
        if f["values"][:len(prev["values"])] != prev["values"]:
            fails.append(Failure("value-rows-rewritten", case, f"{op}: earlier PlotLogEntryValues rows changed"))
        if new_rows:
            if kind != "tags" or len(new_rows) > 1:
                fails.append(Failure("value-row-without-tags-message", case, f"{op}: rows {new_rows}"))
            else:
                (pl, tick, val) = new_rows[0]
                owner = f["logs"][pl] if pl < len(f["logs"]) else None
                if owner != prev["run"] or prev["run"] is None:
                    fails.append(Failure("tag-row-in-plot-log-of-another-run", case,
                                         f"{op}: row on plot log of {owner} while the engine was in run {prev['run']}"))
        if not prev["registered"] and f["registered"]:
            last_row_t = None                # fresh engine data: nothing persisted yet
        if kind == "start" and reply == "ok" and f["run"] != prev["run"]:
            last_row_t = None                # fresh run data
        if new_rows:
            last_row_t = new_rows[-1][1]
        # protocol histories (increasing tick times): the first accepted tags message of the run after a
        # (re-)registration, and every one more than the engine's log interval after the last recorded row, is recorded
        if case.get("protocol") and kind == "tags" and reply == "ok" and op[1] is not None and not new_rows \
                and (last_row_t is None or op[2] > last_row_t + interval):
            fails.append(Failure("tag-data-after-reconnect-not-recorded", case,
                                 f"{op}: accepted tags message of run {rid(op[1])} left no PlotLogEntryValues row "
                                 f"(last recorded row at {last_row_t}, log interval {interval})"))
        if f["logs"][:len(prev["logs"])] != prev["logs"]:
            fails.append(Failure("plot-log-rows-rewritten", case, f"{op}: PlotLogs rows changed"))
        # (3) stored once
        if kind == "stop" and reply == "ok" and prev["registered"] and prev["run"] is not None \
                and prev["run"] not in prev["recent"]:
            if f["recent"].count(prev["run"]) != 1:
                fails.append(Failure("run-not-stored-once-at-stop", case,
                                     f"{op}: RecentRuns has {f['recent'].count(prev['run'])} rows for {prev['run']}"))
        if case.get("protocol"):
            if kind == "start" and reply == "ok":
                delivered_run = rid(op[1])
            if kind == "stop" and reply == "ok":
                if delivered_run is not None:
                    finished.append(delivered_run)
                delivered_run = None
            if f["registered"] and f["run"] != delivered_run:
                fails.append(Failure("run-id-not-continued", case,
                                     f"{op}: engine data in run {f['run']}, the engine is in run {delivered_run}"))
            for r in finished:
                if f["recent"].count(r) != 1:
                    fails.append(Failure("finished-run-not-stored-exactly-once", case,
                                         f"{op}: RecentRuns has {f['recent'].count(r)} rows for finished run {r}"))
            if delivered_run is not None and delivered_run in f["recent"]:
                fails.append(Failure("run-stored-before-it-stopped", case, f"{op}: {delivered_run} already in RecentRuns"))
        if f["registered"]:
            last_run = f["run"]
        prev = f
    return fails


# ------------------------------------------------------------------------------------------------

def run(ctx: Check) -> int:
    from harness.reconnect import ReconnHarness, op_line, probe_guarded, probe_persist
    ctx.prove(MODULE, REQUIRED)
    plot_g, recent_g = probe_guarded()
    persist = probe_persist()
    ctx.extra["code_variant"] = {"create_plot_log_skips_existing_run": plot_g,
                                 "store_recent_run_skips_existing_run": recent_g,
                                 "recent_engine_row_written_with_run_messages": persist}
    rng = ctx.rng

    six = [["register"], ["disconnect"], ["restart"], ["crash"], ["start", 1], ["stop", 1], ["tags", 1]]
    # tags that also report System State: Stopped (quick and thorough), Running (thorough)
    eight = six + ([["tags", 1, 0], ["tags", 1, 1]] if ctx.tier == "thorough" else [["tags", 1, 0]])
    nine = [["register"], ["disconnect"], ["restart"], ["crash"], ["start", 1], ["start", 2], ["stop", 1], ["stop", 2],
            ["tags", 1], ["tags", None, 0]]
    cases: list[dict] = [c for c in load_corpus("C28") if "ops" in c]
    n_corpus = len(cases)
    cases += [{"ops": ops} for ops in exhaustive(six, ctx.n(3, 4), [["register"]])]
    cases += [{"ops": ops} for ops in exhaustive(eight, ctx.n(3, 4), [["register"], ["start", 1]])]   # inside a run
    cases += [{"ops": ops} for ops in exhaustive(six, ctx.n(2, 3), [])]             # histories that start unregistered
    cases += [{"ops": ops} for ops in exhaustive(nine, ctx.n(2, 3), [["register"], ["start", 1]])]
    # the engine starts the next run without a stop of the current one (the current one is stored, the next becomes
    # active), then the aggregator restarts or dies
    supersede = [["start", 2], ["crash"], ["restart"], ["register"], ["tags", 2]]
    cases += [{"ops": ops} for ops in exhaustive(supersede, ctx.n(3, 4), [["register"], ["start", 1]])]
    # a second engine whose id matches ours as a LIKE / case-insensitive pattern registers and disconnects during our run
    rivals = [["register"], ["crash"], ["o-register"], ["o-disconnect"]] + ([["stop", 1]] if ctx.tier == "thorough" else [])
    for nm in ((3, 4, 5, 1, 2) if ctx.tier == "thorough" else (3, 5)):
        cases += [{"ops": ops, "name": nm, "interval": 0, "epoch": 0}
                  for ops in exhaustive(rivals, ctx.n(4, 5) if nm == 3 else ctx.n(3, 4), [["register"], ["start", 1]])]
    if ctx.tier == "thorough":                          # the run starts while the engine still reports Stopped
        cases += [{"ops": ops} for ops in exhaustive(eight, 3, [["register"], ["tags", None, 0], ["start", 1]])]
    n_exh = len(cases) - n_corpus
    for _ in range(ctx.n(120, 4000)):
        ops, info = engine_history(rng, rng.randrange(1, 4))
        cases.append({"ops": ops, **info})
    for _ in range(ctx.n(60, 2500)):
        cases.append({"ops": random_history(rng)})
    # the engine's name (engine id), its log interval and its clock vary from case to case
    for k, c in enumerate(cases):
        if "name" not in c:
            c["name"] = k % 6
            c["interval"] = [0, 0, 2, 5][(k // 3) % 4] if (c.get("protocol") or k % 2) else 0
            c["epoch"] = 1_700_000_000 if k % 5 == 0 else 0
    ctx.extra["histories"] = {"corpus": n_corpus, "exhaustive": n_exh,
                              "engine_protocol_with_reconnects": sum(1 for c in cases if c.get("protocol")),
                              "random_malformed": ctx.n(60, 2500)}
    ctx.rule = ("histories over {register(+uod info), disconnect, graceful restart, crash, start r, stop r, tags(run|none, t, "
                "optional System State Stopped/Running/Paused)}: all histories of length 3/4 after a registration (7 "
                "events), of length 3/4 after `register, start 1` (8/9 events: tags without state, reporting Stopped, "
                "thorough also reporting Running), all of length 2/3 from the empty aggregator, all of length 2/3 over two run ids "
                "after `register, start 1`; engine-protocol histories where the reported System State lags (still "
                "Stopped after RunStarted) or leads (Stopped before RunStopped) the run messages; engine-protocol histories "
                "(1-3 runs, increasing tick times, refused messages re-sent after re-registration, duplicate "
                "RunStarted) with disconnect / restart / both at every point; random histories with stale ids, "
                "decreasing times, messages to an unregistered engine. Engine name (6 pairs of ids of the observed and a second "
                "engine, among them pairs that match each other as LIKE / case-insensitive patterns), log interval "
                "(0/2/5), clock epoch and interleaved messages of the second engine vary over the cases; all histories of "
                "length 3-4 (thorough 4-5) over {register, crash, other engine registers, other engine disconnects} (thorough also stop) during a run. Non-trivial = the engine is registered again "
                "after a disconnect or restart that happened during a run.")

    h = ReconnHarness()
    traces: dict[int, list] = {}

    def impl(c):
        h.wipe()
        h.configure(c.get("name", 0), c.get("interval", 0), c.get("epoch", 0))
        out = ["cfg"]
        tr = []
        for op in c["ops"]:
            rep = h.apply(op)
            f = h.facts()
            out.append(f"{rep} {h.canonical(f)}")
            tr.append((op, rep, f))
        traces[id(c)] = tr
        return out

    def lines(c, mutant=False):
        ls = [f"cfg\t{int(plot_g)}\t{int(recent_g)}\t{int(persist)}\t{c.get('interval', 0)}"]
        for op in c["ops"]:
            ls.append("restartm" if mutant and op[0] == "restart" else op_line(op))
        return ls

    def resumed(c, out):
        # a run was active when the engine went away, and the engine registered again
        in_run_gone = False
        for ln in out[1:]:
            if " reg=0 " in ln and " row=" in ln and " row=- " not in ln and " row=none " not in ln:
                in_run_gone = True
            if in_run_gone and " reg=1 " in ln:
                return True
        return False

    impl_out, model_out = ctx.correspond("reconnect-histories", "Reconnect", cases, lines, impl, nontrivial=resumed)
    if model_out:
        ctx.selftest("reconnect-histories", "Reconnect", cases, lambda c: lines(c, mutant=True), model_out)
    for c, out in zip(cases, impl_out):
        ctx.count("resumed-run" if resumed(c, out) else "no-resume")
        ctx.count(f"interval={c.get('interval', 0)}")
        ctx.count(f"engine-name={c.get('name', 0)}")
        for op in c["ops"]:
            ctx.count("op=" + op[0])
        ctx.count("len=" + ("<=5" if len(c["ops"]) <= 5 else "6-12" if len(c["ops"]) <= 12 else ">12"))
        if any(ln.startswith("notreg") for ln in out):
            ctx.count("has-refused-message")

    for c in cases:
        for f in oracle(c, traces.get(id(c), []))[:1]:
            ctx.fail(f)
    ctx.exhaustive = True
    ctx.assumptions = ["restart = Aggregator.shutdown() then a new process; crash = a new process without shutdown; both on "
                       "the same database",
                       "one observed engine, a second engine (with an adversarially similar id) as noise; registration is the accepted path "
                       "and is followed by the engine's UodInfoMsg (log interval 0, 2 or 5)",
                       "database writes succeed (in-memory SQLite); SQLAlchemy is modelled as row lists",
                       "exhaustive up to the stated lengths; longer histories are sampled"]
    return ctx.finish()


def replay(obj) -> int:
    from harness.reconnect import ReconnHarness
    case = obj.get("case", obj)
    h = ReconnHarness()
    h.configure(case.get("name", 0), case.get("interval", 0), case.get("epoch", 0))
    tr = []
    for op in case["ops"]:
        rep = h.apply(op)
        f = h.facts()
        print(f"{op!s:28} {rep} {h.canonical(f)}")
        tr.append((op, rep, f))
    fs = oracle(case, tr)
    for f in fs:
        print("ORACLE:", f.key, "-", f.detail)
    print(json.dumps({"violates": bool(fs)}))
    return 1 if fs else 0
