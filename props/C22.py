"""C22 Command argument patterns accept exactly their documented language.

Proof half: OPM.Properties.C22 — the acceptors that mirror `re.search` on the patterns built by RegexNumber /
RegexNumberOptional / RegexCategorical accept exactly the documented languages (for ALL unit / option lists and ALL
argument strings), deliver the documented parts, never accept an empty categorical value, and the introspection
functions return exactly the lists the pattern was built from.
Tie half: (1) the builders' pattern text, character for character; (2) `RegexNamedArgumentParser.parse` (= re.search)
vs the acceptors on strings generated from the documented language, near-misses and exhaustive small token scopes;
(3) get_named_groups / get_units / get_exclusive_options / get_additive_options vs the model on the real patterns;
(4) the character classes (`\\s`, `[0-9]`, re.escape's specials) over all code points below U+3100.

The model follows the REPAIRED code (fixes/C22-categorical-language-and-introspection.diff).  On a tree without the
repair this check reports a VIOLATION (categorical pattern accepts "", "AB", "+A", "A++B"; introspection splits on an
escaped '|' and mis-reads RegexNumberOptional) — that is intended.
"""
from __future__ import annotations

import itertools
import re

from vp.core import Check, Failure, enc, encb

META = dict(
    level_text="Lean 4 theorems over all unit/option lists and all argument strings: the numeric acceptor (a hand model "
               "of re.search on the RegexNumber pattern that follows CPython's backtracking order) accepts s iff "
               "s = ws* number ws* unit ws* with number a decimal number (sign unless non-negative, integer when "
               "restricted) and unit one of the declared units (no unit when none are declared), and returns such a "
               "number/unit pair, unique when no unit starts with a digit, '.', or white space or ends with white space; "
               "the categorical acceptor accepts s iff s = (one exclusive option | additive options joined by single "
               "'+') followed by white space only, never the empty value; get_units / get_exclusive_options / "
               "get_additive_options applied to a built pattern return the lists it was built from (any characters, "
               "including regex metacharacters). The EMITTED regular expressions are covered too: the abstract syntax of the "
               "three pattern shapes has a declarative language semantics in Lean, and regex_number_language / "
               "regex_categorical_language prove that this language is the documented one (= what the acceptors accept) "
               "for all lists, flags and strings; on every run the pattern text each builder call returns is parsed with "
               "CPython's own regex parser and decided structurally equal (driver op ast*) to that abstract syntax for "
               "the units / options / flags read off the pattern. Model tied to regex.py / uod.py by differential "
               "execution.",
    level_note="Trusted: Lean kernel, harness, CPython `re` (modelled for these pattern shapes only; validated "
               "differentially incl. captured groups). 'Optionally followed by a unit' is read as the code and its "
               "tests define it: a pattern built WITH units requires one of them, a pattern built without units "
               "accepts none. Leading/trailing white space is tolerated by the numeric pattern, trailing white space "
               "by the categorical one. Introspection theorems assume non-empty units/options and state the list in "
               "pattern order; the oracle compares introspected and emitted lists with the declared ones as multisets "
               "(the property does not pin an order). The regex parser of CPython (re._parser) is trusted to show the "
               "pattern as `re` compiles it; that `re` matches according to the language of that syntax tree is the "
               "differential part. The model is of the repaired code (fix commit 9ee22bc6).",
    technique="Lean 4 proof (soundness/completeness of a priority-ordered backtracking acceptor w.r.t. a declarative "
              "language; language of the emitted regex AST = documented language; token-level induction for the "
              "introspection scanners) + per-instance structural translation of the emitted pattern (CPython regex "
              "parser -> normalised AST -> decidable equality with the Lean AST; chosen instead of a bounded exhaustive "
              "language comparison) + differential correspondence (captured groups, introspection, pattern text)",
)
MODULE = "OPM.Properties.C22"
REQUIRED = ["OPM.C22.number_accepts_iff_documented", "OPM.C22.number_delivers_documented_parts",
            "OPM.C22.number_reading_unique", "OPM.C22.number_delivered_unchanged",
            "OPM.C22.categorical_accepts_iff_documented", "OPM.C22.categorical_sound",
            "OPM.C22.categorical_delivered_unchanged", "OPM.C22.categorical_never_empty",
            "OPM.C22.categorical_rejects_blank", "OPM.C22.units_introspection", "OPM.C22.exclusive_introspection",
            "OPM.C22.additive_introspection", "OPM.C22.regex_number_language", "OPM.C22.regex_categorical_language",
            "OPM.C22.regex_number_is_acceptor", "OPM.C22.regex_categorical_is_acceptor",
            "OPM.C22.regex_number_optional_is_acceptor", "OPM.C22.dollar_is_end",
            "OPM.C22.published_units_are_pattern_units"]

SANE_UNITS = ["m2", "L/h", "%", "degC", "kg", "s", "min", "h", "mS/cm", "CV", "(L/h)/%", "a|b", "µS", "m.s", "x+y",
              "[u]", "r^2", "$", "a\\b", "{q}", "#", "~", "&", "m*", "u?", "-x", "<number_unit>", "E F", "x)y", ")"]
WEIRD_UNITS = ["5m", ".5x", " m", "m ", "m\n", "", "1", "-", "+", "\\", "a\nb"]
SANE_OPTIONS = ["A", "B", "C", "Open", "Closed", "VA01", "VA02", "VA03", "a|b", "C++", "x+y", "p.q", "E F", "(r)",
                "[s]", "a\\b", "^$", "{1}", "a*", "q?", "#", "~x", "&", "-", "é", "<option>", "(?!)", ")(\\+(",
                "|(", "|", "+", "A+B", "AB", ")", "("]
WEIRD_OPTIONS = ["", " A", "A ", "A\n", "a\nb", " "]


# ----------------------------------------------------------------------------------------------
# wire

def enc_list(xs) -> str:
    if xs is None:
        return "Z"
    if not xs:
        return "N"
    return ";".join(enc(x) for x in xs)


def enc_opt(x) -> str:
    return "~" if x is None else enc(x)


def show_list(fn) -> str:
    try:
        r = fn()
    except ValueError:
        return "err:ValueError"
    except Exception as e:   # anything else is reported as such (the model never answers this)
        return f"err:{type(e).__name__}"
    return "ok\t" + enc_list(list(r))


# ----------------------------------------------------------------------------------------------
# the documented languages, as independent hand recognisers (no regex)

DIGITS = "0123456789"


def is_sane(x: str) -> bool:
    """unit / option for which the documented decomposition is unambiguous"""
    return x != "" and not x[0].isspace() and not x[-1].isspace()


def is_sane_unit(u: str) -> bool:
    return is_sane(u) and u[0] not in DIGITS + "."


def is_decimal(t: str, nn: bool, io: bool) -> bool:
    if t.startswith("-"):
        if nn:
            return False
        t = t[1:]
    if io:
        return t != "" and all(c in DIGITS for c in t)
    if t.count(".") > 1:
        return False
    a, dot, b = t.partition(".")
    if not all(c in DIGITS for c in a + b):
        return False
    if dot == "":
        return a != ""
    return a != "" or b != ""


def doc_number(s: str, units, nn: bool, io: bool):
    """(number, unit|None) when s is in the documented language of a numeric pattern with sane units, else None."""
    t = s.strip()
    i = 1 if t.startswith("-") else 0
    while i < len(t) and t[i] in DIGITS + ".":
        i += 1
    num, rest = t[:i], t[i:].lstrip()
    if not is_decimal(num, nn, io):
        return None
    if not units:
        return (num, None) if rest == "" else None
    return (num, rest) if rest in units else None


def doc_categorical(t: str, ex, ad) -> bool:
    """t is one exclusive option, or additive options joined by single '+' (options may themselves contain '+')."""
    if t in (ex or []):
        return True
    ad = ad or []
    n = len(t)
    ok = [False] * (n + 1)   # ok[i]: t[:i] is a non-empty '+'-joined list of additive options
    for i in range(1, n + 1):
        for a in ad:
            j = i - len(a)
            if j < 0 or t[j:i] != a:
                continue
            if j == 0 or (j >= 2 and t[j - 1] == "+" and ok[j - 1]):
                ok[i] = True
                break
    return ok[n]


# ----------------------------------------------------------------------------------------------
# generators

PREFIX_FAMILIES = [["L", "L/h", "L/h/m2"], ["m", "m2", "min"], ["VA0", "VA01", "VA01+"], ["A", "AB", "ABC"],
                   ["x", "x+", "x+y"], ["kg", "k", "g"], ["a|", "a|b", "a"]]


def pick_list(rng, sane, weird, allow_none=True, weird_p=0.12, maxlen=4):
    k = rng.random()
    if allow_none and k < 0.12:
        return None
    if k < 0.18:
        return []
    if k < 0.30:                      # items that are prefixes of one another, in random order
        fam = list(rng.choice(PREFIX_FAMILIES))
        rng.shuffle(fam)
        return fam[:rng.randrange(2, len(fam) + 1)]
    n = rng.randrange(1, maxlen + 1)
    out = []
    for _ in range(n):
        x = rng.choice(weird) if rng.random() < weird_p else rng.choice(sane)
        if x not in out:
            out.append(x)
    return out


def mutate(rng, s: str, alphabet: str) -> str:
    k = rng.randrange(6)
    if k == 0 and s:
        i = rng.randrange(len(s))
        return s[:i] + s[i + 1:]
    if k == 1:
        i = rng.randrange(len(s) + 1)
        return s[:i] + rng.choice(alphabet) + s[i:]
    if k == 2 and s:
        i = rng.randrange(len(s))
        return s[:i] + rng.choice(alphabet) + s[i + 1:]
    if k == 3:
        return s + s
    if k == 4:
        return s.swapcase()
    return rng.choice(alphabet) + s


WS = [" ", "  ", "\t", "\n", " ", " ", "\x1f", "\r\n"]


def cat_strings(rng, ex, ad, n):
    ex, ad = ex or [], ad or []
    out = ["", " ", "+", "++", "\n"]
    out += ex
    for a in ad:
        out += [a, a + "+", "+" + a, a + "++" + a, a + a, a + " ", " " + a, a + "\n", a + "+" + a]
    for e in ex[:3]:
        for a in ad[:3]:
            out += [e + "+" + a, a + "+" + e, e + a]
    for e in ex[:2]:
        out += [e + "+" + e, e + e, e + " ", e + "\n", e + "+"]
    alphabet = "".join(ex + ad) + "+ |\\"
    while len(out) < n:
        k = rng.random()
        if ad and k < 0.45:
            s = "+".join(rng.choice(ad) for _ in range(rng.randrange(1, 5)))
        elif ex and k < 0.6:
            s = rng.choice(ex)
        else:
            toks = ex + ad + ["+", "+", " ", "x"]
            s = "".join(rng.choice(toks) for _ in range(rng.randrange(0, 5)))
        if rng.random() < 0.45:
            s = mutate(rng, s, alphabet)
        if rng.random() < 0.15:
            s += rng.choice(WS)
        out.append(s)
    return out


def rand_number(rng, nn, io):
    sign = "-" if rng.random() < 0.3 else ""
    a = "".join(rng.choice(DIGITS) for _ in range(rng.randrange(0, 4)))
    b = "".join(rng.choice(DIGITS) for _ in range(rng.randrange(0, 4)))
    form = rng.randrange(4)
    body = a if form == 0 else a + "." + b if form == 1 else "." + b if form == 2 else (a or "0")
    return sign + body


def num_strings(rng, units, nn, io, n):
    units = units or []
    out = ["", " ", "-", ".", "-.", "5", "5.", ".5", "-5", "-.5", "5.5", "5..5", "5.5.5", "--5", "+5", "5 5", "1e5",
           "٥", "５", "5\n", " 5 ", "- 5", "05", "5-"]
    for u in units[:4]:
        out += ["5" + u, "5 " + u, "5  " + u, "5\t" + u, "5 " + u + " ", "5." + u, ".5" + u, "-5 " + u, u, u + "5",
                "5 " + u + u, "5 " + u + "\n", "5" + u[:-1], "5 " + u.upper(), "5.5 " + u, "5" + u + "x", " 5 " + u]
    alphabet = DIGITS + "-. " + "".join(units) + "x"
    while len(out) < n:
        s = rng.choice(["", " ", "  "]) * (rng.random() < 0.2) + rand_number(rng, nn, io)
        s += rng.choice(["", "", " ", "  ", "\t", " "])
        if units and rng.random() < 0.8:
            s += rng.choice(units)
        if rng.random() < 0.2:
            s += rng.choice(WS)
        if rng.random() < 0.45:
            s = mutate(rng, s, alphabet)
        out.append(s)
    return out


def token_strings(tokens, maxlen):
    out = []
    for k in range(0, maxlen + 1):
        out += ["".join(t) for t in itertools.product(tokens, repeat=k)]
    return sorted(set(out))


def gen_cases(ctx: Check):
    rng = ctx.rng
    cases = []
    # exhaustive small scopes over tokens
    for ex, ad in [(["X"], ["A", "B"]), (None, ["A", "B"]), (["A", "B"], None), (["A+B", "a|b"], ["A", "+"]),
                   ([], []), (["X", "X "], ["A", "A+A"])]:
        toks = sorted(set((ex or []) + (ad or []) + ["+", " "]))
        cases.append({"kind": "cat", "ex": ex, "ad": ad, "strings": token_strings(toks, ctx.n(3, 5)), "scope": "exh"})
    for nn in (False, True):
        for io in (False, True):
            for units in (None, ["m2", "L/h"], ["5m", "m"]):
                toks = ["-", ".", "5", "12", " ", "x", "\n"] + (units or [])
                for opt in (False, True):
                    if opt and (io or units == ["5m", "m"]):
                        continue
                    cases.append({"kind": "num", "units": units, "nn": nn, "io": io, "optional": opt,
                                  "strings": token_strings(toks, ctx.n(3, 4)), "scope": "exh"})
    # random configurations
    for _ in range(ctx.n(90, 2500)):
        ex = pick_list(rng, SANE_OPTIONS, WEIRD_OPTIONS)
        ad = pick_list(rng, SANE_OPTIONS, WEIRD_OPTIONS)
        cases.append({"kind": "cat", "ex": ex, "ad": ad, "strings": cat_strings(rng, ex, ad, ctx.n(50, 80))})
    for _ in range(ctx.n(90, 2500)):
        units = pick_list(rng, SANE_UNITS, WEIRD_UNITS, maxlen=5)
        nn, io = rng.random() < 0.4, rng.random() < 0.3
        cases.append({"kind": "num", "units": units, "nn": nn, "io": io, "optional": rng.random() < 0.25,
                      "strings": num_strings(rng, units, nn, io, ctx.n(50, 80))})
    return cases


# ----------------------------------------------------------------------------------------------
# implementation side

def build(case) -> str:
    from openpectus.lang.exec import regex as R
    if case["kind"] == "cat":
        return R.RegexCategorical(exclusive_options=case["ex"], additive_options=case["ad"])
    fn = R.RegexNumberOptional if case["optional"] else R.RegexNumber
    return fn(units=case["units"], non_negative=case["nn"], int_only=case["io"])


def safe_build(case):
    try:
        return build(case)
    except TypeError:
        return None


def parser_for(pattern: str):
    from openpectus.lang.exec.uod import RegexNamedArgumentParser
    return RegexNamedArgumentParser(pattern)


# ----------------------------------------------------------------------------------------------
# translator: emitted pattern text --(CPython's regex parser)--> normalised AST (wire format of Model/ArgRegexAst.lean)
# + the parameters (units / options / flags) read off the pattern.  Normalisation: see the header of that Lean file.

class Untranslatable(Exception):
    pass


def _sre():
    from re import _parser as P, _constants as K    # CPython >= 3.11
    return P, K


def expand_literals(seq):
    """The finite list of literal strings a (sub)pattern stands for, in pattern order, or None.
    Undoes the common-prefix / character-set factoring CPython's parser applies to `U1|U2|…`."""
    P, K = _sre()
    outs = [""]
    items = list(seq)
    for i, (op, av) in enumerate(items):
        if op is K.LITERAL:
            outs = [o + chr(av) for o in outs]
        elif op is K.IN and all(o2 is K.LITERAL for o2, _ in av):
            outs = [o + chr(c) for o in outs for _, c in av]
        elif op is K.BRANCH:
            alts = []
            for item in av[1]:
                sub = expand_literals(item)
                if sub is None:
                    return None
                alts += sub
            outs = [o + a for o in outs for a in alts]
        elif op is K.ASSERT_NOT and av[0] == 1 and len(av[1]) == 0 and len(items) == 1:
            return []          # `(?!)`: no alternative at all
        else:
            return None
    return outs


def lit_node(x: str):
    return mkseq([("C", ord(c)) for c in x])


def mkseq(nodes):
    return nodes[0] if len(nodes) == 1 else ("q", nodes)


def mkalt(nodes):
    return nodes[0] if len(nodes) == 1 else ("a", nodes)


def tr_seq(seq, names):
    lits = expand_literals(seq)
    if lits is not None:
        return mkalt([lit_node(x) for x in lits])
    return mkseq([tr_item(op, av, names) for op, av in seq])


def tr_item(op, av, names):
    P, K = _sre()
    if op is K.LITERAL:
        return ("C", av)
    if op is K.IN:
        if len(av) == 1 and av[0][0] is K.CATEGORY and av[0][1] is K.CATEGORY_SPACE:
            return ("S",)
        if len(av) == 1 and av[0][0] is K.RANGE and av[0][1] == (48, 57):
            return ("D",)
        if all(o is K.LITERAL for o, _ in av):
            return mkalt([("C", c) for _, c in av])
        raise Untranslatable(f"character set {av!r}")
    if op in (K.MAX_REPEAT, K.MIN_REPEAT):        # lazy = greedy for the language
        lo, hi, sub = av
        body = tr_seq(sub, names)
        if (lo, hi) == (0, K.MAXREPEAT):
            return ("*", body)
        if (lo, hi) == (1, K.MAXREPEAT):
            return ("p", body)
        if (lo, hi) == (0, 1):
            return ("o", body)
        raise Untranslatable(f"repeat {lo},{hi}")
    if op is K.SUBPATTERN:
        gid, add, dele, sub = av
        if add or dele:
            raise Untranslatable("inline flags")
        body = tr_seq(sub, names)
        return ("g", names[gid], body) if gid in names else body     # unnamed groups are transparent
    if op is K.BRANCH:
        return mkalt([tr_seq(item, names) for item in av[1]])
    if op is K.ASSERT_NOT and av[0] == 1 and len(av[1]) == 0:
        return ("N",)
    raise Untranslatable(f"operator {op}")


def strip_anchors(seq):
    P, K = _sre()
    items = list(seq)
    if len(items) < 2 or items[0] != (K.AT, K.AT_BEGINNING) or items[-1] != (K.AT, K.AT_END):
        raise Untranslatable("pattern is not anchored ^…$")
    return items[1:-1]


def wire(node) -> str:
    k = node[0]
    if k in ("S", "D", "N"):
        return k
    if k == "C":
        return f"C{node[1]}"
    if k in ("*", "p", "o"):
        return f"{k} {wire(node[1])}"
    if k == "g":
        return "g" + "_".join(str(ord(c)) for c in node[1]) + " " + wire(node[2])
    return f"{k}{len(node[1])}" + "".join(" " + wire(n) for n in node[1])    # q / a  (q0 = ε, a0 = never)


def find_group(node, name):
    if node[0] == "g":
        return node if node[1] == name else find_group(node[2], name)
    if node[0] in ("*", "p", "o"):
        return find_group(node[1], name)
    if node[0] in ("q", "a"):
        for n in node[1]:
            r = find_group(n, name)
            if r is not None:
                return r
    return None


def translate(pattern: str, kind: str, optional: bool = False):
    """-> dict(ast=<wire text>, and for kind 'num': units, nn, io; for 'cat': ex, ad) — read off the pattern alone."""
    P, K = _sre()
    tree = P.parse(pattern)
    names = {gid: name for name, gid in tree.state.groupdict.items()}
    top = list(tree)
    if kind == "num" and optional:
        if len(top) != 1 or top[0][0] is not K.BRANCH or len(top[0][1][1]) != 2:
            raise Untranslatable("optional pattern is not `(…)|^\\s*$`")
        first, second = top[0][1][1]
        if len(first) != 1 or first[0][0] is not K.SUBPATTERN or first[0][1][0] in names:
            raise Untranslatable("optional pattern: first alternative is not a plain group")
        body_items = strip_anchors(first[0][1][3])
        node = mkalt([mkseq([tr_item(o, a, names) for o, a in body_items]),
                      mkseq([tr_item(o, a, names) for o, a in strip_anchors(second)])])
    else:
        body_items = strip_anchors(top)
        node = mkseq([tr_item(o, a, names) for o, a in body_items])
    out = {"ast": wire(node)}
    # parameters, from the parse tree of the pattern
    groups = {}

    def walk(seq):
        for op, av in seq:
            if op is K.SUBPATTERN:
                if av[0] in names:
                    groups[names[av[0]]] = av[3]
                walk(av[3])
            elif op in (K.MAX_REPEAT, K.MIN_REPEAT):
                walk(av[2])
            elif op is K.BRANCH:
                for item in av[1]:
                    walk(item)
    walk(tree)
    if kind == "num":
        num = groups.get("number")
        if num is None:
            raise Untranslatable("no group `number`")
        alts = num[0][1][1] if len(num) == 1 and num[0][0] is K.BRANCH else [num]
        sign = (K.MAX_REPEAT, (0, 1, None))
        out["nn"] = not any(op is K.MAX_REPEAT and av[0] == 0 and av[1] == 1 and list(av[2]) == [(K.LITERAL, 45)]
                            for item in alts for op, av in item)
        out["io"] = len(alts) == 2
        u = groups.get("number_unit")
        out["units"] = [] if u is None else expand_literals(u)
        if out["units"] is None:
            raise Untranslatable("group `number_unit` is not a list of literal alternatives")
    else:
        opt = groups.get("option")
        if opt is None or len(opt) != 1 or opt[0][0] is not K.SUBPATTERN:
            raise Untranslatable("no group `option` around one group")
        inner = opt[0][1][3]
        if len(inner) != 1 or inner[0][0] is not K.BRANCH:
            raise Untranslatable("`option` is not an alternation")
        items = inner[0][1][1]
        ex = []
        for item in items[:-1]:
            e = expand_literals(item)
            if e is None:
                raise Untranslatable("exclusive alternative is not a literal")
            ex += e
        last = items[-1]
        if not last or last[0][0] is not K.SUBPATTERN:
            raise Untranslatable("last alternative does not start with the additive group")
        ad = expand_literals(last[0][1][3])
        if ad is None:
            raise Untranslatable("additive group is not a list of literal alternatives")
        out["ex"], out["ad"] = ex, ad
    return out


def read_off(case, pat):
    """Parameters and AST of the emitted pattern; falls back to the declared parameters (and an AST that cannot be
    equal) when the pattern does not have the documented shape."""
    try:
        return translate(pat, case["kind"], case.get("optional", False))
    except Exception as e:
        t = {"ast": "E", "error": f"{type(e).__name__}: {e}"}
        if case["kind"] == "num":
            t.update(units=case["units"] or [], nn=case["nn"], io=case["io"])
        else:
            t.update(ex=case["ex"] or [], ad=case["ad"] or [])
        return t


def impl_case(case) -> list[str]:
    pat = safe_build(case)
    if pat is None:
        return ["err:TypeError"]
    p = parser_for(pat)
    out = [enc(pat), "same"]
    for s in case["strings"]:
        g = p.parse(s)
        if (g is not None) != p.validate(s):
            out.append("parse-and-validate-disagree")
        elif g is None:
            out.append("none")
        elif case["kind"] == "cat":
            out.append("m\t" + enc(g["option"]))
        elif case["optional"]:
            out.append("m\t" + enc_opt(g["number"]) + "\t" + enc_opt(g.get("number_unit")))
        else:
            out.append("m\t" + enc(g["number"]) + "\t" + enc_opt(g.get("number_unit")))
    out.append(enc_list(p.get_named_groups()))
    out += [show_list(p.get_units), show_list(p.get_exclusive_options), show_list(p.get_additive_options)]
    return out


def case_lines(case) -> list[str]:
    """The model is instantiated with what the EMITTED pattern says (units / options in pattern order, flags):
    line 1 ties the pattern text to the model's builder text, line 2 decides that the parsed pattern is the model's
    regex AST, the following lines tie re.search on the pattern to the acceptor for the same parameters.  That the
    emitted parameters are the DECLARED ones is the oracle's business (as sets)."""
    pat = safe_build(case)
    if pat is None:
        return [f"bc\t{enc_list(case['ex'])}\t{enc_list(case['ad'])}"]
    t = read_off(case, pat)
    if case["kind"] == "cat":
        ex, ad = enc_list(t["ex"]), enc_list(t["ad"])
        out = [f"bc\t{ex}\t{ad}", f"astc\t{ex}\t{ad}\t{t['ast']}"]
        out += [f"ac\t{ex}\t{ad}\t{enc(s)}" for s in case["strings"]]
    else:
        a = f"{encb(t['nn'])}\t{encb(t['io'])}\t{enc_list(t['units'])}"
        o = "o" if case["optional"] else ""
        out = [f"bn{o}\t{a}", f"astn{o}\t{a}\t{t['ast']}"]
        out += [f"an{o}\t{a}\t{enc(s)}" for s in case["strings"]]
    e = enc(pat)
    return out + [f"ng\t{e}", f"gu\t{e}", f"ge\t{e}", f"ga\t{e}"]


def mutant_lines(case) -> list[str]:
    """Self-test: the unrepaired builder / unit introspection in place of the repaired ones."""
    ls = case_lines(case)
    return [("bcold" + ln[2:]) if ln.startswith("bc\t") else ("guold" + ln[2:]) if ln.startswith("gu\t") else ln
            for ln in ls]


# the pattern the builder produced before the repair (kept here to tie the `…Old` model used by the regression
# witnesses of Properties/C22.lean to CPython's `re`)
def old_categorical_pattern(ex, ad) -> str:
    e = "|".join(re.escape(o) for o in ex) if ex else ""
    a = "|".join(re.escape(o) for o in ad) if ad else ""
    return rf"^(?P<option>({e}|({a}|\+)+)(?<!\+))\s*$"


# ----------------------------------------------------------------------------------------------
# property oracle over the implementation (independent of the model)

def oracle(case) -> list[Failure]:
    fails: list[Failure] = []
    pat = safe_build(case)
    if pat is None:
        return fails
    p = parser_for(pat)

    def add(key, s, detail):
        if not any(f.key == key for f in fails):
            c = dict(case)
            c["strings"] = [s] if s is not None else []
            fails.append(Failure(key, c, detail))

    oracle_emitted(case, pat, add)
    if case["kind"] == "cat":
        ex, ad = case["ex"] or [], case["ad"] or []
        sane = all(is_sane(o) for o in ex + ad)
        for s in case["strings"]:
            g = p.parse(s)
            if g is not None and g["option"] == "" and "" not in ex + ad:
                add("categorical-accepts-empty-value", s, f"{pat!r} accepts {s!r} with an empty option")
            if not sane:
                continue
            if doc_categorical(s, ex, ad):
                if g is None:
                    add("categorical-rejects-documented", s, f"{pat!r} rejects {s!r}")
                elif g["option"] != s:
                    add("categorical-option-changed", s, f"{s!r} delivered as {g['option']!r}")
            elif g is not None:
                o = g["option"]
                if doc_categorical(o, ex, ad) and s.startswith(o) and s[len(o):].strip() == "":
                    continue   # documented value followed by white space
                plus_free = not any("+" in x for x in ex + ad)
                key = ("categorical-accepts-leading-plus" if o.startswith("+") and plus_free else
                       "categorical-accepts-empty-item" if "++" in o and plus_free else
                       "categorical-accepts-concatenation-without-plus" if plus_free and "+" not in o else
                       "categorical-accepts-undocumented")
                add(key, s, f"{pat!r} accepts {s!r} (option={o!r}); exclusive={ex!r} additive={ad!r}")
        if all(o != "" for o in ex + ad):
            ge, ga = same_items(p.get_exclusive_options, ex), same_items(p.get_additive_options, ad)
            if not ge:
                add("introspection-exclusive-options-differ" + ("-bar" if any("|" in o for o in ex) else ""), None,
                    f"built from exclusive={ex!r}, get_exclusive_options() = {_try(p.get_exclusive_options)}")
            if not ga:
                add("introspection-additive-options-differ" + ("-bar" if any("|" in o for o in ad) else ""), None,
                    f"built from additive={ad!r}, get_additive_options() = {_try(p.get_additive_options)}")
    else:
        units, nn, io, opt = case["units"] or [], case["nn"], case["io"], case["optional"]
        if all(is_sane_unit(u) for u in units):
            for s in case["strings"]:
                g = p.parse(s)
                d = doc_number(s, units, nn, io)
                if opt and d is None and s.strip() == "":
                    if g is None or g["number"] is not None:
                        add("optional-number-rejects-blank", s, f"{pat!r} on {s!r}: {g!r}")
                    continue
                if d is None and g is not None:
                    add("number-accepts-undocumented", s, f"{pat!r} accepts {s!r}: {g!r}")
                elif d is not None and g is None:
                    add("number-rejects-documented", s, f"{pat!r} rejects {s!r}; expected {d!r}")
                elif d is not None and (g["number"], g.get("number_unit")) != d:
                    add("number-parts-changed", s, f"{s!r} delivered as {g!r}, documented parts {d!r}")
        if all(u != "" for u in units):
            if not same_items(p.get_units, units):
                add("introspection-units-differ" + ("-optional-pattern" if opt else "") +
                    ("-bar" if any("|" in u for u in units) else ""), None,
                    f"built from units={units!r}, get_units() = {_try(p.get_units)}")
    return fails


def same_items(fn, declared) -> bool:
    """'exactly those it was built from': the same items, each as often as declared; the property does not pin
    the order in which a pattern lists them."""
    try:
        return sorted(fn()) == sorted(declared)
    except Exception:
        return False


def oracle_emitted(case, pat, add) -> None:
    """The alternatives / flags the emitted pattern contains (read off its parse tree) are the declared ones."""
    try:
        t = translate(pat, case["kind"], case.get("optional", False))
    except Exception:
        return      # not of the documented shape: the correspondence reports that; nothing to judge here
    if case["kind"] == "num":
        if sorted(t["units"]) != sorted(case["units"] or []):
            add("pattern-units-differ-from-declared", None, f"declared {case['units']!r}, pattern {pat!r} lists {t['units']!r}")
        if (t["nn"], t["io"]) != (case["nn"], case["io"]):
            add("pattern-flags-differ-from-declared", None,
                f"declared non_negative={case['nn']} int_only={case['io']}, pattern {pat!r} has {t['nn']}/{t['io']}")
    else:
        if sorted(t["ex"]) != sorted(case["ex"] or []) or sorted(t["ad"]) != sorted(case["ad"] or []):
            add("pattern-options-differ-from-declared", None,
                f"declared exclusive={case['ex']!r} additive={case['ad']!r}, pattern {pat!r} lists {t['ex']!r} / {t['ad']!r}")


def _try(fn):
    try:
        return repr(fn())
    except Exception as e:
        return f"{type(e).__name__}: {e}"


# ----------------------------------------------------------------------------------------------

# ----------------------------------------------------------------------------------------------
# the UI route: UodBuilder -> build_commands -> command descriptions / process-value entries / editor definition

TAG_UNITS = ["L/h", "%", "kg", "L", "degC", "s", None]
UOD_UNITS = ["L/h", "L/min", "%", "CV", "kg", "g", "L", "mL", "degC", "s", "min", "rpm", "Hz", "a|b", "x)y", "m2", "w\\"]


def gen_uods(ctx: Check):
    rng = ctx.rng
    from openpectus.lang.exec.units import get_compatible_unit_names
    uods = []
    for _ in range(ctx.n(60, 1500)):
        cmds = []
        for i in range(rng.randrange(2, 7)):
            name = f"Cmd{i}"
            if rng.random() < 0.25:
                cmds.append({"kind": "cat", "name": name, "ex": pick_list(rng, SANE_OPTIONS, [], weird_p=0),
                             "ad": pick_list(rng, SANE_OPTIONS, [], weird_p=0)})
                if cmds[-1]["ex"] is None and cmds[-1]["ad"] is None:
                    cmds[-1]["ad"] = ["A", "B"]
                continue
            tag_unit = rng.choice(TAG_UNITS)
            paired = rng.random() < 0.7
            k = rng.random()
            compat = get_compatible_unit_names(tag_unit) if tag_unit is not None else []
            if k < 0.12:
                units = None
            elif k < 0.4 and compat:       # (a) the tag's unit and units compatible with it
                units = [tag_unit] + rng.sample(compat, min(len(compat), rng.randrange(0, 3)))
            elif k < 0.75:                 # (b) some units the tag's unit is not compatible with
                units = ([tag_unit] if tag_unit and rng.random() < 0.7 else []) + \
                    rng.sample(UOD_UNITS, rng.randrange(1, 4))
            else:                          # anything
                units = rng.sample(UOD_UNITS, rng.randrange(1, 5))
            if units is not None:
                units = list(dict.fromkeys(units))
                rng.shuffle(units)
            cmds.append({"kind": "num", "name": name, "units": units, "nn": rng.random() < 0.3, "io": False,
                         "optional": rng.random() < 0.15, "tag": paired or rng.random() < 0.5, "tag_unit": tag_unit,
                         "paired": paired})
        uods.append({"kind": "uod", "cmds": cmds})
    return uods


def _exec_number(cmd, number=None, number_unit=None):
    cmd.set_complete()


def _exec_option(cmd, option):
    cmd.set_complete()


def build_uod(case):
    from openpectus.lang.exec.tags import Tag, create_system_tags
    from openpectus.lang.exec.uod import UodBuilder
    b = (UodBuilder().with_instrument("VerifUod").with_author("v", "v@example.org").with_filename(__file__)
         .with_hardware_none().with_location("nowhere"))
    for c in case["cmds"]:
        pat = safe_build(c)
        if c["kind"] == "num":
            if c["tag"]:
                b.with_tag(Tag(c["name"], value=1.0, unit=c["tag_unit"]))
            b.with_command_regex_arguments(c["name"], pat, _exec_number)
            if c["paired"]:
                b.with_process_value_entry(tag_name=c["name"], entry_data_type="float")
        else:
            b.with_command_regex_arguments(c["name"], pat, _exec_option)
    uod = b.build()
    uod.system_tags = create_system_tags()
    uod.validate_configuration()
    uod.build_commands()
    return uod


def uod_view(case):
    """Per command: what the UI and the editor are given (command description, process-value entry as serialised
    in ReadingInfo, editor definition)."""
    from openpectus.lang.exec.uod import RegexNamedArgumentParser
    uod = build_uod(case)
    readings = {r.tag_name: r.as_reading_info() for r in uod.readings}
    defs = {c.name: c for c in uod.create_lsp_definition().commands}
    view = {}
    for c in case["cmds"]:
        d = uod.command_descriptions[c["name"]]
        ed = RegexNamedArgumentParser.deserialize(defs[c["name"]].validator, c["name"])
        view[c["name"]] = dict(desc_units=list(d.argument_valid_units), desc_ex=list(d.argument_exclusive_options),
                               desc_ad=list(d.argument_additive_options),
                               reading_units=(readings[c["name"]].valid_value_units
                                              if c["kind"] == "num" and c["paired"] else "unpaired"),
                               ed_units=_try_list(ed.get_units), ed_ex=_try_list(ed.get_exclusive_options),
                               ed_ad=_try_list(ed.get_additive_options))
    return view


def _try_list(fn):
    try:
        return list(fn())
    except Exception as e:
        return f"{type(e).__name__}"


def _tag_compat(c):
    from openpectus.lang.exec.units import get_compatible_unit_names
    if c["kind"] != "num" or not c["paired"] or c["tag_unit"] is None:
        return None
    return get_compatible_unit_names(c["tag_unit"])


def uod_lines(case) -> list[str]:
    out = []
    for c in case["cmds"]:
        e = enc(safe_build(c))
        compat = _tag_compat(c)
        out.append(f"pu\t{enc_list(compat or [])}\t{e}")
        if c["kind"] == "num" and c["paired"]:
            from openpectus.lang.exec.units import get_compatible_unit_names
            out.append(f"ru\t{enc_list(list(get_compatible_unit_names(c['tag_unit'])))}\t{e}")   # match_with_tags' default
        out += [f"ge\t{e}", f"ga\t{e}", f"gu\t{e}"]
    return out


def uod_impl(case) -> list[str]:
    view = uod_view(case)
    out = []
    for c in case["cmds"]:
        v = view[c["name"]]
        out.append("ok\t" + enc_list(v["desc_units"]))
        if c["kind"] == "num" and c["paired"]:
            out.append("None" if v["reading_units"] is None else "ok\t" + enc_list(v["reading_units"]))
        out += ["ok\t" + enc_list(v["desc_ex"]), "ok\t" + enc_list(v["desc_ad"]),
                ("ok\t" + enc_list(v["ed_units"])) if isinstance(v["ed_units"], list) else "err:" + v["ed_units"]]
    return out


def oracle_uod(case) -> list[Failure]:
    """'The unit and option lists that the UI and editor derive from a pattern are exactly those it was built from',
    on the route the UI takes: build_commands (command description, paired process-value entry) and the editor
    definition.  Judged for patterns that declare units / options (a pattern without units derives nothing)."""
    view = uod_view(case)
    fails: list[Failure] = []

    def add(key, c, detail):
        if not any(f.key == key for f in fails):
            fails.append(Failure(key, {"kind": "uod", "cmds": [c]}, detail))

    def same(got, want):
        return isinstance(got, list) and sorted(got) == sorted(want)
    for c in case["cmds"]:
        v = view[c["name"]]
        where = (f"command {c['name']} paired={c.get('paired')} tag unit={c.get('tag_unit')!r}")
        if c["kind"] == "num":
            units = c["units"] or []
            if not units or any(u == "" for u in units):
                continue
            if not same(v["desc_units"], units):
                add("ui-command-units-differ-from-pattern-units", c,
                    f"{where}: pattern built from {units!r}, command description lists {v['desc_units']!r}")
            if c["paired"] and not same(v["reading_units"], units):
                add("ui-process-value-units-differ-from-pattern-units", c,
                    f"{where}: pattern built from {units!r}, process value entry lists {v['reading_units']!r}")
            if not same(v["ed_units"], units):
                add("editor-units-differ-from-pattern-units", c,
                    f"{where}: pattern built from {units!r}, editor definition gives {v['ed_units']!r}")
        else:
            ex, ad = c["ex"] or [], c["ad"] or []
            if any(o == "" for o in ex + ad):
                continue
            if not same(v["desc_ex"], ex) or not same(v["desc_ad"], ad):
                add("ui-command-options-differ-from-pattern-options", c,
                    f"{where}: built from {ex!r} / {ad!r}, description lists {v['desc_ex']!r} / {v['desc_ad']!r}")
            if not same(v["ed_ex"], ex) or not same(v["ed_ad"], ad):
                add("editor-options-differ-from-pattern-options", c,
                    f"{where}: built from {ex!r} / {ad!r}, editor gives {v['ed_ex']!r} / {v['ed_ad']!r}")
    return fails


def classes_impl() -> list[str]:
    rng_ = range(0x3100)
    sp = [c for c in rng_ if re.match(r"\s", chr(c))]
    esc = [c for c in rng_ if re.escape(chr(c)) != chr(c)]
    dg = [c for c in rng_ if re.match(r"[0-9]", chr(c))]
    wd = [c for c in rng_ if re.match(r"([a-zA-Z0-9]|_)", chr(c))]
    # beyond the driver's range: nothing else is special (checked here against the constants of the model)
    assert [c for c in range(0x3100, 0x110000) if chr(c).isspace() or re.escape(chr(c)) != chr(c)] == []
    return ["\t".join(",".join(map(str, xs)) for xs in (sp, esc, dg, wd))]


def run(ctx: Check) -> int:
    ctx.prove(MODULE, REQUIRED)
    ctx.rule = ("pattern configurations: (a) fixed small configurations with EVERY token string up to length 3 "
                "(thorough 5/4) over {options or units, '+', ' ', '-', '.', digits}; (b) random unit / option lists of "
                "length 0-5 from realistic names and names full of regex metacharacters ('a|b', 'C++', '(L/h)/%', "
                "'(?!)', '|(' …), 12% weird items (empty, leading/trailing white space, leading digit) for model "
                "fidelity, None / [] lists; per configuration 50 (thorough 80) strings: documented-language samples, "
                "near-misses (missing/duplicate/leading/trailing '+', concatenation, mixed exclusive+additive, wrong "
                "case, truncated unit, double sign/dot, unicode digits) and random mutations. Non-trivial = at least "
                "one string accepted and one rejected for the configuration. UI route: 60 (thorough 1500) UODs of 2-6 "
                "commands built with UodBuilder, numeric-pattern commands paired with a process-value entry on a tag "
                "whose unit is one of the pattern's units / incompatible with some of them / None (or unpaired), "
                "categorical commands; compared: command description, serialised process-value entry, editor definition.")
    cases = load_corpus_cases() + gen_cases(ctx)
    out, mout = ctx.correspond("patterns", "ArgRegex", cases, case_lines, impl_case,
                               nontrivial=lambda c, o: any(x == "none" for x in o) and any(x.startswith("m\t") for x in o))
    k = next((i for i, c in enumerate(cases) if not c.get("scope") and i > 10), len(cases)) + 40
    ctx.selftest("patterns", "ArgRegex", cases[:k], mutant_lines, mout[:k])
    ctx.correspond("char-classes", "ArgRegex", [0], lambda c: ["classes"], lambda c: classes_impl())
    # the UI route through build_commands, with paired process-value readings
    uods = load_corpus_uods() + gen_uods(ctx)
    ctx.correspond("uod-build-commands", "ArgRegex", uods, uod_lines, uod_impl,
                   nontrivial=lambda u, o: any(c["kind"] == "num" and c["paired"] and c["units"] for c in u["cmds"]))
    for u in uods:
        for c in u["cmds"]:
            if c["kind"] == "num":
                compat = _tag_compat(c) or []
                kind = ("unpaired" if not c["paired"] else "paired:no-pattern-units" if not c["units"] else
                        "paired:tag-without-unit" if c["tag_unit"] is None else
                        "paired:all-compatible" if all(x in compat for x in c["units"]) else "paired:some-incompatible")
                ctx.count("uod:" + kind)
    ctx.monitor(uods, oracle_uod)
    # malformed stream: introspection of damaged pattern texts (index errors, missing groups, stray parentheses)
    rng = ctx.rng
    damaged = []
    for c in cases[:ctx.n(200, 3000)]:
        pat = safe_build(c)
        if pat is None:
            continue
        for _ in range(2):
            q = pat
            for _ in range(rng.randrange(1, 4)):
                q = mutate(rng, q, "|()\\+<>?P!$ab")
            damaged.append(q)
    damaged += ["", "<option>", "<number_unit>", "(?P<option>(", "(?P<number_unit>", "|(", "<option>|(", "<option>x|()(\\+(",
                "<number_unit>a\\", "<number_unit>a\\)b)c", "<a<option>>|(", "<number_unit><option>|()(\\+("]

    def damaged_impl(q):
        p = parser_for(q)
        return [enc_list(p.get_named_groups()), show_list(p.get_units), show_list(p.get_exclusive_options),
                show_list(p.get_additive_options)]
    ctx.correspond("damaged-patterns", "ArgRegex", damaged,
                   lambda q: [f"ng\t{enc(q)}", f"gu\t{enc(q)}", f"ge\t{enc(q)}", f"ga\t{enc(q)}"], damaged_impl,
                   nontrivial=lambda q, o: any(x.startswith("err") for x in o))
    # the unrepaired pattern shape: ties `acceptCategoricalOld` / `buildCategoricalOld` (regression witnesses) to re
    old_cases = [c for c in cases if c["kind"] == "cat" and not (c["ex"] is None and c["ad"] is None)
                 and all(is_sane(o) for o in (c["ex"] or []) + (c["ad"] or []))][:ctx.n(60, 600)]

    def old_impl(c):
        pat = old_categorical_pattern(c["ex"], c["ad"])
        res = [enc(pat)]
        for s in c["strings"]:
            m = re.search(pat, s)
            res.append("none" if m is None else "m\t" + enc(m.group("option")))
        return res

    def old_lines(c):
        ex, ad = enc_list(c["ex"]), enc_list(c["ad"])
        return [f"bcold\t{ex}\t{ad}"] + [f"acold\t{ex}\t{ad}\t{enc(s)}" for s in c["strings"]]
    ctx.correspond("old-categorical-shape", "ArgRegex", old_cases, old_lines, old_impl)

    for c, o in zip(cases, out):
        ctx.count(c["kind"] + (":exhaustive-scope" if c.get("scope") else ":random"))
        ctx.count(c["kind"] + ":strings", len(c["strings"]))
        ctx.count(c["kind"] + ":accepted", sum(1 for x in o if x.startswith("m\t")))
        items = (c.get("units") or []) if c["kind"] == "num" else (c["ex"] or []) + (c["ad"] or [])
        if any(ch in x for x in items for ch in "|()[]{}?*+^$\\."):
            ctx.count(c["kind"] + ":metachar-config")
    ctx.monitor(cases, oracle)
    ctx.exhaustive = False
    n_exh = {k: sum(1 for c in cases if c.get("scope") and c["kind"] == k) for k in ("cat", "num")}
    ctx.extra["exhaustive_scopes"] = (f"{n_exh['cat']} categorical and {n_exh['num']} numeric fixed configurations x all "
                                      f"token strings up to length {ctx.n(3, 5)} / {ctx.n(3, 4)}")
    ctx.assumptions = [
        "CPython re is modelled for the three pattern shapes only (validated differentially, groups included)",
        "a pattern built with units requires a unit (openpectus/test/lsp/test_argument_specs.py "
        "test_regex_number_w_required_unit); numbers are ASCII decimal, '+' sign is not part of the language",
        "oracle judges only configurations whose units/options are non-empty, without leading/trailing white space "
        "(units: not starting with a digit or '.'), where the documented reading of a string is unique",
    ]
    return ctx.finish(search=lambda c: c.monitor(gen_cases(c), oracle))


def load_corpus_uods():
    from vp.core import load_corpus
    return [c for c in load_corpus("C22") if isinstance(c, dict) and c.get("kind") == "uod"]


def load_corpus_cases():
    from vp.core import load_corpus
    return [c for c in load_corpus("C22") if isinstance(c, dict) and c.get("kind") in ("cat", "num")]


def replay(obj) -> int:
    case = obj.get("case", {})
    if case.get("kind") == "uod":
        print(uod_view(case))
        fails = oracle_uod(case)
        for f in fails:
            print("FAIL", f.key, f.detail)
        return 1 if fails else 0
    if case.get("kind") not in ("cat", "num"):
        print(obj)
        return 0
    pat = safe_build(case)
    print("pattern:", pat)
    if pat is not None:
        p = parser_for(pat)
        for s in case["strings"]:
            print(repr(s), "->", p.parse(s))
        print("get_units:", _try(p.get_units), "get_exclusive_options:", _try(p.get_exclusive_options),
              "get_additive_options:", _try(p.get_additive_options))
    fails = oracle(case)
    for f in fails:
        print("FAIL", f.key, f.detail)
    return 1 if fails else 0
