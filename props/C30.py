"""C30 Each run yields exactly one recent run and one plot log.

Proof half: OPM.Properties.C30 — for every history over {register, disconnect, RunStartedMsg r, RunStoppedMsg r}:
never two PlotLogs rows or two RecentRuns rows for one run id; exactly one plot log from the first handled start on,
exactly one recent run (and plot log) from the end of the run on; the run survives disconnect + re-registration.
The model is the code WITH fixes/C30-one-record-per-run.diff (guarded inserts in create_plot_log / store_recent_run);
the Lean file also carries the unguarded variant and its decided counter-examples.
Tie half: the real aggregator (message handlers, in-memory SQLite) against the model, op by op, on all short
histories and on generated engine-like histories with duplicates, resends, reorderings and disconnects.
"""
from __future__ import annotations

import itertools

from vp.core import Check, Failure, load_corpus

META = dict(
    level_text="Lean 4 theorems over all message histories of one engine (register, disconnect, RunStartedMsg, "
               "RunStoppedMsg with arbitrary run ids, in any order and multiplicity): no run id ever has two PlotLogs rows "
               "or two RecentRuns rows; after the first handled RunStartedMsg a run has exactly one plot log for ever; "
               "after the run ended (RunStoppedMsg or superseded by another start) it has exactly one recent-run record and "
               "one plot log for ever; a disconnect + re-registration gives the run back without new rows. Model tied to "
               "the aggregator's handlers + repositories (in-memory SQLite) by differential execution, exhaustive over all "
               "histories up to length 3/5 over 6 symbols (quick: also all of length 4 that start with register) plus generated histories.",
    level_note="The model follows the code with fixes/C30-one-record-per-run.diff applied (8 added lines: create_plot_log and "
               "store_recent_run look the run id up first). On the unrepaired tree the check reports the defect (second plot "
               "log on a duplicated/resent RunStartedMsg, second recent run when start+stop are resent after the stop). "
               "Trusted: Lean kernel, the harness, SQLite/SQLAlchemy as row lists. One engine id; registration is the accepted "
               "path; DB writes succeed; an aggregator process restart without shutdown() is outside the histories.",
    technique="Lean 4 proof (state invariant by induction over the history) + differential correspondence",
)
MODULE = "OPM.Properties.C30"
REQUIRED = ["OPM.C30.at_most_one", "OPM.C30.started_run_has_exactly_one_plot_log",
            "OPM.C30.stopped_run_has_exactly_one_of_each", "OPM.C30.superseded_run_has_exactly_one_of_each",
            "OPM.C30.records_are_paired", "OPM.C30.run_survives_reconnect", "OPM.C30.unrepaired_counterexample"]


def rid(k: int) -> str:
    return f"run-{k}"


def lines_of(case, prefix: str = "") -> list[str]:
    return [prefix + "\t".join(str(x) for x in op) for op in case["ops"]]


def _ords(ids: list[str]) -> str:
    return "-" if not ids else ",".join(x.split("-")[1] for x in ids)


def execute(case) -> tuple[list[str], list[dict]]:
    """run the history on the real aggregator; returns (canonical answer lines, observations for the oracle)"""
    from harness.agg_common import AggHarness
    import openpectus.protocol.aggregator_messages as AM
    h = AggHarness()
    out, obs = [], []
    for op in case["ops"]:
        before = h.current_run_id()
        was_registered = h.engine_data() is not None
        if op[0] == "register":
            rep = h.register()
            kind = "ok" if rep.success else "refused"
        elif op[0] == "disconnect":
            h.disconnect()
            kind = "ok"
        elif op[0] == "start":
            rep = h.run_started(rid(op[1]))
            kind = "not-registered" if isinstance(rep, AM.ErrorMessage) else "ok"
        elif op[0] == "stop":
            rep = h.run_stopped(rid(op[1]))
            kind = "not-registered" if isinstance(rep, AM.ErrorMessage) else "ok"
        else:
            raise ValueError(op)
        reg = h.engine_data() is not None
        cur = h.current_run_id()
        pls, rrs = h.plot_log_run_ids(), h.recent_run_ids()
        out.append(f"{kind}\treg={'1' if reg else '0'}\trun={'-' if cur is None else cur.split('-')[1]}"
                   f"\tplotlogs={_ords(pls)}\trecentruns={_ords(rrs)}")
        obs.append({"op": op, "handled": kind == "ok" and was_registered, "active_before": before, "plotlogs": pls,
                    "recentruns": rrs})
    return out, obs


def impl(case) -> list[str]:
    return execute(case)[0]


# ------------------------------------------------------------------------------------------------
# property oracle on the implementation's tables (independent of the Lean model)

def oracle(case, obs: list[dict]) -> list[Failure]:
    fails: list[Failure] = []
    seen: set[str] = set()
    prev_pl: list[str] = []
    prev_rr: list[str] = []

    def once(key: str, detail: str):
        if key not in seen:
            seen.add(key)
            fails.append(Failure(key, case, detail))

    for i, o in enumerate(obs):
        op = o["op"]
        site = {"start": "on-run-started", "stop": "on-run-stopped"}.get(op[0], "on-" + op[0])
        for r in set(o["plotlogs"]):
            if o["plotlogs"].count(r) > 1 and prev_pl.count(r) < o["plotlogs"].count(r):
                how = ("duplicate-of-active-run" if o["active_before"] == r else
                       "run-already-stored" if r in prev_rr else "other")
                once(f"second-plot-log:{site}:{how}",
                     f"op #{i} {op}: run {r} now has {o['plotlogs'].count(r)} PlotLogs rows")
        for r in set(o["recentruns"]):
            if o["recentruns"].count(r) > 1 and prev_rr.count(r) < o["recentruns"].count(r):
                once(f"second-recent-run:{site}", f"op #{i} {op}: run {r} now has {o['recentruns'].count(r)} RecentRuns rows")
        if op[0] == "start" and o["handled"] and rid(op[1]) not in o["plotlogs"]:
            once("no-plot-log-for-started-run", f"op #{i} {op}: handled, but run {rid(op[1])} has no PlotLogs row")
        if op[0] == "stop" and o["handled"] and o["active_before"] is not None and o["active_before"] not in o["recentruns"]:
            once("no-recent-run-for-ended-run", f"op #{i} {op}: run {o['active_before']} ended without a RecentRuns row")
        if op[0] == "start" and o["handled"] and o["active_before"] not in (None, rid(op[1])) \
                and o["active_before"] not in o["recentruns"]:
            once("no-recent-run-for-superseded-run", f"op #{i} {op}: run {o['active_before']} was replaced without a RecentRuns row")
        prev_pl, prev_rr = o["plotlogs"], o["recentruns"]
    return fails


# ------------------------------------------------------------------------------------------------
# generators

def gen_exhaustive(ctx: Check) -> list[dict]:
    syms = [["register"], ["disconnect"], ["start", 0], ["start", 1], ["stop", 0], ["stop", 1]]
    maxlen = ctx.n(3, 5)
    cases = []
    for k in range(0, maxlen + 1):
        for seq in itertools.product(syms, repeat=k):
            cases.append({"ops": [list(s) for s in seq]})
    if ctx.tier == "quick":      # one step further for the histories that start with the registration
        for seq in itertools.product(syms, repeat=maxlen):
            cases.append({"ops": [["register"]] + [list(s) for s in seq]})
    for _ in range(ctx.n(200, 3000)):           # longer ones, sampled
        cases.append({"ops": [["register"]] + [list(ctx.rng.choice(syms)) for _ in range(ctx.rng.randrange(maxlen + 1, maxlen + 5))]})
    return cases


def gen_history(ctx: Check) -> dict:
    """what an engine does (register, runs one after the other with fresh ids), then perturbed the way the transport
    can: messages delivered twice, resent later, swapped with a neighbour, dropped; connection lost and re-established"""
    rng = ctx.rng
    ops: list[list] = [["register"]]
    k = rng.randrange(0, 3)
    for _ in range(rng.randrange(1, 5)):
        ops.append(["start", k])
        if rng.random() < 0.35:
            ops += [["disconnect"], ["register"]]
            ctx.count("disconnect-during-run")
        if rng.random() < 0.85:
            ops.append(["stop", k])
        else:
            ctx.count("stop-never-sent")
        k += 1
    for _ in range(rng.randrange(0, 5)):
        if not ops:
            break
        r = rng.random()
        i = rng.randrange(0, len(ops))
        if r < 0.35:
            ops.insert(i, list(ops[i]))
            ctx.count("perturb:duplicate")
        elif r < 0.65:
            j = rng.randrange(i, len(ops) + 1)
            ops.insert(j, list(ops[i]))
            ctx.count("perturb:resent-later")
        elif r < 0.80 and i + 1 < len(ops):
            ops[i], ops[i + 1] = ops[i + 1], ops[i]
            ctx.count("perturb:swap")
        elif r < 0.90:
            ops.insert(i, ["disconnect"])
            ctx.count("perturb:stray-disconnect")
        else:
            del ops[i]
            ctx.count("perturb:dropped")
    ctx.count("history:engine-like")
    return {"ops": ops}


def gen_malformed(ctx: Check) -> dict:
    rng = ctx.rng
    syms = [["register"], ["disconnect"]] + [["start", i] for i in range(4)] + [["stop", i] for i in range(4)]
    ctx.count("history:uniform-random")
    return {"ops": [list(rng.choice(syms)) for _ in range(rng.randrange(1, ctx.n(14, 30)))]}


def nontrivial(case, out) -> bool:
    """some run got a plot log and some message was a duplicate / resend of an earlier one or a disconnect happened"""
    ops = [tuple(o) for o in case["ops"]]
    return any("plotlogs=-" not in ln for ln in out) and (len(set(ops)) < len(ops) or ("disconnect",) in ops)


def check_cases(ctx: Check, stream: str, cases: list[dict], selftest: bool) -> None:
    observations: dict[int, list[dict]] = {}

    def impl_rec(case):
        out, obs = execute(case)
        observations[id(case)] = obs
        return out

    _, mout = ctx.correspond(stream, "RunRecords", cases, lines_of, impl_rec, nontrivial=nontrivial)
    if selftest and mout:
        ctx.selftest(stream, "RunRecords", cases, lambda c: lines_of(c, "asis\t"), mout)
    for c in cases:
        for f in oracle(c, observations[id(c)]):
            ctx.fail(f)


def run(ctx: Check) -> int:
    ctx.prove(MODULE, REQUIRED)
    ctx.rule = ("cases = message histories of one engine against a fresh database. Exhaustive: every history up to length "
                "3 (quick; plus all of length 4 starting with register) / 5 (thorough) over {register, disconnect, start r, "
                "stop r | r in 0..1}, longer ones sampled. Generated: an engine's "
                "message sequence (register; runs with fresh ids; disconnect+register inside 35 % of runs; 15 % of stops "
                "never sent) perturbed by duplicates, later resends, swaps, stray disconnects, drops; plus 15 % uniformly "
                "random op sequences over 4 run ids (malformed: messages before registration, stops of unknown runs, ...). "
                "Non-trivial = a plot log exists and the history contains a repeated message or a disconnect.")
    corpus = load_corpus(ctx.id)
    ex = gen_exhaustive(ctx)
    gen = []
    for _ in range(ctx.n(350, 8000)):
        gen.append(gen_malformed(ctx) if ctx.rng.random() < 0.15 else gen_history(ctx))
    check_cases(ctx, "histories-exhaustive", corpus + ex, selftest=True)
    check_cases(ctx, "histories-generated", gen, selftest=False)
    if ctx.diffs:   # diagnosis only: does the tree behave like the code before the repair?
        from vp.core import drive
        dcases = [d.case for d in ctx.diffs[:400]]
        asis = drive("RunRecords", [lines_of(c, "asis\t") for c in dcases])
        same = sum(1 for c, m in zip(dcases, asis) if impl(c) == m)
        ctx.notes.append(f"{same} of {len(dcases)} disagreeing histories match the model of the code WITHOUT "
                         f"fixes/C30-one-record-per-run.diff (the repair is not applied to this tree)" if same else
                         "the disagreeing histories match neither the repaired nor the unrepaired model")
    ctx.exhaustive = True
    ctx.extra["exhaustive_scope"] = f"all histories of length <= {ctx.n(3, 5)} over 6 symbols; longer ones are sampled"
    ctx.assumptions = ["one engine id; run ids are opaque strings (model: naturals)",
                       "registration takes the accepted path (secret ok, no websocket connected under the id, same version)",
                       "database writes succeed (the except-branches around store_recent_run are not exercised)",
                       "SQLite/SQLAlchemy behave as append-only row lists for the queries used"]

    def search(c: Check) -> None:
        extra = [gen_history(c) for _ in range(c.n(300, 3000))]
        for case in extra:
            for f in oracle(case, execute(case)[1]):
                c.fail(f)
            c.evaluations += 1

    return ctx.finish(search=search)


def replay(obj) -> int:
    from vp.core import drive
    case = obj.get("case", obj)
    if not isinstance(case, dict) or "ops" not in case:
        print(obj)
        return 0
    out, obs = execute(case)
    model = drive("RunRecords", [lines_of(case)])[0]
    for op, a, b in zip(case["ops"], out, model):
        print(f"{op}\n   impl : {a}\n   model: {b}")
    fails = oracle(case, obs)
    for f in fails:
        print(f"ORACLE: {f.key}: {f.detail}")
    return 1 if fails or out != model else 0
