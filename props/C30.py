"""C30 Each run yields exactly one recent run and one plot log.

Proof half: OPM.Properties.C30 — for every history over {register e, disconnect e, RunStartedMsg e r, RunStoppedMsg e r}
(any number of engines e, any run ids r): never two PlotLogs rows or two RecentRuns rows for one run id; exactly one
plot log from the first handled start on, exactly one recent run (and plot log) from the end of the run on; a run that
is open across a disconnect (whatever arrives meanwhile) is given back by the re-registration and recorded at its end.
The model is the code WITH fixes/C30-one-record-per-run.diff (guarded inserts in create_plot_log / store_recent_run;
committed in /repo); the Lean file also carries the unguarded variant and its decided counter-examples.
Tie half: the real aggregator (message handlers, in-memory SQLite) against the model, op by op, on all short
histories (one and two engines) and on generated engine-like histories with duplicates, resends, reorderings,
disconnects and a second engine.
"""
from __future__ import annotations

import itertools

from vp.core import Check, Failure, load_corpus

META = dict(
    level_text="Lean 4 theorems over all message histories (register, disconnect, RunStartedMsg, RunStoppedMsg of any number "
               "of engines with arbitrary run ids, graceful restarts and crashes of the aggregator process, in any order and "
               "multiplicity): no run id ever has two PlotLogs rows "
               "or two RecentRuns rows; after the first handled RunStartedMsg a run has exactly one plot log for ever; "
               "after the run ended (RunStoppedMsg or superseded by another start) it has exactly one recent-run record and "
               "one plot log for ever; a run open at a disconnect is restored by the re-registration whatever arrives in "
               "between (the engine's own messages are dropped, other engines go on, the aggregator restarts or crashes) and is "
               "recorded at its end; the same after an aggregator restart / crash during the run. Model tied to "
               "the aggregator's handlers + repositories (in-memory SQLite) by differential execution, exhaustive over all "
               "one-engine histories up to length 3/5 over 6 symbols (quick: also length 4 after register) and all two-engine "
               "histories up to length 2/3 over 12 symbols and all continuations up to length 3/4 of a started run over {register, "
               "disconnect, start, stop, restart, crash, command of user 0 / user 1}, plus generated histories (0, 1, 2+ "
               "contributing users per run via FromFrontend.add_contributor).",
    level_note="The model follows the code with fixes/C30-one-record-per-run.diff applied (8 added lines: create_plot_log and "
               "store_recent_run look the run id up first). Trusted: Lean kernel, the harness, SQLite/SQLAlchemy as row lists. "
               "Registration is the accepted path; DB writes succeed; an aggregator process restart without shutdown() is "
               "outside the histories. Recorded, not claimed (decided examples at the end of Properties/C30.lean): (1) a "
               "RunStoppedMsg that arrives only while the engine is unregistered is dropped (error reply); the run stays open "
               "and is recorded at the next handled stop / superseding start after re-registration — if none ever arrives it has "
               "no recent-run record; (2) the tables and the guards are keyed by run id only: a run id used by two engines "
               "(engine run ids are uuid4) is merged into the first rows — one row per run id holds, a row of its own for the "
               "second engine's run does not. The oracle keeps its own ledger of open runs (from the messages and the replies "
               "only) and counts rows per run id.",
    technique="Lean 4 proof (state invariant by induction over the history) + differential correspondence",
)
MODULE = "OPM.Properties.C30"
REQUIRED = ["OPM.C30.run_survives_aggregator_restart", "OPM.C30.at_most_one", "OPM.C30.started_run_has_exactly_one_plot_log",
            "OPM.C30.stopped_run_has_exactly_one_of_each", "OPM.C30.superseded_run_has_exactly_one_of_each",
            "OPM.C30.records_are_paired", "OPM.C30.run_survives_reconnect", "OPM.C30.unrepaired_counterexample",
            "OPM.C30.unregistered_messages_are_dropped", "OPM.C30.other_engines_untouched",
            "OPM.C30.run_restored_after_disconnect", "OPM.C30.run_open_across_disconnect_is_recorded"]
ENGINES = 2     # the driver prints the engines 0 and 1


def rid(k: int) -> str:
    return f"run-{k}"


def norm(op) -> list:
    """op = [kind, engine, (run)]; the older one-engine form [kind, (run)] means engine 0"""
    if op[0] in ("restart", "crash"):
        return [op[0]]
    if op[0] in ("register", "disconnect"):
        return [op[0], op[1] if len(op) > 1 else 0]
    return [op[0], 0, op[1]] if len(op) == 2 else [op[0], op[1], op[2]]


def lines_of(case, prefix: str = "") -> list[str]:
    return [prefix + "\t".join(str(x) for x in norm(op)) for op in case["ops"]]


def execute(case) -> tuple[list[str], list[dict]]:
    """run the history on the real aggregator; returns (canonical answer lines, observations for the oracle)"""
    from harness.agg_common import AggHarness
    import openpectus.protocol.aggregator_messages as AM
    h = AggHarness()
    out, obs = [], []

    def rows(rs) -> str:
        return "-" if not rs else ",".join(f"{h.engine_index(e)}:{r.split('-')[1]}" for (e, r) in rs)

    for raw in case["ops"]:
        op = norm(raw)
        e = op[1] if len(op) > 1 else None
        try:
            if op[0] in ("restart", "crash"):
                h.restart(graceful=op[0] == "restart")
                kind = "ok"
            elif op[0] == "contribute":
                h.contribute(op[2], engine=e)
                kind = "ok"
            elif op[0] == "register":
                rep = h.register(e)
                kind = "ok" if rep.success else "refused"
            elif op[0] == "disconnect":
                h.disconnect(e)
                kind = "ok"
            elif op[0] in ("start", "stop"):
                rep = (h.run_started if op[0] == "start" else h.run_stopped)(rid(op[2]), engine=e)
                kind = "not-registered" if isinstance(rep, AM.ErrorMessage) else "ok"
            else:
                raise ValueError(op)
        except ValueError:
            raise
        except Exception as ex:          # the handler itself raised: that is the reply the engine gets
            kind = f"raised:{type(ex).__name__}"
        pls, rrs = h.plot_log_rows(), h.recent_run_rows()
        engines = []
        for i in range(ENGINES):
            cur = h.current_run_id(i)
            engines.append(f"reg{i}={'1' if h.engine_data(i) is not None else '0'}\trun{i}={'-' if cur is None else cur.split('-')[1]}")
        out.append(f"{kind}\t" + "\t".join(engines) + f"\tplotlogs={rows(pls)}\trecentruns={rows(rrs)}")
        # for the oracle: the message, the reply it got, the run_id columns of the two tables
        obs.append({"op": op, "reply_ok": kind == "ok", "reply": kind, "plotlogs": [r for (_, r) in pls], "recentruns": [r for (_, r) in rrs]})
    return out, obs


def impl(case) -> list[str]:
    return execute(case)[0]


# ------------------------------------------------------------------------------------------------
# property oracle on the implementation's tables.  Independent of the Lean model AND of the implementation's own
# bookkeeping: which run is open at an engine is the oracle's own ledger, kept from the messages and their replies:
#   a RunStartedMsg r answered with success opens r (and ends the run that was open before, if it is another one);
#   a RunStoppedMsg answered with success ends the open run; disconnect / register do not touch the open run;
#   an engine is registered from a successful RegisterEngineMsg until its disconnect: in that time every
#   RunStartedMsg / RunStoppedMsg has to be answered with success (handler raising or error reply = failing input).

def oracle(case, obs: list[dict]) -> list[Failure]:
    fails: list[Failure] = []
    seen: set[str] = set()
    prev_pl: list[str] = []
    prev_rr: list[str] = []
    open_run: dict[int, str | None] = {}
    away: dict[int, str | bool] = {}    # what took the engine's connection away since the open run was started
    registered: dict[int, bool] = {}    # ledger: the engine's last RegisterEngineMsg succeeded and no disconnect followed

    def once(key: str, detail: str):
        if key not in seen:
            seen.add(key)
            fails.append(Failure(key, case, detail))

    for i, o in enumerate(obs):
        op = o["op"]
        e = op[1] if len(op) > 1 else None
        site = {"start": "on-run-started", "stop": "on-run-stopped"}.get(op[0], "on-" + op[0])
        if op[0] in ("restart", "crash"):       # the aggregator process is replaced: every engine has to register again
            for x in list(registered):
                registered[x] = False
            for x, r in open_run.items():
                if r is not None:
                    away[x] = op[0]
        for r in set(o["plotlogs"]):
            if o["plotlogs"].count(r) > 1 and prev_pl.count(r) < o["plotlogs"].count(r):
                how = ("duplicate-of-active-run" if open_run.get(e) == r else
                       "run-already-stored" if r in prev_rr else
                       "run-open-at-other-engine" if r in open_run.values() else "other")
                once(f"second-plot-log:{site}:{how}",
                     f"op #{i} {op}: run {r} now has {o['plotlogs'].count(r)} PlotLogs rows")
        for r in set(o["recentruns"]):
            if o["recentruns"].count(r) > 1 and prev_rr.count(r) < o["recentruns"].count(r):
                once(f"second-recent-run:{site}", f"op #{i} {op}: run {r} now has {o['recentruns'].count(r)} RecentRuns rows")
        if op[0] == "register" and o["reply_ok"]:
            registered[e] = True
        if op[0] == "disconnect":
            registered[e] = False
            if open_run.get(e) is not None and not away.get(e):
                away[e] = "disconnect"
        if op[0] in ("start", "stop") and registered.get(e) and not o["reply_ok"]:
            # a well-formed run message of a registered engine must be handled; the only legitimate refusal is the
            # error reply to an engine that is not registered (a stop without run data is answered with success)
            handler = "handle_RunStartedMsg" if op[0] == "start" else "handle_RunStoppedMsg"
            what = o.get("reply", "")
            what = what[7:] if what.startswith("raised:") else "ErrorMessage"
            once(f"run-message-not-handled:{handler}:{what}",
                 f"op #{i} {op}: engine {e} is registered, but {handler} " +
                 (f"raised {what}" if what != "ErrorMessage" else "answered with an error") +
                 f": the {'start' if op[0] == 'start' else 'end'} of a run is lost to the run's records")
        if op[0] == "start" and o["reply_ok"]:
            r = rid(op[2])
            if r not in o["plotlogs"]:
                once("no-plot-log-for-started-run", f"op #{i} {op}: handled, but run {r} has no PlotLogs row")
            ended = open_run.get(e)
            if ended is not None and ended != r and ended not in o["recentruns"]:
                once(f"no-recent-run-for-run-open-across-{away[e]}" if away.get(e) else "no-recent-run-for-superseded-run",
                     f"op #{i} {op}: run {ended} (opened by a handled RunStartedMsg of engine {e}) was replaced without "
                     f"a RecentRuns row")
            if ended != r:
                away[e] = False
            open_run[e] = r
        if op[0] == "stop" and o["reply_ok"]:
            ended = open_run.get(e)
            if ended is not None and ended not in o["recentruns"]:
                once(f"no-recent-run-for-run-open-across-{away[e]}" if away.get(e) else "no-recent-run-for-ended-run",
                     f"op #{i} {op}: run {ended} (opened by a handled RunStartedMsg of engine {e}) ended without a "
                     f"RecentRuns row")
            open_run[e] = None
            away[e] = False
        prev_pl, prev_rr = o["plotlogs"], o["recentruns"]
    return fails


# ------------------------------------------------------------------------------------------------
# generators

def _syms(engines: int, runs: int, process: bool = False) -> list[list]:
    out = [["restart"], ["crash"]] if process else []
    for e in range(engines):
        out += [["register", e], ["disconnect", e]] + [["start", e, r] for r in range(runs)] + [["stop", e, r] for r in range(runs)]
    return out


def gen_exhaustive(ctx: Check) -> list[dict]:
    syms = _syms(1, 2)
    maxlen = ctx.n(3, 5)
    cases = []
    for k in range(0, maxlen + 1):
        for seq in itertools.product(syms, repeat=k):
            cases.append({"ops": [list(s) for s in seq]})
    if ctx.tier == "quick":      # one step further for the histories that start with the registration
        for seq in itertools.product(syms, repeat=maxlen):
            cases.append({"ops": [["register", 0]] + [list(s) for s in seq]})
    for _ in range(ctx.n(200, 3000)):           # longer ones, sampled
        cases.append({"ops": [["register", 0]] + [list(ctx.rng.choice(syms)) for _ in range(ctx.rng.randrange(maxlen + 1, maxlen + 5))]})
    # one run, everything that can happen to it: the aggregator process restarts / crashes, users contribute
    syms3 = [["register", 0], ["disconnect", 0], ["start", 0, 0], ["stop", 0, 0], ["restart"], ["crash"],
             ["contribute", 0, 0], ["contribute", 0, 1]]
    for k in range(1, ctx.n(3, 4) + 1):
        for seq in itertools.product(syms3, repeat=k):
            cases.append({"ops": [["register", 0], ["start", 0, 0]] + [list(s) for s in seq]})
    # two engines, run ids shared between them (the tables are keyed by run id only)
    syms2 = _syms(2, 2)
    len2 = ctx.n(2, 3)
    for k in range(1, len2 + 1):
        for seq in itertools.product(syms2, repeat=k):
            cases.append({"ops": [list(s) for s in seq]})
            if k == len2:
                cases.append({"ops": [["register", 0], ["register", 1]] + [list(s) for s in seq]})
    return cases


def _engine_life(ctx: Check, e: int, first_run: int) -> list[list]:
    rng = ctx.rng
    ops: list[list] = [["register", e]]
    k = first_run
    for _ in range(rng.randrange(1, 5)):
        ops.append(["start", e, k])
        users = rng.choice([0, 0, 1, 2, 2, 3])      # distinct users sending a command during the run
        for u in rng.sample(range(4), users):
            ops.append(["contribute", e, u])
            if rng.random() < 0.3:
                ops.append(["contribute", e, u])
        ctx.count(f"contributors-in-run:{min(users, 2)}{'+' if users >= 2 else ''}")
        if rng.random() < 0.15:                    # the aggregator process is replaced during the run
            how = rng.choice(["restart", "crash"])
            ops += [[how], ["register", e]]
            ctx.count(f"{how}-during-run")
        if rng.random() < 0.35:
            ops.append(["disconnect", e])
            if rng.random() < 0.3:       # the engine goes on while it is away: its messages reach nobody
                ops.append(rng.choice([["stop", e, k], ["start", e, k], ["disconnect", e]]))
                ctx.count("message-while-disconnected")
            ops.append(["register", e])
            ctx.count("disconnect-during-run")
        if rng.random() < 0.85:
            ops.append(["stop", e, k])
        else:
            ctx.count("stop-never-sent")
        k += 1
    return ops


def gen_history(ctx: Check) -> dict:
    """what engines do (register, runs one after the other with fresh ids), then perturbed the way the transport
    can: messages delivered twice, resent later, swapped with a neighbour, dropped; connection lost and re-established.
    40 % of the histories have a second engine whose messages are interleaved (5 %: it reuses run ids of the first)."""
    rng = ctx.rng
    ops = _engine_life(ctx, 0, rng.randrange(0, 3))
    if rng.random() < 0.4:
        shared = rng.random() < 0.125
        other = _engine_life(ctx, 1, rng.randrange(0, 3) if shared else 10 + rng.randrange(0, 3))
        ctx.count("second-engine:shared-run-ids" if shared else "second-engine:own-run-ids")
        merged, a, b = [], list(ops), list(other)
        while a or b:
            src = a if (a and (not b or rng.random() < 0.5)) else b
            merged.append(src.pop(0))
        ops = merged
    for _ in range(rng.randrange(0, 5)):
        if not ops:
            break
        r = rng.random()
        i = rng.randrange(0, len(ops))
        if r < 0.35:
            ops.insert(i, list(ops[i]))
            ctx.count("perturb:duplicate")
        elif r < 0.65:
            j = rng.randrange(i, len(ops) + 1)
            ops.insert(j, list(ops[i]))
            ctx.count("perturb:resent-later")
        elif r < 0.80 and i + 1 < len(ops):
            ops[i], ops[i + 1] = ops[i + 1], ops[i]
            ctx.count("perturb:swap")
        elif r < 0.90:
            ops.insert(i, ["disconnect", ops[i][1] if len(ops[i]) > 1 else 0])
            ctx.count("perturb:stray-disconnect")
        else:
            del ops[i]
            ctx.count("perturb:dropped")
    ctx.count("history:engine-like")
    return {"ops": ops}


def gen_malformed(ctx: Check) -> dict:
    rng = ctx.rng
    syms = _syms(2 if rng.random() < 0.4 else 1, 4, process=True) + [["contribute", 0, u] for u in range(3)]
    ctx.count("history:uniform-random")
    return {"ops": [list(rng.choice(syms)) for _ in range(rng.randrange(1, ctx.n(14, 30)))]}


def nontrivial(case, out) -> bool:
    """some run got a plot log and some message was a duplicate / resend of an earlier one or a disconnect happened"""
    ops = [tuple(norm(o)) for o in case["ops"]]
    return any("plotlogs=-" not in ln for ln in out) and (len(set(ops)) < len(ops) or
                                                          any(o[0] in ("disconnect", "restart", "crash") for o in ops))


def check_cases(ctx: Check, stream: str, cases: list[dict], selftest: bool) -> None:
    observations: dict[int, list[dict]] = {}

    def impl_rec(case):
        out, obs = execute(case)
        observations[id(case)] = obs
        return out

    _, mout = ctx.correspond(stream, "RunRecords", cases, lines_of, impl_rec, nontrivial=nontrivial)
    if selftest and mout:
        ctx.selftest(stream, "RunRecords", cases, lambda c: lines_of(c, "asis\t"), mout)
    for c in cases:
        if id(c) in observations:
            for f in oracle(c, observations[id(c)]):
                ctx.fail(f)


def run(ctx: Check) -> int:
    ctx.prove(MODULE, REQUIRED)
    from harness.agg_common import warm_up
    warm_up()
    ctx.rule = ("cases = message histories against an empty database. Exhaustive: every one-engine history up to length "
                "3 (quick; plus all of length 4 starting with register) / 5 (thorough) over {register, disconnect, start r, "
                "stop r | r in 0..1}, longer ones sampled; every two-engine history up to length 2 (quick) / 3 (thorough) over "
                "the 12 symbols of engines 0 and 1 with shared run ids 0..1, the longest also after [register 0, register 1]. "
                "Generated: engine message sequences (register; runs with fresh ids; disconnect+register inside 35 % of runs, "
                "30 % of those with a message sent while away; 15 % of stops never sent; 40 % with an interleaved second "
                "engine, 1 in 8 of those reusing run ids) perturbed by duplicates, later resends, swaps, stray disconnects, "
                "drops; plus 15 % uniformly random op sequences over 4 run ids (malformed: messages before registration, "
                "stops of unknown runs, restarts, crashes, user commands). During generated runs 0-3 distinct users send a command "
                "(FromFrontend.add_contributor) and in 15 % the aggregator process restarts or crashes and the engine registers "
                "again; exhaustively: all continuations up to length 3 (quick) / 4 (thorough) of [register, start] over 8 symbols "
                "incl. restart, crash and commands of two users. Non-trivial = a plot log exists and the history contains a repeated message or "
                "a disconnect.")
    corpus = load_corpus(ctx.id)
    ex = gen_exhaustive(ctx)
    gen = []
    for _ in range(ctx.n(350, 8000)):
        gen.append(gen_malformed(ctx) if ctx.rng.random() < 0.15 else gen_history(ctx))
    check_cases(ctx, "histories-exhaustive", corpus + ex, selftest=True)
    check_cases(ctx, "histories-generated", gen, selftest=False)
    if ctx.diffs:   # diagnosis only: does the tree behave like the code before the repair?
        from vp.core import drive
        dcases = [d.case for d in ctx.diffs[:400]]
        asis = drive("RunRecords", [lines_of(c, "asis\t") for c in dcases])
        same = sum(1 for c, m in zip(dcases, asis) if impl(c) == m)
        ctx.notes.append(f"{same} of {len(dcases)} disagreeing histories match the model of the code WITHOUT "
                         f"fixes/C30-one-record-per-run.diff (the repair is not applied to this tree)" if same else
                         "the disagreeing histories match neither the repaired nor the unrepaired model")
    ctx.exhaustive = True
    ctx.extra["exhaustive_scope"] = (f"all one-engine histories of length <= {ctx.n(3, 5)} over 6 symbols and all two-engine "
                                     f"histories of length <= {ctx.n(2, 3)} over 12 symbols; longer ones are sampled")
    ctx.assumptions = ["engine ids and run ids are opaque strings (model: naturals); the harness uses two engine ids",
                       "registration takes the accepted path (secret ok, no websocket connected under the id, same version)",
                       "database writes succeed (the except-branches around store_recent_run are not exercised)",
                       "SQLite/SQLAlchemy behave as append-only row lists for the queries used"]

    def search(c: Check) -> None:
        extra = [gen_history(c) for _ in range(c.n(300, 3000))]
        for case in extra:
            for f in oracle(case, execute(case)[1]):
                c.fail(f)
            c.evaluations += 1

    return ctx.finish(search=search)


def replay(obj) -> int:
    from vp.core import drive
    case = obj.get("case", obj)
    if not isinstance(case, dict) or "ops" not in case:
        print(obj)
        return 0
    out, obs = execute(case)
    model = drive("RunRecords", [lines_of(case)])[0]
    for op, a, b in zip(case["ops"], out, model):
        print(f"{op}\n   impl : {a}\n   model: {b}")
    fails = oracle(case, obs)
    for f in fails:
        print(f"ORACLE: {f.key}: {f.detail}")
    return 1 if fails or out != model else 0
