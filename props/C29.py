"""C29 Plot-log persistence is monotone, throttled and faithful.

Proof half: OPM.Properties.C29 — after any history, for every stream of TagsUpdatedMsg during an active run: row
timestamps never decrease and strictly increase per tag; rows of different batches are more than the data-log
interval apart; a later row of a tag stores a value reported strictly later than every earlier row's value (and
timestamp); every row stores a value the engine reported for that tag with a tick time <= the row's timestamp.
Tie half: the real aggregator (handlers, in-memory SQLite) against the Lean model, op by op: rows written,
latest_persisted_tick_time and the whole tag map after every message.
"""
from __future__ import annotations

import itertools
import math
from fractions import Fraction

from vp.core import Check, Failure, enc, load_corpus

META = dict(
    level_text="Lean 4 theorems (C29_partial and its parts) for every history — reconnects included — followed by every "
               "stream of tag-update messages during an active run without a reconnect inside the stream (out of order, "
               "duplicated, unknown tags, any run-id field): PlotLogEntryValue timestamps never decrease and "
               "strictly increase per tag; two rows are in one batch or more than data_log_interval_seconds apart (interval "
               "inf: one batch); a later row of a tag holds a value reported strictly later than the value and the timestamp "
               "of every earlier row of that tag; every row belongs to the active run and holds a value that was in a "
               "TagsUpdatedMsg (or in the tag map before the stream) for that tag with tick_time <= the row's timestamp. "
               "PARTIAL: the full statement over a whole run is false when the engine's connection is lost and re-established "
               "inside the run (C29_full, C29_counterexample: rows at 5 then 3, or twice at 5, in one plot log) — recorded as "
               "known finding. The theorems hold for each variant of two incidental choices (upsert lets an older report "
               "overwrite / keeps the newer; threshold > / >=); the model (tags_info.upsert, _persist_tag_values, "
               "store_tag_values, run start/stop, UodInfoMsg, disconnect + re-registration) is tied to the real aggregator by "
               "differential execution of the rows written per message: exhaustive over all streams up to length 3/5 over 6 "
               "single-update messages (longer ones sampled), plus generated engine-like and malformed streams.",
    level_note="Trusted: Lean kernel, the harness, SQLite/SQLAlchemy as row lists. The throttling theorem is for a constant "
               "interval during the stream (a UodInfoMsg inside the stream is covered by the correspondence and the oracle, "
               "not by that theorem). Times/intervals are finite floats fed as multiples of 1/8 s (math.inf for the interval "
               "is modelled; interval >= 0). Known findings (findings.d/C29.json): after a reconnect inside a run "
               "latest_persisted_tick_time is None again and the new EngineData knows no tag, so the first tag message is "
               "persisted unconditionally — repeated / decreasing timestamps, a second row within the interval, an older value "
               "after a newer one (oracle keys ...:after-reconnect); handle_TagsUpdatedMsg raises ValueError (max of an empty "
               "list) when a batch is due and no tag value is known (first message of a run or after a reconnect with an empty "
               "tag list or only a Mark reset). Not part of the property, seen and modelled: the in-memory upsert overwrites a "
               "newer value by an older report, so a batch can store a value that is not the tag's newest report (it is still "
               "newer than everything stored before). The correspondence compares the rows only; the variant of the two "
               "incidental choices is recognised by two probes and reported in the evidence (policy_detected).",
    technique="Lean 4 proof (batch specification of _persist_tag_values + induction over the message stream; counter-example "
              "for the whole-run statement) + differential correspondence",
)
MODULE = "OPM.Properties.C29"
REQUIRED = ["OPM.C29.C29_partial", "OPM.C29.C29_counterexample", "OPM.C29.stream_rows_ok", "OPM.C29.timestamps_strictly_increasing", "OPM.C29.at_most_once_per_interval",
            "OPM.C29.never_older", "OPM.C29.faithful", "OPM.C29.after_last_persisted", "OPM.C29.persisted_time_bounds",
            "OPM.C29.whole_run"]

TAGS = ["a", "b", "c", "Mark", "Run Time", "é|;", "Method Status"]
METHOD_STATUS = "Method Status"      # SystemTagName.METHOD_STATUS: sets RunData.interrupted_by_error in tag_values_changed


# ------------------------------------------------------------------------------------------------
# case format: {"ops": [["uod", [names], interval8|"inf"], ["newrun"], ["stoprun"],
#                       ["tags", run ordinal|None, [[name, value, t8], ...]]]}
# value: None | int | str | ["f", eighths]      times / interval in 1/8 s

def token(v) -> str:
    if v is None:
        return "n"
    if isinstance(v, (list, tuple)):
        return f"f:{int(v[1])}"
    if isinstance(v, float):
        u = Fraction(v) * 8
        return f"f:{u.numerator}" if u.denominator == 1 else f"f:{u.numerator}/{u.denominator}"
    if isinstance(v, int):
        return f"i:{v}"
    return "s:" + enc(v)


def pyvalue(v):
    return v[1] / 8 if isinstance(v, (list, tuple)) else v


POLICY = {"keepNewer": False, "strict": True}      # the variant the implementation was recognised as (detect_policy)


def lines_of(case, tags_op: str = "tags") -> list[str]:
    out = [f"policy\t{int(POLICY['keepNewer'])}\t{int(POLICY['strict'])}"]
    for op in case["ops"]:
        if op[0] == "uod":
            out.append("uod\t" + (";".join(enc(n) for n in op[1]) if op[1] else "-") + "\t" + str(op[2]))
        elif op[0] == "tags":
            ups = ";".join(f"{enc(n)}|{token(v)}|{int(t)}" for (n, v, t) in op[2]) if op[2] else "-"
            out.append(f"{tags_op}\t{'none' if op[1] is None else op[1]}\t{ups}")
        else:
            out.append(op[0])
    return out


def _t8(t: float) -> str:
    u = Fraction(t) * 8
    return str(u.numerator) if u.denominator == 1 else f"{u.numerator}/{u.denominator}"


def execute(case) -> tuple[list[str], list[dict]]:
    """run the ops on the real aggregator.  The answer lines (what is compared with the model) are the rows each op
    wrote — what C29 speaks about; latest_persisted_tick_time and the tag map are kept only for the replay print."""
    from harness.agg_common import AggHarness
    h = AggHarness()
    h.register()
    out, obs = ["ok"], []           # "ok" answers the `policy` line
    k = 0
    last_id = 0
    for op in case["ops"]:
        err = None
        try:
            if op[0] == "uod":
                h.uod_info(list(op[1]), math.inf if op[2] == "inf" else op[2] / 8)
            elif op[0] == "newrun":
                h.run_started(f"run-{k}")
                k += 1
            elif op[0] == "stoprun":
                h.run_stopped(h.current_run_id() or "run-none")
            elif op[0] == "reconnect":
                h.disconnect()
                h.register()
            elif op[0] == "dupstart":           # the RunStartedMsg of the active run is delivered once more
                if h.current_run_id() is not None:
                    h.run_started(h.current_run_id())
            elif op[0] == "tags":
                try:
                    h.tags_updated([(n, pyvalue(v), t / 8) for (n, v, t) in op[2]], None if op[1] is None else f"run-{op[1]}")
                except Exception as e:          # the handler raised: that is what the engine gets as reply
                    err = "err:" + type(e).__name__
            else:
                raise ValueError(op)
        except ValueError:
            raise
        rows = h.value_rows(last_id)
        if rows:
            last_id = rows[-1][0]
        ed = h.engine_data()
        if ed.has_run():
            lp = ed.run_data.latest_persisted_tick_time
            L = "none" if lp is None else _t8(lp)
        else:
            L = "norun"
        tags = ";".join(f"{enc(n)}|{token(tv.value)}|{_t8(tv.tick_time)}" for n, tv in ed.tags_info.map.items()) or "-"
        shown = err or ("rows:" + (";".join(f"{rid.split('-')[1]}|{enc(name)}|{_t8(t)}|{token(v)}"
                                            for (_, rid, name, t, v) in rows) or "-"))
        out.append(shown)
        obs.append({"op": op, "err": err, "rows": [(rid, name, Fraction(t), token(v)) for (_, rid, name, t, v) in rows],
                    "internal": f"L={L}  tags={tags}"})
    return out, obs


def detect_policy() -> dict:
    """Which of the modelled variants is the implementation?  Two black-box probes through the handlers:
    (1) an older report of a tag arrives after a newer one that is not persisted yet — which value does the next
        batch store?   (2) a report exactly one interval after the last batch — is it persisted?"""
    p1 = {"ops": [["uod", ["a", "b"], 40], ["newrun"], ["tags", 0, [["a", 1, 8]]], ["tags", 0, [["a", 2, 32]]],
                  ["tags", 0, [["a", 3, 24]]], ["tags", 0, [["b", 4, 80]]]]}
    p2 = {"ops": [["uod", ["a"], 8], ["newrun"], ["tags", 0, [["a", 1, 8]]], ["tags", 0, [["a", 2, 16]]]]}
    pol = {"keepNewer": False, "strict": True}
    try:
        last = execute(p1)[1][-1]["rows"]
        vals = {name: val for (_, name, _, val) in last}
        if vals.get("a") == "i:2":
            pol["keepNewer"] = True
        if len(execute(p2)[1][-1]["rows"]) == 1:
            pol["strict"] = False
    except Exception:
        pass
    return pol


# ------------------------------------------------------------------------------------------------
# property oracle on the rows the implementation wrote (independent of the Lean model)

def oracle(case, obs: list[dict]) -> list[Failure]:
    fails: list[Failure] = []
    seen: set[str] = set()

    def once(key, detail):
        if key not in seen:
            seen.add(key)
            fails.append(Failure(key, case, detail))

    interval: Fraction | None = None          # None = inf
    reported: dict[tuple[str, str], list[Fraction]] = {}     # (tag, value token) -> reported tick times so far
    last: dict[tuple[str, str], tuple[Fraction, Fraction, int]] = {}   # (run, tag) -> (timestamp, witness report time, epoch) of last row
    last_ts: dict[str, tuple[Fraction, int]] = {}          # run -> (timestamp, epoch) of the last row written
    # the oracle's own ledger (from the ops only): which run is active; how often the connection was re-established
    active: str | None = None
    started = 0
    epoch = 0
    batch_seen = False                        # a row was written for the active run since its start / the last reconnect
    for i, o in enumerate(obs):
        op = o["op"]
        if op[0] == "uod":
            interval = None if op[2] == "inf" else Fraction(op[2], 8)
        elif op[0] == "newrun":
            active = f"run-{started}"
            started += 1
            batch_seen = False
        elif op[0] == "stoprun":
            active = None
        elif op[0] == "reconnect":
            epoch += 1
            interval = None                   # the engine's UodInfoMsg has to arrive again
            batch_seen = False
        if op[0] == "tags":
            for (n, v, t) in op[2]:
                reported.setdefault((n, token(v)), []).append(Fraction(t, 8))
            if o.get("err"):
                site = "before-first-batch" if not batch_seen else "other"
                once(f"tags-handler-raises:{o['err'][4:]}:{site}", f"op #{i} {op}: handle_TagsUpdatedMsg raised {o['err'][4:]}")
        for (run, name, ts, val) in o["rows"]:
            where = f"op #{i}: row (run {run}, tag {name!r}, time {ts}, value {val})"
            batch_seen = True
            if run != active:
                once("row-outside-active-run", f"{where}: the active run is {active}")
            if run in last_ts and ts < last_ts[run][0]:
                once("timestamp-decreases" + (":after-reconnect" if last_ts[run][1] < epoch else ""),
                     f"{where} after a row with time {last_ts[run][0]}")
            last_ts[run] = (ts, epoch)
            cands = sorted(t for t in reported.get((name, val), []))
            if not cands:
                once("value-never-reported", f"{where}: the engine never reported that value for that tag")
                continue
            if not any(t <= ts for t in cands):
                once("value-recorded-before-its-report-time", f"{where}: reported only at {cands}")
                continue
            prev = last.get((run, name))
            floor = prev[1] if prev else None
            ok = [t for t in cands if t <= ts and (floor is None or t >= floor)]
            if prev is not None:
                sfx = ":after-reconnect" if prev[2] < epoch else ""
                if ts <= prev[0]:
                    once("timestamp-not-increasing" + sfx, f"{where}: previous row of the tag has time {prev[0]}")
                elif interval is None or ts - prev[0] < interval:     # exactly one interval apart is not "twice per interval"
                    once("recorded-twice-within-interval" + sfx,
                         f"{where}: previous row of the tag at {prev[0]}, interval {'inf' if interval is None else interval}")
                if not ok:
                    once("older-value-recorded-after-newer" + sfx,
                         f"{where}: reported at {cands}, but the previous row of the tag holds a value reported at >= {floor}")
            last[(run, name)] = (ts, min(ok) if ok else max(t for t in cands if t <= ts), epoch)
    return fails


# ------------------------------------------------------------------------------------------------
# generators

def gen_exhaustive(ctx: Check) -> list[dict]:
    syms = [(n, t) for n in ("a", "b") for t in (8, 16, 24)]

    def case(seq):
        ops = [["uod", ["a", "b"], 8], ["newrun"]]
        ops += [["tags", 0, [[n, 100 + j, t]]] for j, (n, t) in enumerate(seq)]
        return {"ops": ops}

    maxlen = ctx.n(3, 5)
    cases = [case(seq) for k in range(0, maxlen + 1) for seq in itertools.product(syms, repeat=k)]
    # the same with a re-delivered RunStartedMsg and Method Status = Error / OK reports in between (times 1, 1.5, 3 s)
    syms2 = [(n, t) for n in ("a", "b") for t in (8, 12, 24)] + ["dupstart", "Error", "OK"]

    def case2(seq):
        ops = [["uod", ["a", "b"], 8], ["newrun"]]
        for j, x in enumerate(seq):
            if x == "dupstart":
                ops.append(["dupstart"])
            elif isinstance(x, str):
                ops.append(["tags", 0, [[METHOD_STATUS, x, 8]]])
            else:
                ops.append(["tags", 0, [[x[0], 100 + j, x[1]]]])
        return {"ops": ops}

    for k in range(1, ctx.n(3, 4) + 1):
        for seq in itertools.product(syms2, repeat=k):
            if any(isinstance(x, str) for x in seq):
                cases.append(case2(seq))
    for _ in range(ctx.n(300, 3000)):           # longer ones, sampled
        cases.append(case([ctx.rng.choice(syms) for _ in range(ctx.rng.randrange(maxlen + 1, maxlen + 4))]))
    return cases


def _value(rng, counter: list[int]):
    counter[0] += 1
    r = rng.random()
    if r < 0.70:
        return counter[0]                       # unique int: identifies the report
    if r < 0.80:
        return ["f", counter[0] * 8 + 4]        # unique dyadic float
    if r < 0.90:
        return f"v{counter[0]}"
    if r < 0.95:
        return rng.choice([0, 1, "on", ""])     # values that repeat
    return None


def gen_stream(ctx: Check, malformed: bool) -> dict:
    """an engine-like life: UodInfo, tags before the run, run start, ticks that report changed tags with the tick
    time, then the transport's perturbations (duplicates, swaps, late old messages), late new tags, a second run,
    a lost and re-established connection"""
    rng = ctx.rng
    counter = [0]
    pool = rng.sample(TAGS, rng.randrange(2, len(TAGS) + 1))
    with_entry = [n for n in pool if rng.random() < 0.8]
    if malformed:
        interval = rng.choice([0, 0, 1, "inf", 2 ** 40])
        clock = rng.choice([-400, 0, 2 ** 40])
    else:
        interval = rng.choice([0, 8, 8, 16, 40, 40, 80, "inf"])
        clock = rng.choice([0, 8, 8_000_000])
    ctx.count(f"interval:{'inf' if interval == 'inf' else ('0' if interval == 0 else '>0')}")
    ops: list = []
    if rng.random() < 0.9:
        ops.append(["uod", with_entry, interval])
    else:
        ctx.count("no-uod-info")
    if rng.random() < 0.6:
        ops.append(["tags", None, [[n, _value(rng, counter), clock] for n in pool if rng.random() < 0.7]])
        ctx.count("tags-before-run")
    ops.append(["newrun"])
    run = 0
    msgs: list = []
    for _ in range(rng.randrange(2, ctx.n(14, 30))):
        clock += rng.choice([1, 4, 8, 8, 16, 40])
        names = [n for n in pool if rng.random() < 0.4]
        if rng.random() < 0.1:
            names.append(rng.choice(TAGS))       # a tag that was never announced / appears late
            ctx.count("late-or-unknown-tag")
        ups = []
        for n in names:
            v = _value(rng, counter)
            if n == "Mark":
                v = rng.choice(["", "", "A", f"m{counter[0]}"])
            if n == METHOD_STATUS:
                v = rng.choice(["Error", "Error", "OK"])
                ctx.count(f"method-status:{v}")
            ups.append([n, v, clock if rng.random() < 0.9 else clock - rng.choice([1, 8, 24])])
        r = rng.random()
        mr = run if r < 0.9 else (None if r < 0.95 else run + 1)
        if mr != run:
            ctx.count("msg-run-id:none" if mr is None else "msg-run-id:other")
        msgs.append(["tags", mr, ups])
        if malformed and rng.random() < 0.2:
            msgs.append(["tags", run, [[rng.choice(["", "a"]), _value(rng, counter), clock], ["a", _value(rng, counter), clock]]])
        if rng.random() < 0.06:
            msgs.append(rng.choice([["stoprun"], ["newrun"], ["uod", with_entry, rng.choice([8, 40, "inf"])]]))
            if msgs[-1][0] == "newrun":
                run += 1
            ctx.count("mid-stream:" + msgs[-1][0])
        if rng.random() < 0.06:                  # the RunStartedMsg of the run is delivered again (at-least-once delivery)
            msgs.append(["dupstart"])
            ctx.count("mid-stream:duplicate-run-started")
            if rng.random() < 0.5 and len(msgs) >= 2 and msgs[-2][0] == "tags":
                msgs.append(["tags", msgs[-2][1], [list(u) for u in msgs[-2][2]]])      # ... and so is the last tag message
        if rng.random() < 0.05:                  # the connection is lost and re-established; the engine announces itself again
            msgs.append(["reconnect"])
            ctx.count("mid-stream:reconnect")
            if rng.random() < 0.85:
                msgs.append(["uod", with_entry, interval])
            if rng.random() < 0.6:               # ... and sends all its tags with the tick times of their last change
                msgs.append(["tags", run, [[n, _value(rng, counter), clock - rng.choice([0, 0, 8, 40])] for n in pool]])
    for _ in range(rng.randrange(0, 4)):         # transport perturbations
        i = rng.randrange(0, len(msgs))
        r = rng.random()
        if msgs[i][0] != "tags":
            continue
        if r < 0.4:
            msgs.insert(i, [msgs[i][0], msgs[i][1], [list(u) for u in msgs[i][2]]])
            ctx.count("perturb:duplicate")
        elif r < 0.7 and i + 1 < len(msgs) and msgs[i + 1][0] == "tags":
            msgs[i], msgs[i + 1] = msgs[i + 1], msgs[i]
            ctx.count("perturb:swap")
        else:
            j = rng.randrange(i, len(msgs) + 1)
            msgs.insert(j, [msgs[i][0], msgs[i][1], [list(u) for u in msgs[i][2]]])
            ctx.count("perturb:old-message-late")
    return {"ops": ops + msgs}


def nontrivial(case, out) -> bool:
    """rows were written at two or more different times (so the throttle and the ordering were exercised)"""
    times = set()
    for ln in out[1:]:
        first = ln.split("\t")[0]
        if first.startswith("rows:") and first != "rows:-":
            for r in first[5:].split(";"):
                times.add((r.split("|")[0], r.split("|")[2]))
    return len(times) >= 2


def check_cases(ctx: Check, stream: str, cases: list[dict], selftest: bool = True) -> None:
    observations: dict[int, list[dict]] = {}

    def impl_rec(case):
        out, obs = execute(case)
        observations[id(case)] = obs
        return out

    _, mout = ctx.correspond(stream, "PlotPersist", cases, lines_of, impl_rec, nontrivial=nontrivial)
    if mout and selftest:
        ctx.selftest(stream, "PlotPersist", cases, lambda c: lines_of(c, "tagsm"), mout)
    for c in cases:
        if id(c) not in observations:
            continue
        for f in oracle(c, observations[id(c)]):
            ctx.fail(f)
        rows = sum(len(o["rows"]) for o in observations[id(c)])
        ctx.count("case:rows=0" if rows == 0 else "case:rows>0")


def run(ctx: Check) -> int:
    ctx.prove(MODULE, REQUIRED)
    from harness.agg_common import warm_up
    warm_up()
    POLICY.update(detect_policy())
    ctx.extra["policy_detected"] = (f"upsert {'keeps the newer report' if POLICY['keepNewer'] else 'lets an older report overwrite'}"
                                    f"; threshold {'>' if POLICY['strict'] else '>='} "
                                    f"({'as /repo at the time of writing' if POLICY == {'keepNewer': False, 'strict': True} else 'a modelled variant'})")
    ctx.rule = ("cases = op sequences for one registered engine against a fresh database: UodInfoMsg (reading names, "
                "data_log_interval_seconds), RunStartedMsg (fresh id), RunStoppedMsg, TagsUpdatedMsg (run id of the run / "
                "None / another id; tag values with tick times). Exhaustive: after [uod {a,b} 1 s, start] every stream up to "
                "length 3 (quick) / 5 (thorough) of single-update messages over 2 tags x 3 times, and every stream up to length 3 / 4 "
                "over 9 symbols that also has a re-delivered RunStartedMsg of the run and Method Status = Error / OK reports "
                "(the tag that sets RunData.interrupted_by_error). Generated: engine-like "
                "streams (advancing clock, 40 % of tags change per tick, 10 % stale tick times, Mark resets, tags without "
                "plot-log entry, late unknown tags, Method Status Error/OK, wrong/missing run ids, mid-stream stop/start/uod, 6 % per "
                "tick a re-delivered RunStartedMsg (half of them followed by the last tag message again), 5 % per tick a lost and "
                "re-established connection followed by the engine's re-announcement) with transport "
                "perturbations (duplicate, swap, old message late); 15 % malformed (zero / 2^40 / inf interval, "
                "negative and 2^40 times, empty and repeated tag names in one message). Compared after every op: the rows "
                "written (run, tag, time, value) or the exception of the handler — not the intermediate state. The model is run "
                "in the variant (upsert policy, threshold > or >=) the implementation is recognised as by two probes. "
                "Non-trivial = rows at >= 2 different times.")
    corpus = load_corpus(ctx.id)
    check_cases(ctx, "tag-streams-exhaustive", corpus + gen_exhaustive(ctx), selftest=False)
    gen = []
    for _ in range(ctx.n(350, 5000)):
        mal = ctx.rng.random() < 0.15
        ctx.count("stream:malformed" if mal else "stream:engine-like")
        gen.append(gen_stream(ctx, mal))
    check_cases(ctx, "tag-streams-generated", gen)
    ctx.exhaustive = True
    ctx.extra["exhaustive_scope"] = (f"all streams of length <= {ctx.n(3, 5)} of single-update tag messages over "
                                     f"{{a,b}} x {{1,2,3}} s with interval 1 s; everything else is sampled")
    ctx.assumptions = ["tick times and the interval are finite floats (model: rationals; interval inf modelled); the "
                       "harness feeds multiples of 1/8 s so float arithmetic is exact",
                       "tick times are in the range datetime.fromtimestamp accepts (TagsInfo.upsert formats them in a debug "
                       "warning when an older report arrives; beyond year 9999 that raises ValueError)",
                       "data_log_interval_seconds >= 0",
                       "one engine; a run is started once per run id (duplicated RunStartedMsg: C30)",
                       "SQLite/SQLAlchemy behave as append-only row lists for the queries used"]

    def search(c: Check) -> None:
        for _ in range(c.n(300, 3000)):
            case = gen_stream(c, False)
            for f in oracle(case, execute(case)[1]):
                c.fail(f)
            c.evaluations += 1

    return ctx.finish(search=search)


def replay(obj) -> int:
    from vp.core import drive
    case = obj.get("case", obj)
    if not isinstance(case, dict) or "ops" not in case:
        print(obj)
        return 0
    out, obs = execute(case)
    model = drive("PlotPersist", [lines_of(case)])[0]
    POLICY.update(detect_policy())
    model = drive("PlotPersist", [lines_of(case)])[0]
    print(f"model variant: {POLICY}")
    for op, a, b, o in zip(case["ops"], out[1:], model[1:], obs):
        print(f"{op}\n   impl : {a}      [{o['internal']}]\n   model: {b}")
    fails = oracle(case, obs)
    for f in fails:
        print(f"ORACLE: {f.key}: {f.detail}")
    return 1 if fails or out != model else 0
