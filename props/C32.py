"""C32 Role-based access control covers every unit and run endpoint.

Proof half: OPM.Properties.C32 over the route table regenerated from the FastAPI app and the source of every
endpoint (harness/translators/routes.py -> lean/OPM/Gen/Routes.lean).
Tie half: every route that takes a unit or run, and every listing, is called through an in-process test client
(and the LSP websocket through a websocket session with initialize / didOpen / hover) for every object of a world
that contains one unit, one recent engine and one recent run per required-role set over three roles, for every
user-role set; status / refusal / listing contents are compared with the model, and an independent oracle looks
for data of the object in the response (planted markers), rpc calls reaching the dispatcher and state changes.
"""
from __future__ import annotations

import itertools
import json
import re
from datetime import datetime, UTC
from urllib.parse import quote

from vp.core import Check, Failure, enc, load_corpus

META = dict(
    level_text="Lean 4 theorems over the route table regenerated from the code: every endpoint outside the LSP router "
               "that takes a unit or run and touches its data calls the role guard first, so for every world, id and "
               "user who lacks every required role the answer is 403 and the handler body never runs (nothing read, "
               "no command / method edit / cancel / force forwarded); objects without required roles pass; listings "
               "contain exactly the accessible objects, the online unit's roles winning over a stale recent-engine row "
               "(C32_partial, no_roles_required_open, unit_listing_only_accessible, run_listing_only_accessible, "
               "listing_contains_accessible, guarded_endpoint_refuses for any guarded route). Over histories of engine "
               "events (connect+UodInfo, later UodInfo, run started/stopped/replaced, disconnect, reconnect) the roles "
               "the routers see are those of the unit's last UodInfo - run events never change them - stored runs and "
               "recent-engine rows carry them, and the refusal holds after any history (roles_from_last_uodinfo, "
               "run_events_preserve_roles, stored_run_carries_unit_roles, history_protection). The full statement is "
               "refuted for the unchanged code (C32_counterexample): the two method-editor endpoints (LSP grammar "
               "route and LSP websocket) read unit data without any role check - recorded known findings, replayed "
               "against the real app on every run.",
    level_note="Partial: the LSP router is excluded (known findings). Which endpoints take a unit or run is decided "
               "by data flow from any request parameter (path, query, header, cookie, body) into an engine_id / unit_id "
               "/ run_id parameter of the aggregator facade or a repository; endpoints carrying the id in a body are "
               "held to the table theorem but not probed. auth.has_access is translated from its source and proved "
               "equal to the model's hasAccess (has_access_source_is_hasAccess) and probed exhaustively over small sets "
               "of a role universe with case variants, blanks and admin-like names on every run. A spy on EngineData "
               "attribute access witnesses 'the handler body ran' where the answer carries no data. Trusted: Lean "
               "kernel; the translator's AST "
               "classification of handlers (guard called before any unit/run data access), tied to behaviour by the "
               "exhaustive differential run over all routes x required-role sets x user-role sets (3 roles); the JWT "
               "decoding in front of user_roles is not part of the check (roles are injected by dependency override).",
    technique="Lean 4 proof (handler/guard model + kernel-evaluated route table) + translation of the route table "
              "(FastAPI introspection + ast) + exhaustive differential correspondence through an in-process test client",
)
MODULE = "OPM.Properties.C32"
REQUIRED = ["OPM.C32.roles_from_last_uodinfo", "OPM.C32.run_events_preserve_roles", "OPM.C32.history_protection",
            "OPM.C32.stored_run_carries_unit_roles", "OPM.C32.run_event_row_carries_unit_roles", "OPM.C32.C32_partial", "OPM.C32.C32_counterexample", "OPM.C32.guarded_endpoint_refuses",
            "OPM.C32.guarded_endpoint_admits", "OPM.C32.no_roles_required_open", "OPM.C32.unit_listing_only_accessible",
            "OPM.C32.run_listing_only_accessible", "OPM.C32.has_access_source_is_hasAccess",
            "OPM.C32.listing_contains_accessible", "OPM.C32.non_lsp_routes_guarded", "OPM.C32.unguarded_routes",
            "OPM.C32.lacking_every_role_no_access", "OPM.C32.access_iff"]

K_GRAMMAR = "lsp-grammar-route-readable-without-role"
K_SOCKET = "lsp-websocket-readable-without-role"


def subsets(roles):
    out = []
    for k in range(len(roles) + 1):
        out += [list(c) for c in itertools.combinations(roles, k)]
    return out


def marker(oid: str) -> str:
    return f"MARK_{oid}_"


# ----------------------------------------------------------------------------------------------------
# world set-up in the real application

def engine_data(oid: str, required, run_id: str | None = None):
    import openpectus.aggregator.models as Mdl
    import openpectus.protocol.models as PM
    mk = marker(oid)
    e = Mdl.EngineData(engine_id=oid, computer_name="pc" + mk, engine_version="1", uod_name="uod" + mk,
                       uod_author_name="auth" + mk, uod_author_email=mk + "@x", uod_filename="f" + mk,
                       location="loc" + mk, hardware_str="hw" + mk, data_log_interval_seconds=1.0)
    e.required_roles = set(required)
    e.tags_info.upsert(Mdl.TagValue(name="Tag", tick_time=1.0, value=42.5, value_unit="L", value_formatted=mk + "L"))
    e.tags_info.upsert(Mdl.TagValue(name="System State", tick_time=1.0, value="Stopped", value_unit=None))
    e.tags_info.upsert(Mdl.TagValue(name="T" + mk, tick_time=1.0, value=1.5, value_unit="L"))
    e.readings = [PM.ReadingInfo(discriminator="reading", tag_name=n, valid_value_units=["L"], entry_data_type=None,
                                 commands=[], command_options=None) for n in ("Tag", "T" + mk)]
    e.commands = [PM.CommandInfo(name="Cmd" + mk, docstring="doc" + mk)]
    e.uod_definition = PM.UodDefinition(
        commands=[PM.CommandDefinition(name="Cmd" + mk, validator=None, docstring="doc" + mk)],
        system_commands=[PM.CommandDefinition(name="Watch", validator=None, docstring="w"),
                         PM.CommandDefinition(name="Mark", validator=None, docstring="m")],
        tags=[PM.TagDefinition(name="Tag", unit="L")])
    e.method = Mdl.Method(lines=[Mdl.MethodLine(id="l1", content="Mark: " + mk)], version=3, last_author=mk)
    e.error_log = Mdl.AggregatedErrorLog(entries=[Mdl.AggregatedErrorLogEntry(
        message="err" + mk, created_time=1.0, severity=40, occurrences=1)]) \
        if hasattr(Mdl, "AggregatedErrorLogEntry") else e.error_log
    e.plot_configuration = PM.PlotConfiguration(process_value_names_to_annotate=[mk], color_regions=[], sub_plots=[],
                                                x_axis_process_value_names=[mk])
    rid = run_id or ("run-of-" + oid)
    e.run_data = Mdl.RunData(run_id=rid, run_started=datetime.now(UTC), runlog=Mdl.RunLog(lines=[
        Mdl.RunLogLine(id="line1", command_name="Mark: " + mk, start=1.0, end=None, progress=None, start_values=[],
                       end_values=[])]))
    return e


SPY = {"on": False}
_SPY_IGNORED = {"engine_id", "required_roles"}     # what the role guard / the listing filter themselves look at
_spy_cls: dict = {}


def spy_class():
    """EngineData subclass that records which attributes are touched while a request is being served: the
    witness for "the handler body ran on this unit" (a guard-first handler touches only required_roles)."""
    if "cls" not in _spy_cls:
        import openpectus.aggregator.models as Mdl

        import threading

        def serving() -> bool:
            # pylsp's debounced lint runs on a threading.Timer long after its websocket session: not this request
            return SPY["on"] and not isinstance(threading.current_thread(), threading.Timer)

        class SpyEngineData(Mdl.EngineData):
            def __getattribute__(self, name):
                if name not in _SPY_IGNORED and not name.startswith("__") and name != "_spy_reads" and serving():
                    object.__getattribute__(self, "__dict__").setdefault("_spy_reads", []).append(name)
                return object.__getattribute__(self, name)

            def __setattr__(self, name, value):
                if name != "_spy_reads" and serving():
                    object.__getattribute__(self, "__dict__").setdefault("_spy_reads", []).append("set:" + name)
                object.__setattr__(self, name, value)
        _spy_cls["cls"] = SpyEngineData
    return _spy_cls["cls"]


class App:
    def __init__(self):
        import threading
        from harness import agg_app
        # pylsp's debounced lint timer fires after the websocket session is over ("Event loop is closed"): noise only
        threading.excepthook = lambda args: None
        self.st = agg_app.get()
        self.client = self.st["client"]
        self.agg = self.st["agg"]
        self.calls = self.st["calls"]
        self.world = None

    def set_world(self, world: dict) -> None:
        """world = {units: [[id, roles]], recent: [[id, roles]], runs: [[id, roles]]}"""
        from openpectus.aggregator.data import database
        import openpectus.aggregator.data.models as DMdl
        from openpectus.aggregator.data.repository import RecentRunRepository, RecentEngineRepository, PlotLogRepository
        from openpectus.lsp import lsp_analysis
        lsp_analysis.create_analysis_input.cache_clear()
        DMdl.DBModel.metadata.drop_all(database._engine)
        DMdl.DBModel.metadata.create_all(database._engine)
        self.agg._engine_data_map.clear()
        # per-engine memory of the aggregator that outlives a registration (method version after re-registration)
        getattr(self.agg.from_engine, "_last_method_versions", {}).clear()
        self.calls.clear()
        for oid, req in world["units"]:
            self.agg._engine_data_map[oid] = engine_data(oid, req)
        self.arm_spies()
        with database.create_scope():
            er = RecentEngineRepository(database.scoped_session())
            for oid, req in world["recent"]:
                er.store_recent_engine(engine_data(oid, req))
            rr = RecentRunRepository(database.scoped_session())
            pr = PlotLogRepository(database.scoped_session())
            for rid, req in world["runs"]:
                e = engine_data("eng-" + rid, req, run_id=rid)
                # the run's data carries the run's own marker
                mk = marker(rid)
                e.method.lines[0].content = "Mark: " + mk
                e.run_data.runlog.lines[0].command_name = "Mark: " + mk
                e.plot_configuration.process_value_names_to_annotate = [mk]
                e.uod_name = "uod" + mk
                try:
                    pr.create_plot_log(e, rid)
                except Exception:
                    pass
                rr.store_recent_run(e, archive="archive" + mk, archive_filename="a" + mk + ".csv")
        self.world = world

    def arm_spies(self) -> None:
        """(re)install the spy class on every registered unit and forget earlier observations"""
        import openpectus.aggregator.models as Mdl
        cls = spy_class()
        for e in self.agg._engine_data_map.values():
            if type(e) is Mdl.EngineData:
                e.__class__ = cls
            e.__dict__["_spy_reads"] = []

    def reads(self) -> dict[str, list[str]]:
        """unit id -> attributes of its EngineData touched since the last request started"""
        return {i: sorted(set(e.__dict__.get("_spy_reads", []))) for i, e in self.agg._engine_data_map.items()
                if e.__dict__.get("_spy_reads")}

    def snapshot(self, oid):
        e = self.agg._engine_data_map.get(oid)
        if e is None:
            return None
        return (len(self.calls), e.method.version, tuple(sorted(e.active_users)), len(e.contributors))

    # -- one request -------------------------------------------------------------------------------
    def request(self, row: dict, oid: str, user: list[str]):
        """-> (status, text). The LSP websocket is driven through initialize / didOpen / hover."""
        self.st["roles"]["cur"] = set(user)
        for e in self.agg._engine_data_map.values():
            e.__dict__["_spy_reads"] = []
        SPY["on"] = True
        try:
            return self._request(row, oid, user)
        finally:
            SPY["on"] = False

    def _request(self, row: dict, oid: str, user: list[str]):
        if row["method"] == "WS":
            return self.lsp_hover(row["path"], oid)
        path = row["path"]
        query = []
        if row.get("id_in") == "path":
            path = path.replace("{" + row["id_param"] + "}", quote(oid, safe=""))
        elif row.get("id_in") == "query":
            query.append(f"{row['id_param']}={quote(oid, safe='')}")
        for p in ("unit_id", "engine_id", "run_id"):
            path = path.replace("{" + p + "}", quote(oid, safe=""))
        path = path.replace("{line_id}", "line1")
        method = "POST" if "POST" in row["method"] else "GET"
        body = None
        h = row["handler"]
        if h == "execute_command":
            body = {"command": "Mark: x", "source": "manually_entered"}
        elif h == "execute_control_button_command":
            body = {"command": "Start", "source": "unit_button"}
        elif h == "save_method":
            SPY["on"] = False           # the harness's own look at the current version is not the handler's
            e = self.agg._engine_data_map.get(oid)
            body = {"lines": [{"id": "a", "content": "Mark: q"}], "version": e.method.version if e else 0,
                    "last_author": ""}
            SPY["on"] = True
        elif h in ("register_active_user", "unregister_active_user"):
            query.append("user_id=someone")
        if query:
            path += "?" + "&".join(query)
        r = self.client.request(method, path, json=body)
        return r.status_code, r.text

    def lsp_hover(self, path: str, oid: str):
        try:
            with self.client.websocket_connect(path) as ws:
                def send(i, method, params):
                    m = {"jsonrpc": "2.0", "method": method, "params": params}
                    if i is not None:
                        m["id"] = i
                    ws.send_json(m)

                def recv(i):
                    for _ in range(50):
                        m = ws.receive_json()
                        if m.get("id") == i and "method" not in m:
                            return m
                        if "method" in m and "id" in m:
                            ws.send_json({"jsonrpc": "2.0", "id": m["id"], "result": None})
                    return {}
                send(1, "initialize", {"processId": None, "rootUri": None, "capabilities": {},
                                       "initializationOptions": {"engineId": oid}})
                recv(1)
                send(None, "initialized", {})
                send(None, "textDocument/didOpen", {"textDocument": {
                    "uri": "file:///m.pcode", "languageId": "pcode", "version": 1, "text": "Watch: Tag > 3 L\n    Mark: a\n"}})
                send(2, "textDocument/hover", {"textDocument": {"uri": "file:///m.pcode"},
                                               "position": {"line": 0, "character": 8}})
                m = recv(2)
                send(None, "exit", {})
            res = m.get("result")
            if res and "Current value" in json.dumps(res):
                return 200, json.dumps(res)
            return 404, json.dumps(m)
        except Exception as e:  # connection refused / closed = refused
            return 403, f"websocket failed: {type(e).__name__}"


def canon(row: dict, status: int, text: str) -> str:
    """The observable answer in the model's vocabulary."""
    t = row["target"]
    if t in ("unitsWithRecent", "unitsOnline", "runs"):
        if status != 200:
            return f"status {status}"
        data = json.loads(text)
        if t == "unitsWithRecent":
            ids = [x["id"] for x in data]
        elif t == "unitsOnline":
            ids = [x["process_unit"]["id"] for x in data]
        else:
            ids = [x["run_id"] for x in data]
        return "list " + (";".join(enc(i) for i in ids) if ids else "~")
    if status == 403:
        try:
            missing = json.loads(text)["detail"]["missing_roles"]
            return "forbidden " + (";".join(enc(r) for r in sorted(missing)) if missing else "~")
        except Exception:
            return "forbidden ?"
    if status == 404:
        try:
            detail = json.loads(text).get("detail")
        except Exception:
            detail = None
        if detail in ("Not Found", "Recent Run not found") or row["method"] == "WS":
            return "notfound"
    return "pass"


def objs_wire(objs) -> str:
    if not objs:
        return "~"
    return "|".join(enc(i) + ":" + (";".join(enc(r) for r in sorted(set(rs))) if rs else "~") for i, rs in objs)


def roles_wire(rs) -> str:
    return ";".join(enc(r) for r in rs) if rs else "~"


def line(op: str, c: dict) -> str:
    w = c["world"]
    return "\t".join([op, str(c["route"]), enc(c["id"]), roles_wire(c["user"]), objs_wire(w["units"]),
                      objs_wire(w["recent"]), objs_wire(w["runs"])])


# ----------------------------------------------------------------------------------------------------
# worlds and cases

def base_world(roles=("A", "B", "C")) -> dict:
    subs = subsets(list(roles))
    return {"units": [[f"u{k}", s] for k, s in enumerate(subs)],
            "recent": [[f"x{k}", s] for k, s in enumerate(subs)] + [["u1", ["A"]], ["u0", []]],
            "runs": [[f"r{k}", s] for k, s in enumerate(subs)]}


def random_world(rng) -> dict:
    pool = ["A", "a", "B", " ", "", "é", "admin", "Daemon", "A ", "ß"]
    roles = rng.sample(pool, rng.randrange(2, 5))

    def rs():
        return sorted(set(rng.choice(roles) for _ in range(rng.randrange(0, 4))))
    n = rng.randrange(1, 5)
    units = [[f"unit{k}", rs()] for k in range(n)]
    recent = [[f"old{k}", rs()] for k in range(rng.randrange(0, 4))]
    if units and rng.random() < 0.7:
        recent.append([units[0][0], rs()])       # a recent-engine row of an online unit (other roles)
    runs = [[f"run{k}", rs()] for k in range(rng.randrange(0, 4))]
    return {"units": units, "recent": recent, "runs": runs, "roles": roles}


def cases_for(world: dict, rows: list[dict], user_sets, rng=None, sample: float = 1.0) -> list[dict]:
    out = []
    for i, row in enumerate(rows):
        t = row["target"]
        if t in ("unit", "run") and row.get("id_in") not in ("path", "query", "lsp-init"):
            continue        # id carried in a request body / header: required to be guarded by the table theorem, not probed
        if t == "unit":
            ids = [o[0] for o in world["units"]] + ["nope"]
        elif t == "run":
            ids = [o[0] for o in world["runs"]] + ["nope"]
        elif t in ("unitsWithRecent", "unitsOnline", "runs"):
            ids = [""]
        else:
            continue
        for oid in ids:
            for u in user_sets:
                if rng is not None and rng.random() > sample:
                    continue
                out.append({"route": i, "path": row["path"], "method": row["method"], "handler": row["handler"],
                            "id": oid, "user": list(u), "world": {k: world[k] for k in ("units", "recent", "runs")}})
    return out


# ----------------------------------------------------------------------------------------------------

def listing_ids(row: dict, status: int, text: str) -> list[str] | None:
    if status != 200:
        return None
    data = json.loads(text)
    t = row["target"]
    if t == "unitsWithRecent":
        return [x["id"] for x in data]
    if t == "unitsOnline":
        return [x["process_unit"]["id"] for x in data]
    return [x["run_id"] for x in data]


def static_truth(w: dict) -> dict:
    """What the objects of a hand-made world require: an online unit's own roles (a stale recent-engine row of
    the same id does not count), a recent engine's row otherwise, a run's row."""
    units = {i: r for i, r in reversed(w["units"])}
    offline = {i: r for i, r in reversed(w["recent"]) if i not in units}
    runs = {i: r for i, r in reversed(w["runs"])}
    markers = {i: [marker(i), marker("eng-" + i)] for i in runs}     # set_world builds run r from engine "eng-r"
    return {"units": units, "offline": offline, "runs": runs, "markers": markers}


def oracle(rows, c, status, text, before, after, truth, reads=None) -> list[Failure]:
    """The property, stated over what the implementation did (independent of the Lean model).
    truth = {units: {id: roles of its last UodInfo}, offline: {id: roles when it disconnected},
             runs: {run id: roles of its unit when the run was stored}, markers: {id: [strings that are its data]}}
    reads = {unit id: attributes of its EngineData the request touched} (spy; the guard itself touches only
             required_roles) - the witness that a handler body ran even when the answer carries no marker."""
    reads = reads or {}
    row = rows[c["route"]]
    U = set(c["user"])
    fails = []
    t = row["target"]
    h = row["handler"]
    if t in ("unitsWithRecent", "unitsOnline", "runs"):
        ids = listing_ids(row, status, text)
        if ids is None:
            return fails
        if t == "runs":
            known = truth["runs"]
            must_show = [i for i, r in truth["runs"].items() if not r]
        else:
            known = {**truth["offline"], **truth["units"]}
            must_show = [i for i, r in truth["units"].items() if not r]
            if t == "unitsWithRecent":
                must_show += [i for i, r in truth["offline"].items() if not r]
        for oid in ids:
            R = set(known.get(oid) or [])
            if R and not (R & U):
                fails.append(Failure(f"listed-without-role:{h}", c,
                                     f"{row['path']} lists {oid}, which requires {sorted(R)}, to a user with {sorted(U)}"))
        for oid in must_show:
            if oid not in ids:
                fails.append(Failure(f"listing-hides-open-object:{h}", c, f"{oid} requires no roles but is not listed"))
        for oid, attrs in reads.items():
            R = set(truth["units"].get(oid) or [])
            if R and not (R & U):
                fails.append(Failure(f"data-readable-without-role:{h}", c,
                                     f"{row['path']} read {attrs} of {oid} (requires {sorted(R)}) for a user with {sorted(U)}"))
        return fails
    pool = truth["units"] if t == "unit" else truth["runs"]
    if c["id"] not in pool:
        return fails
    R = set(pool[c["id"]])
    lacks = bool(R) and not (R & U)
    if lacks:
        leaked = [m for m in truth["markers"].get(c["id"], [marker(c["id"])]) if m in text]
        key = K_GRAMMAR if h == "get_pcode_tm_grammar" else K_SOCKET if h == "lsp_server_endpoint" else f"data-readable-without-role:{h}"
        if leaked:
            fails.append(Failure(key, c, f"{row['method']} {row['path']} for {c['id']} (requires {sorted(R)}) by a user with "
                                         f"{sorted(U)} returned its data: status {status} {text[:160]}"))
        elif t == "unit" and reads.get(c["id"]):
            fails.append(Failure(key, c, f"{row['method']} {row['path']} for {c['id']} (requires {sorted(R)}) by a user with "
                                         f"{sorted(U)}: the handler body ran and read {reads[c['id']]} of the unit "
                                         f"(status {status} {text[:100]})"))
        if before != after:
            fails.append(Failure(f"request-not-refused:{h}", c, f"{row['path']} changed the unit or reached the dispatcher "
                                                                 f"although the user lacks {sorted(R)}: {before} -> {after}"))
    elif not R and status in (401, 403):
        fails.append(Failure(f"open-object-refused:{h}", c, f"{c['id']} requires no roles but {row['path']} answered {status}"))
    return fails


# ----------------------------------------------------------------------------------------------------
# histories: the world is produced by engine events going through the real message handlers

class Engine:
    """Plays the engine side: RegisterEngineMsg / UodInfoMsg / TagsUpdatedMsg / MethodMsg / RunStartedMsg /
    RunLogMsg / RunStoppedMsg / disconnect, through AggregatorMessageHandlers, as the dispatcher would call them."""

    def __init__(self, app: App):
        from unittest.mock import AsyncMock
        from openpectus.aggregator.aggregator_message_handlers import AggregatorMessageHandlers
        self.app = app
        self.agg = app.agg
        self.h = AggregatorMessageHandlers(self.agg)
        self.agg.from_engine.publisher = AsyncMock()           # frontend pubsub / webpush are not under test
        self.agg.from_engine.webpush_publisher = AsyncMock()

    @staticmethod
    def uid(label: str) -> str:
        return f"{label}_uod"          # create_engine_id(computer_name=label, uod_name="uod")

    def _do(self, *coros):
        import asyncio

        async def go():
            out = []
            for c in coros:
                out.append(await c)
            await asyncio.sleep(0)
            return out
        return asyncio.run(go())

    def apply(self, ev: list) -> None:
        import openpectus.protocol.engine_messages as EM
        import openpectus.protocol.models as PM
        from openpectus import __version__
        kind, label = ev[0], ev[1]
        uid = self.uid(label)
        mk = marker(uid)
        if kind in ("connect", "uod"):
            roles = ev[2]
            msgs = []
            if kind == "connect":
                reply = self._do(self.h.handle_RegisterEngineMsg(EM.RegisterEngineMsg(
                    computer_name=label, uod_name="uod", uod_author_name="auth" + mk, uod_author_email=mk + "@x",
                    uod_filename="f" + mk, location="loc" + mk, engine_version=__version__)))[0]
                assert reply.success and reply.engine_id == uid, reply
            e = self.agg._engine_data_map.get(uid)
            run_id = e.run_data.run_id if e is not None and e.has_run() else None
            msgs.append(self.h.handle_UodInfoMsg(EM.UodInfoMsg(
                engine_id=uid,
                readings=[PM.ReadingInfo(discriminator="reading", tag_name="Tag", valid_value_units=["L"],
                                         entry_data_type=None, commands=[], command_options=None)],
                commands=[PM.CommandInfo(name="Cmd" + mk, docstring="doc" + mk)],
                uod_definition=PM.UodDefinition(
                    commands=[PM.CommandDefinition(name="Cmd" + mk, validator=None, docstring="doc" + mk)],
                    system_commands=[PM.CommandDefinition(name="Watch", validator=None, docstring="w"),
                                     PM.CommandDefinition(name="Mark", validator=None, docstring="m")],
                    tags=[PM.TagDefinition(name="Tag", unit="L")]),
                plot_configuration=PM.PlotConfiguration(process_value_names_to_annotate=[mk], color_regions=[],
                                                        sub_plots=[], x_axis_process_value_names=[mk]),
                hardware_str="hw" + mk, required_roles=set(roles), data_log_interval_seconds=1.0)))
            if kind == "connect":
                msgs.append(self.h.handle_TagsUpdatedMsg(EM.TagsUpdatedMsg(engine_id=uid, run_id=run_id, tags=[
                    PM.TagValue(name="Tag", tick_time=1.0, value=42.5, value_unit="L", value_formatted=mk + "L"),
                    PM.TagValue(name="System State", tick_time=1.0, value="Stopped", value_unit=None)])))
                msgs.append(self.h.handle_MethodMsg(EM.MethodMsg(engine_id=uid, method=PM.Method(version=0, lines=[
                    PM.MethodLine(id="l1", content="Mark: " + mk), PM.MethodLine(id="l2", content="")]))))
                msgs.append(self.h.handle_ErrorLogMsg(EM.ErrorLogMsg(engine_id=uid, log=PM.ErrorLog(entries=[
                    PM.ErrorLogEntry(message="err" + mk, created_time=1.0, severity=40)]))))
            self._do(*msgs)
        elif kind == "start":
            run = ev[2]
            self._do(self.h.handle_RunStartedMsg(EM.RunStartedMsg(engine_id=uid, run_id=run, started_tick=1.7e9)),
                     self.h.handle_RunLogMsg(EM.RunLogMsg(engine_id=uid, id="x", run_id=run, runlog=self._runlog(run))))
        elif kind == "stop":
            run = ev[2]
            self._do(self.h.handle_RunStoppedMsg(EM.RunStoppedMsg(
                engine_id=uid, run_id=run, runlog=self._runlog(run), method_state=PM.MethodState.empty(),
                archive="archive" + marker(run), archive_filename="a" + marker(run) + ".csv")))
        elif kind == "disc":
            self._do(self.h.handle_EngineDisconnected(uid))
        else:
            raise ValueError(kind)

    @staticmethod
    def _runlog(run: str):
        import openpectus.protocol.models as PM
        return PM.RunLog(lines=[PM.RunLogLine(id="line1", command_name="Mark: " + marker(run), start=1.0, end=None,
                                              progress=None, start_values=[], end_values=[])])

    def state(self) -> str:
        """The aggregator's state in the model's vocabulary (engine map, RecentEngines, RecentRuns)."""
        from sqlalchemy import select
        from openpectus.aggregator.data import database
        import openpectus.aggregator.data.models as DMdl

        def rs(roles):
            return roles_wire(sorted(set(roles or [])))

        def run(r):
            return enc(r) if r is not None else "~"
        online = [f"{enc(e.engine_id)}:{rs(e.required_roles)}:{run(e.run_data.run_id if e.has_run() else None)}"
                  for e in self.agg._engine_data_map.values()]
        with database.create_scope():
            ses = database.scoped_session()
            recent = [f"{enc(r.engine_id)}:{rs(r.required_roles)}:{run(r.run_id)}"
                      for r in ses.scalars(select(DMdl.RecentEngine).order_by(DMdl.RecentEngine.id)).all()]
            runs = [f"{enc(r.run_id)}:{rs(r.required_roles)}"
                    for r in ses.scalars(select(DMdl.RecentRun).order_by(DMdl.RecentRun.id)).all()]
        return "\t".join("|".join(x) if x else "~" for x in (online, recent, runs))


class Truth:
    """The specification side of a history, tracked independently of the implementation and of the Lean model:
    a unit requires what its last UodInfo said; a stored run what its unit required when it was stored."""

    def __init__(self):
        self.units: dict[str, list] = {}      # connected units
        self.offline: dict[str, list] = {}
        self.active: dict[str, str] = {}      # unit -> run id (survives a disconnect: the aggregator restores it)
        self.runs: dict[str, list] = {}
        self.markers: dict[str, list] = {}

    def apply(self, ev: list) -> None:
        kind, uid = ev[0], Engine.uid(ev[1])
        self.markers.setdefault(uid, [marker(uid)])
        if kind == "connect":
            self.units[uid] = sorted(set(ev[2]))
            self.offline.pop(uid, None)
        elif kind == "uod":
            if uid in self.units:
                self.units[uid] = sorted(set(ev[2]))
        elif kind == "start" and uid in self.units:
            cur = self.active.get(uid)
            if cur is not None and cur != ev[2]:
                self._store(uid, cur)
            self.active[uid] = ev[2]
        elif kind == "stop" and uid in self.units and uid in self.active:
            self._store(uid, self.active.pop(uid))
        elif kind == "disc" and uid in self.units:
            self.offline[uid] = self.units.pop(uid)

    def _store(self, uid: str, run: str) -> None:
        self.runs.setdefault(run, self.units[uid])
        self.markers[run] = [marker(run), marker(uid)]

    def view(self) -> dict:
        return {"units": dict(self.units), "offline": dict(self.offline), "runs": dict(self.runs),
                "markers": dict(self.markers)}


def history_walk(steps):
    """(k, event, truth after it, run ids to probe after it)"""
    t = Truth()
    seen: set[str] = set()
    for k, ev in enumerate(steps):
        t.apply(ev)
        fresh = [r for r in t.runs if r not in seen]
        seen.update(fresh)
        yield k, ev, t, (list(t.runs) if k == len(steps) - 1 else fresh)


def ev_line(ev: list) -> str:
    kind, uid = ev[0], Engine.uid(ev[1])
    if kind in ("connect", "uod"):
        return "\t".join(["ev", kind, enc(uid), roles_wire(sorted(set(ev[2])))])
    if kind in ("start", "stop"):
        return "\t".join(["ev", kind, enc(uid), enc(ev[2])])
    return "\t".join(["ev", "disc", enc(uid)])


def probes_after(truth: Truth, rows: list[dict], user_sets, run_ids=None) -> list[dict]:
    """Every route x every unit that is or was connected / every stored run x every user-role set; every listing.
    `run_ids`: the stored runs to probe at this step (a stored run never changes: the histories probe it when it
    appears and again at the end)."""
    out = []
    unit_ids = list(truth.units) + list(truth.offline)
    run_ids = list(truth.runs) if run_ids is None else run_ids
    for i, row in enumerate(rows):
        t = row["target"]
        if t in ("unit", "run") and row.get("id_in") not in ("path", "query", "lsp-init"):
            continue
        ids = unit_ids if t == "unit" else run_ids if t == "run" else [""] if t in ("unitsWithRecent", "unitsOnline", "runs") else []
        for oid in ids:
            # a unit that is not connected is simply not found by unit routes: one user set is enough there
            for u in (user_sets[:1] if t == "unit" and oid in truth.offline else user_sets):
                out.append({"route": i, "path": row["path"], "method": row["method"], "handler": row["handler"],
                            "id": oid, "user": list(u)})
    return out


SCENARIOS = [
    # roles set, a run comes and goes, reconnect with other roles, disconnect during a run, restored run stops,
    # roles widened by a later UodInfo, a run replaced by another run
    [["connect", "pc1", ["A"]], ["start", "pc1", "r1"], ["stop", "pc1", "r1"], ["disc", "pc1"],
     ["connect", "pc1", ["B"]], ["start", "pc1", "r2"], ["disc", "pc1"], ["connect", "pc1", ["B"]],
     ["stop", "pc1", "r2"], ["uod", "pc1", ["A", "B"]], ["start", "pc1", "r3"], ["start", "pc1", "r4"],
     ["stop", "pc1", "r4"]],
    # connected earlier with a role-free UOD, the UOD gets roles, reconnect
    [["connect", "pc2", []], ["disc", "pc2"], ["connect", "pc2", ["A"]], ["start", "pc2", "r5"],
     ["stop", "pc2", "r5"], ["disc", "pc2"]],
    # two units
    [["connect", "pc3", ["A"]], ["connect", "pc4", []], ["start", "pc3", "r6"], ["uod", "pc4", ["B"]],
     ["stop", "pc3", "r6"], ["disc", "pc3"], ["start", "pc4", "r7"], ["connect", "pc3", ["A", "B"]],
     ["stop", "pc4", "r7"], ["disc", "pc4"]],
]


def random_history(rng, roles, n: int, tag: str) -> list[list]:
    labels = [f"{tag}a", f"{tag}b"]
    online: dict[str, bool] = {}
    runs = 0
    out = []
    for _ in range(n):
        lab = rng.choice(labels[:rng.choice([1, 2])])
        rs = sorted(set(rng.choice(roles) for _ in range(rng.randrange(0, 3))))
        if not online.get(lab):
            out.append(["connect", lab, rs])
            online[lab] = True
            continue
        k = rng.random()
        if k < 0.3:
            runs += 1
            out.append(["start", lab, f"{tag}run{runs}"])
        elif k < 0.55:
            out.append(["stop", lab, f"{tag}run{runs}"])
        elif k < 0.75:
            out.append(["disc", lab])
            online[lab] = False
        elif k < 0.9:
            out.append(["uod", lab, rs])
        else:
            out.append(["connect", lab, rs])      # re-registration without a disconnect in between
    return out


ROLE_NAMES = ["A", "a", "B", " ", "", "admin", "Admin", "ADMIN", "administrator", "root", "superuser", "*",
              "Daemon", "é", "all", "A "]


def has_access_cases(ctx: Check) -> list[dict]:
    names = ROLE_NAMES if ctx.tier == "thorough" else ROLE_NAMES[:8] + ["root", "*"]
    small = [list(c) for k in range(3) for c in itertools.combinations(names, k)]
    cases = [c for c in load_corpus("C32") if c.get("kind") == "has_access"]
    cases += [{"kind": "has_access", "required": r, "user": u} for r in small for u in small]
    rng = ctx.rng
    for _ in range(ctx.n(300, 5000)):       # larger sets, duplicates in the required list
        r = [rng.choice(ROLE_NAMES) for _ in range(rng.randrange(0, 6))]
        u = sorted(set(rng.choice(ROLE_NAMES) for _ in range(rng.randrange(0, 6))))
        cases.append({"kind": "has_access", "required": r, "user": u})
    return cases


def has_access_impl(c: dict) -> bool:
    from types import SimpleNamespace
    from openpectus.aggregator.routers import auth
    return bool(auth.has_access(SimpleNamespace(required_roles=list(c["required"])), set(c["user"])))


def run(ctx: Check) -> int:
    import time
    from harness.translators import routes
    phases: dict[str, float] = {}
    ctx.extra["phase_seconds"] = phases
    t_ph = [time.time()]

    def phase(name: str) -> None:
        phases[name] = round(time.time() - t_ph[0], 1)
        t_ph[0] = time.time()
    routes.generate()
    phase("translate")
    ctx.prove(MODULE, REQUIRED)
    phase("prove")
    rows = routes.collect()
    app = App()
    ctx.extra["routes_total"] = len(rows)
    ctx.extra["routes_taking_unit_or_run"] = sum(1 for r in rows if r["target"] in ("unit", "run"))
    ctx.extra["routes_taking_object_without_touching_its_data"] = [r["handler"] for r in rows
                                                                   if r["target"] in ("unit", "run") and not r["touches"]]
    ctx.extra["unguarded_routes"] = [r["path"] for r in rows if r["target"] in ("unit", "run") and r["touches"]
                                     and r["guard"] == "none"]
    ctx.extra["object_routes_not_probed"] = [r["path"] for r in rows if r["target"] in ("unit", "run")
                                             and r.get("id_in") not in ("path", "query", "lsp-init")]
    ctx.extra["listing_routes"] = sum(1 for r in rows if r["target"] in ("unitsWithRecent", "unitsOnline", "runs"))
    ctx.rule = ("world: one online unit, one recent engine and one recent run per required-role set over {A,B,C} (8 each) "
                "plus recent-engine rows of online units; every route that takes a unit/run x every object of its kind "
                "(+ a non-existent id) x all 8 user-role sets; every listing x all 8 user-role sets; the LSP websocket "
                "as initialize/didOpen/hover sessions. Thorough adds random worlds with odd role names (case, blank, "
                "empty, non-ASCII) and 2-4 roles. Non-trivial = the object requires at least one role. Histories: the "
                "world is produced by engine events through the real AggregatorMessageHandlers (register+UodInfo with "
                "roles, run started / stopped / replaced, disconnect, reconnect with other roles, later UodInfo; three "
                "fixed scenarios + random ones); after every event the aggregator's state (engine map, RecentEngines, "
                "RecentRuns with their roles) is compared with the model and every route x every known unit / stored "
                "run x every user-role set is probed against the roles of the unit's last UodInfo.")
    worlds = [(base_world(), subsets(["A", "B", "C"]), 1.0)]
    if ctx.tier == "thorough":      # the same, exhaustively, over four roles
        worlds.append((base_world(("A", "B", "C", "D")), subsets(["A", "B", "C", "D"]), 1.0))
    rng = ctx.rng
    for _ in range(ctx.n(1, 15)):
        w = random_world(rng)
        us = subsets(w["roles"])
        worlds.append((w, us, 0.5))
    fails: list[Failure] = []
    index = {(r["path"], r["method"]): i for i, r in enumerate(rows)}
    cases = [dict(c, route=index[(c["path"], c["method"])]) for c in load_corpus("C32")
             if (c.get("path"), c.get("method")) in index]
    for w, user_sets, sample in worlds:
        cases += cases_for(w, rows, user_sets, rng if sample < 1.0 else None, sample)
    current = {"world": None}

    def impl(c):
        if current["world"] != c["world"]:      # cases arrive grouped by world
            app.set_world(c["world"])
            current["world"] = c["world"]
        before = app.snapshot(c["id"])
        status, text = app.request(rows[c["route"]], c["id"], c["user"])
        reads = app.reads()
        after = app.snapshot(c["id"])
        fails.extend(oracle(rows, c, status, text, before, after, static_truth(c["world"]), reads))
        return [canon(rows[c["route"]], status, text)]

    def nontrivial(c, out):
        pools = c["world"]["units"] + c["world"]["runs"]
        return any(i == c["id"] and r for i, r in pools) or out[0].startswith("list")

    # has_access itself, exhaustively over small role sets of a universe with case variants, blanks and
    # super-user-like names (pure function; every run)
    acc_cases = has_access_cases(ctx)
    # histories through the real message handlers, probed after every step
    hist_roles = ["A", "B"] if ctx.tier == "quick" else ["A", "B", "C"]
    hists = [c for c in load_corpus("C32") if c.get("kind") == "history"]
    hists += [{"kind": "history", "steps": sc, "roles": hist_roles} for sc in SCENARIOS]
    for k in range(ctx.n(0, 16)):
        hists.append({"kind": "history", "steps": random_history(rng, hist_roles, ctx.n(7, 10), f"h{k}"),
                      "roles": hist_roles})
    engine = Engine(app)

    def acc_line(op, c):
        return "\t".join([op, roles_wire(c["required"]), roles_wire(c["user"])])

    def hist_lines(c):
        out = []
        for _, ev, t, run_ids in history_walk(c["steps"]):
            out.append(ev_line(ev))
            for p in probes_after(t, rows, subsets(c["roles"]), run_ids):
                out.append("\t".join(["probe", str(p["route"]), enc(p["id"]), roles_wire(p["user"])]))
        return out

    def hist_impl(c):
        app.set_world({"units": [], "recent": [], "runs": []})
        current["world"] = None
        out = []
        for k, ev, t, run_ids in history_walk(c["steps"]):
            engine.apply(ev)
            app.arm_spies()
            out.append(engine.state())
            view = t.view()
            for p in probes_after(t, rows, subsets(c["roles"]), run_ids):
                before = app.snapshot(p["id"])
                status, text = app.request(rows[p["route"]], p["id"], p["user"])
                reads = app.reads()
                after = app.snapshot(p["id"])
                case = {"kind": "history", "steps": c["steps"][:k + 1], "probe": p, "route": p["route"],
                        "id": p["id"], "user": p["user"]}
                fails.extend(oracle(rows, case, status, text, before, after, view, reads))
                out.append(canon(rows[p["route"]], status, text))
                ctx.count("history-probe:" + rows[p["route"]]["target"])
            ctx.count("history-step:" + ev[0])
        return out

    def all_lines(c):
        k = c.get("kind")
        return hist_lines(c) if k == "history" else [acc_line("acc", c)] if k == "has_access" else [line("req", c)]

    def all_impl(c):
        k = c.get("kind")
        if k == "history":
            return hist_impl(c)
        if k == "has_access":
            return ["1" if has_access_impl(c) else "0"]
        return impl(c)

    def all_nontrivial(c, out):
        k = c.get("kind")
        return True if k == "history" else bool(c["required"]) if k == "has_access" else nontrivial(c, out)

    # one driver session for everything (the interpreter's start-up is the expensive part on a busy machine)
    everything = cases + acc_cases + hists
    _, mo = ctx.correspond("requests+has_access+histories", "Access", everything, all_lines, all_impl, all_nontrivial,
                           impl_timeout=300)
    for c in cases:
        ctx.count(("lsp:" if rows[c["route"]]["router"] == "lsp" else "") + rows[c["route"]]["target"])
    ctx.count("has_access-pairs", len(acc_cases))
    ctx.count("histories", len(hists))
    if mo:
        sel = list(range(min(3000, len(cases)))) + list(range(len(cases), len(cases) + min(2500, len(acc_cases))))
        ctx.selftest("requests+has_access", "Access", [everything[i] for i in sel],
                     lambda c: [acc_line("accmut", c)] if c.get("kind") == "has_access" else [line("reqmut", c)],
                     [mo[i] for i in sel])
    for c in acc_cases:
        R, U = set(c["required"]), set(c["user"])
        r = has_access_impl(c)
        if R and not (R & U) and r:
            fails.append(Failure("has-access-grants-without-role", c,
                                 f"has_access(required_roles={c['required']}, user_roles={sorted(U)}) is True"))
        elif not R and not r:
            fails.append(Failure("has-access-denies-open-object", c,
                                 f"has_access(required_roles=[], user_roles={sorted(U)}) is False"))
    phase("correspondence")
    for f in fails:
        ctx.fail(f)
    ctx.exhaustive = True
    ctx.extra["exhaustive_scope"] = ("all routes x all objects of the base world x all user-role sets over 3 roles; random "
                                     "worlds are sampled")
    ctx.assumptions = ["user roles reach the handlers through the user_roles dependency (overridden in the harness; "
                       "token decoding is outside this property)",
                       "the dispatcher is replaced by a recorder (rpc calls are counted, not sent)",
                       "handler bodies after the guard are abstracted to 'the request went through'"]
    rc = ctx.finish(search=_search)
    from harness import agg_app
    agg_app.cleanup()
    return rc


def _search(ctx: Check) -> None:
    """Proof or correspondence broke: the oracle has already run on every case of this run; nothing further."""
    return None


def replay(obj) -> int:
    from harness.translators import routes
    c = obj.get("case", {})
    if c.get("kind") == "has_access":
        r = has_access_impl(c)
        R, U = set(c["required"]), set(c["user"])
        print(f"has_access(required_roles={c['required']}, user_roles={sorted(U)}) = {r}")
        bad = (bool(R) and not (R & U) and r) or (not R and not r)
        print("property: lacking every required role -> False; no required roles -> True;", "VIOLATED" if bad else "ok")
        return 1 if bad else 0
    rows = routes.collect()
    if c.get("kind") == "history":
        app = App()
        engine = Engine(app)
        app.set_world({"units": [], "recent": [], "runs": []})
        t = Truth()
        for ev in c["steps"]:
            engine.apply(ev)
            t.apply(ev)
            print("event", ev, "-> state", engine.state().replace("\t", "  |  "))
        p = c["probe"]
        idx = next((i for i, r in enumerate(rows) if r["path"] == p["path"] and r["method"] == p["method"]), p["route"])
        p = dict(p, route=idx)
        app.arm_spies()
        before = app.snapshot(p["id"])
        status, text = app.request(rows[idx], p["id"], p["user"])
        reads = app.reads()
        after = app.snapshot(p["id"])
        print(f"{rows[idx]['method']} {rows[idx]['path']}  id={p['id']!r} user_roles={p['user']}")
        print("EngineData attributes touched by the request:", reads)
        print("required by the last UodInfo:", t.view()["units"], "offline:", t.view()["offline"], "runs:", t.view()["runs"])
        print("status:", status, "body:", text[:600])
        fs = oracle(rows, p, status, text, before, after, t.view(), reads)
        for f in fs:
            print("oracle:", f.key, "-", f.detail[:300])
        return 1 if fs else 0
    if "route" not in c:
        print(json.dumps(obj, indent=1)[:3000])
        return 0
    # the route is looked up by path+method so that a replay survives re-ordering of the table
    idx = next((i for i, r in enumerate(rows) if r["path"] == c.get("path") and r["method"] == c.get("method")), c["route"])
    c = dict(c, route=idx)
    app = App()
    app.set_world(c["world"])
    before = app.snapshot(c["id"])
    status, text = app.request(rows[idx], c["id"], c["user"])
    reads = app.reads()
    after = app.snapshot(c["id"])
    print(f"{rows[idx]['method']} {rows[idx]['path']}  id={c['id']!r} user_roles={c['user']}")
    print("status:", status, "body:", text[:600])
    print("unit state / rpc calls before -> after:", before, "->", after)
    print("EngineData attributes touched by the request:", reads)
    fs = oracle(rows, c, status, text, before, after, static_truth(c["world"]), reads)
    for f in fs:
        print("oracle:", f.key, "-", f.detail[:300])
    return 1 if fs else 0
