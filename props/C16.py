"""C16 Reported tag times are the engine time of the change.

Proof half: OPM.Properties.C16 — (1) tables regenerated from the source: every set_value / simulate_value call site
passes the tick time (or the wall clock, pinned list; or forwards), none a tick number; the `_tick_time` fields only
ever hold the `tick_time` parameter; (2) generic theorems over the tag model: if every stamping operation of a tick
passes the tick's time, a tag whose value was set in the tick carries the tick's time, reported times never
decrease and lie within [start, now].
Tie half: recorded traces of real engine runs (every primitive call with the time it was actually given)
replayed on the model, comparing every report incl. time stamps; unit operation sequences with adversarial
time arguments (0.0, tick numbers, earlier times) against the real objects.
Oracle: the property over the report stream of real engine runs.
"""
from __future__ import annotations

import json
from pathlib import Path

from vp.core import Check, Failure, ImplTimeout, quiet_logging, with_timeout

META = dict(
    level_text="Lean 4 theorems over the tag/report model plus tables regenerated from the source on every run. "
               "(1) The time argument is DERIVED, not assumed: every call of set_value / set_value_and_unit / "
               "simulate_value / simulate_value_and_unit (56 sites in tags.py, tags_impl.py, pinterpreter.py, engine.py, "
               "internal_commands_impl.py, archiver.py, hardware_recovery.py) is translated together with the expression "
               "it passes as time (tick_time parameter, Engine._tick_time, PInterpreter._tick_time, wall clock, forwarded "
               "argument); Engine.tick and PInterpreter.tick_iterate_subticks are translated into statement lists; the "
               "model evaluates a site's expression in the environment those statements produce at the phase in which "
               "the site runs. Theorems: the field assignment precedes every call that can reach a tag "
               "(engine_tick_assigns_before_use, generic soundness lemma advance_fresh), the interpreter assigns its "
               "field first, tick times are only handed down as the caller's own parameter, hence at every phase "
               "parameter, fields and wall clock read the tick's time (phase_env_fresh, interp_env_fresh) and every "
               "site's operation is okAt t (site_time_is_tick_time). (2) Generic theorems (all operation / tick "
               "sequences): a tag whose value was set in a tick carries that tick's time in the next report; reported "
               "times never decrease; every reported time lies in [engine start, current tick]. Tie: recorded traces of "
               "real engine runs are replayed WITHOUT their time arguments (tick start, phases, call sites); the model's "
               "derived time is compared with the time the code actually passed, and every report is compared.",
    level_note="Model follows the repaired code (commits ca093363 / 8b42f9d0). Assumption: a wall clock read inside a tick "
               "equals the tick time (exact under the harness' virtual clock; in production later by the tick's compute "
               "time) - the wall-clock sites are characterised structurally by a theorem (only where no tick time is at hand), and runs with a clock that advances inside the "
               "tick check that only the tags of those sites deviate. The oracle is two-sided and exact: runs are "
               "observed call by call, a reported time must equal the time of the tick of the last call that changed the "
               "tag (only exception: the engine's stamp of all system tags in its first tick); after stop_simulation the "
               "time of the last change of either the real or the simulated value is accepted. Call sites are matched "
               "by file and line of the outermost non-wrapper caller. Trusted: Lean kernel, harness (recorder), AST "
               "translator. DerivedTag not modelled; initial values carry the construction time (= engine start).",
    technique="Lean 4 proof (time argument derived from translated tick structure; stamp invariants over operation / "
              "tick sequences) + translated tables (decide +kernel) + trace correspondence without time arguments + "
              "exact two-sided engine-level oracle",
)
MODULE = "OPM.Properties.C16"
REQUIRED = ["OPM.C16.sites_pass_tick_time", "OPM.C16.wall_clock_only_without_tick_time",
            "OPM.C16.forward_sites_are_wrappers", "OPM.C16.tick_time_fields_hold_the_tick_time",
            "OPM.C16.every_site_passes_the_tick_time", "OPM.C16.changed_value_carries_tick_time",
            "OPM.C16.reported_change_carries_tick_time", "OPM.C16.reported_times_within_start_now",
            "OPM.C16.reported_times_monotone", "OPM.C16.blockTime_passes_event_time",
            "OPM.C16.scopeTime_passes_event_time", "OPM.C16.engine_tick_ops_pass_tick_time",
            "OPM.C16.sites_expr_ok", "OPM.C16.engine_tick_assigns_before_use", "OPM.C16.interp_tick_assigns_first",
            "OPM.C16.tick_time_handed_down", "OPM.C16.phase_env_fresh", "OPM.C16.interp_env_fresh",
            "OPM.C16.site_time_is_tick_time", "OPM.C16.first_tick_stamp_is_tick_time"]
CORPUS = Path(__file__).resolve().parent.parent / "corpus" / "C16"
SKEW = 1.0 / 64


def oracle(case: dict, res: dict, wall_classes: set[str]) -> tuple[list[Failure], int]:
    """C16 over the report stream of one real run, two-sided: a reported time must be exactly the time of the tick
    in which the tag's value was last set — not earlier (stale), not later (re-stamped while unchanged, or stamped
    at report time), inside [engine start, current tick], never decreasing per tag.

    "The tick in which the value was last set" is known exactly: the run is observed call by call (`res['mut']`:
    every primitive call that changed a field of the tag, with its tick).  The only stamp without a change that is
    accepted is the one the engine gives all system tags in its first tick ("provide first tick time as a default").
    Returns (failures, tolerated wall-clock stamps in runs whose clock advances inside the tick)."""
    fails: list[Failure] = []
    keys: set[str] = set()
    tolerated = 0

    def fail(key: str, detail: str):
        if key not in keys:
            keys.add(key)
            fails.append(Failure(key, case, detail))

    start, ticks, skew = res["start"], res["tick_times"], res["skew"]
    grid = set(ticks) | {start}
    system = set(res.get("system", []))
    mut = res["mut"] or []
    mp = 0
    expect: dict[str, float] = {}          # tag -> time of the tick of its last change (start: construction)
    changed_in: dict[str, int] = {}
    last_stamp: dict[str, float] = {}
    for ob in res["obs"]:
        k = ob["tick"]                       # report taken after tick k (-1: before the first tick)
        now = ticks[k] if k >= 0 else start
        while mp < len(mut) and mut[mp][0] <= k:
            tk, name, kind = mut[mp]
            mp += 1
            if kind in ("set", "sim"):
                expect[name] = ticks[tk] if tk >= 0 else start
                changed_in[name] = tk
            elif kind == "stamp" and tk == 0 and name in system:
                expect[name] = ticks[0]
                changed_in[name] = 0
        for name, value, stamp, _sim in ob["entries"]:
            where = f"report after tick {k} (engine time {now}): {name!r} = {value!r} carries time {stamp}"
            want = expect.get(name, start)
            wall_ok = any(c in wall_classes for c in res["classes"].get(name, []))
            if skew and stamp not in grid and (stamp - skew) in grid and stamp - skew <= now:
                # a wall clock read inside a tick (only in the runs whose clock advances inside the tick)
                if wall_ok and stamp - skew == want:
                    tolerated += 1
                elif not wall_ok:
                    fail(f"wall-clock-stamp:{name}", where + " = wall clock inside the tick, not the tick's time")
                else:
                    fail(f"stale-time:{name}" if stamp - skew < want else f"time-later-than-change:{name}",
                         where + f", the value was last set at engine time {want}")
            else:
                if stamp < start:
                    fail(f"time-before-engine-start:{name}", where + f", engine started at {start}")
                elif stamp > now:
                    fail(f"time-after-current-tick:{name}", where)
                elif stamp not in grid:
                    fail(f"time-not-a-tick-time:{name}", where + ", which is not the time of any tick")
                if stamp < want:
                    fail(f"stale-time:{name}", where + f", but the value was set in tick {changed_in.get(name)} "
                                                       f"(engine time {want})")
                elif stamp > want and start <= stamp <= now:
                    fail(f"time-later-than-change:{name}",
                         where + f", but the value was last set in tick {changed_in.get(name, 'none (initial value)')} "
                                 f"(engine time {want}) and has not changed since")
            if name in last_stamp and stamp < last_stamp[name]:
                fail(f"time-decreased:{name}", where + f", earlier report showed {last_stamp[name]}")
            last_stamp[name] = stamp
    return fails, tolerated


def corpus_cases() -> list[dict]:
    if not CORPUS.is_dir():
        return []
    return [json.loads(p.read_text()) for p in sorted(CORPUS.glob("*.json"))]


def wall_clock_classes(table: dict) -> set[str]:
    return {s["func"].split(".")[0] for s in table["set_sites"] if s["cls"] == "wallClock"}


def run(ctx: Check) -> int:
    quiet_logging()
    from harness import tagrep
    from harness.translators import tag_sites
    table = tag_sites.generate()
    by_cls: dict[str, int] = {}
    for s in table["set_sites"]:
        by_cls[s["cls"]] = by_cls.get(s["cls"], 0) + 1
    ctx.extra["translated"] = {"set_sites": len(table["set_sites"]), "by_time_class": by_cls,
                               "not_ok": [f"{s['file']}:{s['line']} {s['func']} {s['method']}({s['arg']})"
                                          for s in table["set_sites"] if s["cls"] in ("tickNumber", "other")]}
    wall = wall_clock_classes(table)
    ctx.prove(MODULE, REQUIRED)
    rng = ctx.rng

    # ---- recorded engine traces: correspondence incl. time stamps, and the oracle on the same runs
    cases = corpus_cases()
    n_corpus = len(cases)
    cases += [tagrep.gen_case(rng, malformed=(i % 6 == 5)) for i in range(ctx.n(30, 1200))]
    cases += [tagrep.gen_lock_case(rng) for _ in range(ctx.n(6, 150))]      # blocks that wait for the block lock
    results: dict[int, dict] = {}

    def traced(c):
        k = id(c)
        if k not in results:
            try:
                results[k] = with_timeout(60, lambda: tagrep.run_case(c, record=True))
            except ImplTimeout:
                results[k] = {"lines": ["collect\t0\t0"], "answers": ["TIMEOUT: engine run exceeded 60 s"], "obs": [],
                              "fields": [], "tick_times": [], "start": 0.0, "raised": [], "skew": 0.0, "classes": {},
                              "mut": [], "system": []}
        return results[k]

    def interesting(c, o):
        kinds = {f[3] if f[0] == "sat" else f[0] for f in (ln.split("\t") for ln in traced(c)["lines"])}
        return bool(kinds & {"sim", "simoff"}) or any("Block:" in ln for ln in c["pcode"].split("\n"))

    _, mout = ctx.correspond("engine-trace", "Tags", cases, lambda c: traced(c)["lines"],
                             lambda c: traced(c)["answers"], nontrivial=interesting, impl_timeout=60)
    block_idx = "2"   # position of the Block tag in Engine._iter_all_tags()

    def mutant(c):
        """a model that never runs tick_iterate_subticks' assignment: the interpreter's sites see last tick's field"""
        return [ln for ln in traced(c)["lines"] if ln != "phase\tself.interpreter.tick"]
    if mout:
        ctx.selftest("engine-trace", "Tags", cases, mutant, mout)
    for c in cases:
        r = traced(c)
        for ln in r["lines"]:
            f = ln.split("\t")
            ctx.count("trace:" + f[0] + (":" + f[1] if f[0] == "phase" else "") +
                      (":Block" if f[0] == "sat" and f[4] == block_idx else ""))
            if f[0] == "sat":
                ctx.count("site:" + f[1].split("/")[-1] + ":" + f[2])
        ctx.count("runs:malformed" if c.get("malformed") else "runs:wellformed")
        ctx.count("reports", len(r["obs"]))
        ctx.count("reported-entries", sum(len(o["entries"]) for o in r["obs"]))
        fs, _ = oracle(c, r, wall)
        for f in fs:
            ctx.fail(f)
        ctx.evaluations += 1

    # ---- unit operations with adversarial time arguments (zero stamp, tick numbers, earlier times)
    unit_cases = [tagrep.gen_unit_ops(rng, rng.randrange(8, 40)) for _ in range(ctx.n(100, 5000))]
    cache: dict[int, tuple[list[str], list[str]]] = {}

    def unit(c):
        k = id(c)
        if k not in cache:
            cache[k] = tagrep.run_unit_ops(c)
        return cache[k]
    ctx.correspond("tag-ops", "Tags", unit_cases, lambda c: unit(c)[0], lambda c: unit(c)[1],
                   nontrivial=lambda c, o: any(x not in ("ok", "-") and not x.startswith(("ok ", "err")) for x in o))

    # ---- more oracle runs; some with a wall clock that advances inside the tick
    tolerated = [0]
    more = [(tagrep.gen_case(rng, malformed=(i % 6 == 5)), SKEW if i % 4 == 3 else 0.0) for i in range(ctx.n(50, 3000))]
    more += [(tagrep.gen_gap_case(rng), 0.0) for _ in range(ctx.n(10, 300))]    # reports after gaps of 1..300 ticks

    more += [(tagrep.gen_lock_case(rng), 0.0) for _ in range(ctx.n(10, 300))]

    def watch(cs):
        c, skew = cs
        fs, tol = oracle(c, tagrep.run_case(c, skew=skew, observe=True), wall)
        tolerated[0] += tol
        ctx.count("oracle-runs:skewed-clock" if skew else "oracle-runs:grid-clock")
        return fs
    ctx.monitor(more, watch, impl_timeout=60, timeout_key="engine-run-timeout")
    ctx.extra["wall_clock_stamps_seen_in_skewed_runs"] = tolerated[0]
    ctx.extra["wall_clock_classes"] = sorted(wall)
    ctx.rule = ("engine-trace: grammar-generated methods (blocks, End block(s), watches, alarms, macros, waits, marks, "
                "run counter, base, commands, output commands, timed Pause/Hold, Simulate / Simulate off incl. failing "
                "ones, 1 in 6 malformed) x 40-tick schedules (dt 1/8-1/2 s) with register plans (condition tags, "
                "totalizer -> accumulators), user commands (Pause/Unpause/Hold/Unhold/Stop/Start/Restart), reports "
                "after 1-5 ticks (12 % snapshots); plus block-lock contention methods (a Block inside a Watch/Alarm "
                "that has to wait for the lock). Every Engine.tick start, phase, primitive call (with call site) and "
                "direct stamp is recorded; the model gets tick start, phases and sites but NOT the time arguments and "
                "answers with the time it derives; non-trivial = a simulation or a block occurs. tag-ops: random "
                "operation sequences on the real objects with 20 % adversarial time arguments. Oracle runs: same "
                "generators observed call by call, every 4th with a wall clock that advances 1/64 s inside each tick; "
                f"long-gap runs (reports after 1-300 ticks). {n_corpus} corpus cases run first.")
    ctx.exhaustive = False
    ctx.assumptions = ["a wall clock read inside a tick equals the tick time (virtual clock; wall-clock sites only where no tick time is at hand)",
                       "tick times handed to Engine.tick do not decrease",
                       "tags carry their construction time until first set; construction time is taken as engine start",
                       "reports are taken between engine ticks"]
    return ctx.finish(search=lambda c: search(c, wall))


def search(ctx: Check, wall: set[str]) -> None:
    from harness import tagrep
    rng = ctx.rng
    pool = corpus_cases() + [tagrep.gen_case(rng, malformed=(i % 5 == 4)) for i in range(ctx.n(150, 1500))]
    jobs = [(c, skew) for i, c in enumerate(pool) for skew in ((0.0, SKEW) if i % 2 == 0 else (0.0,))]
    for k in range(0, len(jobs), 25):
        ctx.monitor(jobs[k:k + 25], lambda cs: oracle(cs[0], tagrep.run_case(cs[0], skew=cs[1], observe=True), wall)[0],
                    impl_timeout=60, timeout_key="engine-run-timeout")
        if ctx.failures:
            return


def replay(obj) -> int:
    quiet_logging()
    from harness import tagrep
    from harness.translators import tag_sites
    wall = wall_clock_classes(tag_sites.scan())
    c = obj.get("case", {})
    if isinstance(c, dict) and "pcode" in c:
        print(c["pcode"])
        rc = 0
        for skew in (0.0, SKEW):
            r = tagrep.run_case(c, skew=skew, observe=True)
            if not skew:
                for ob in r["obs"]:
                    print(f"report after tick {ob['tick']} ({ob['kind']}):",
                          sorted((n, v, t) for n, v, t, _ in ob["entries"] if n not in ("Clock", "Process Time", "Run Time")))
            fs, tol = oracle(c, r, wall)
            for f in fs:
                print(f"oracle (skew {skew}):", f.key, "-", f.detail)
            rc = rc or (1 if fs else 0)
        return rc
    if isinstance(c, list):
        lines, answers = tagrep.run_unit_ops(c)
        for ln, a in zip(lines, answers):
            print(ln.replace("\t", " ")[:160], "->", a[:300])
        return 0
    print(obj)
    return 0
