"""C21 Unit-aware comparisons are exact, consistent and symmetric.

Proof half: OPM.Properties.C21 over the model OPM.Model.Units (units.py + the part of pint / decimal it runs
through) and the regenerated unit table OPM.Gen.UnitTable.
Tie half: (a) translation: the unit table is regenerated from QUANTITY_UNIT_MAP / QUANTITY_PINT_MAP / the pint
registry on every run, the table theorems are re-checked; (b) correspondence of `are_comparable`,
`get_compatible_unit_names`, `compare_values` with the model on all unit pairs × generated decimal strings.

The model follows the code WITH fixes/C21-operator-consistency-and-symmetry.diff applied (operator consistency and
order-independence are repaired); exactness is limited by pint's 28-digit Decimal arithmetic and '%' vs 'mol%'
cannot be converted: both are recorded findings (findings.d/C21.json), with `_counterexample` / `_partial` theorems.
"""
from __future__ import annotations

import json
from fractions import Fraction as F

from vp.core import Check, Failure, enc, load_corpus
from vp.core import reraise_harness_fault as core_reraise

META = dict(
    level_text="Lean 4 theorems over a model of units.py and of the pint/decimal arithmetic it uses (28-digit "
               "half-even rounding, offset converters), for ALL decimal strings and all units of the regenerated table: "
               "comparability is order-independent; for numeric operands the seven operators are mutually consistent "
               "(exactly one of < = >, != is not =, <= is < or =, >= is > or =, == is =) whatever the conversion does; "
               "the result equals the exact comparison of the physical quantities whenever the unit conversion incurs no "
               "rounding, and always for equal units; comparable units always yield an answer when all units of a quantity "
               "are pint-convertible (C21_total; the table fact is C20's table_convertible). Full exactness is refuted in "
               "Lean by concrete witnesses (C21_exact_counterexample) and recorded as known findings, one per ordered "
               "unit pair, emitted by the oracle only when the exact values differ by <= 1e-26 relative (28th digit); a "
               "coarser wrong answer on the same pair is a violation.",
    level_note="Partial: exactness holds only under the explicit hypothesis that pint's Decimal conversion of the second "
               "operand is exact (C21_exact_partial); '%' vs 'mol%' raises on trees without "
               "fixes/C20-units-molpercent-and-simulate-conversion.diff (finding kept, not required to reproduce). "
               "The model follows the code with "
               "fixes/C21-operator-consistency-and-symmetry.diff; on the unrepaired tree the check reports a violation "
               "(operators inconsistent / comparability asymmetric). Trusted: Lean kernel, the translator and harness, "
               "the model of Decimal/pint arithmetic (validated differentially). NaN/Infinity/non-ASCII digits, "
               "exponents beyond ±60 and units added at run time by add_unit are outside the scope.",
    technique="Lean 4 proof (order reasoning over Rat, generic in the conversion function; table facts by kernel "
              "evaluation) + translated unit table + differential correspondence on all unit pairs",
)
MODULE = "OPM.Properties.C21"
REQUIRED = ["OPM.C21.areComparable_symm", "OPM.C21.operators_consistent", "OPM.C21.ne_is_not_eq",
            "OPM.C21.exact_same_unit", "OPM.C21.C21_exact_partial", "OPM.C21.C21_exact_counterexample",
            "OPM.C21.C21_total", "OPM.C21.C21_total_counterexample", "OPM.C21.table_WF", "OPM.C21.table_comparable_symm"]
OPS = ["<", "<=", "=", "==", ">", ">=", "!="]

# Exact physical definitions, written down independently of the code (value_in_base = v*scale + offset;
# the base is arbitrary per quantity).  Units the code knows and this table does not are skipped by the oracle
# (counted), never guessed.
REF: dict[str, tuple[F, F]] = {k: (F(s), F(o)) for k, (s, o) in {
    "s": (1, 0), "min": (60, 0), "h": (3600, 0), "ms": (F(1, 1000), 0),
    "m": (100, 0), "cm": (1, 0),
    "m**2": (10000, 0), "m2": (10000, 0), "dm2": (100, 0), "cm2": (1, 0),
    "kg": (1000, 0), "g": (1, 0),
    "kg/L": (1000, 0), "g/L": (1, 0),
    "K": (1, 0), "degC": (1, F(27315, 100)), "°C": (1, F(27315, 100)),
    "degF": (F(5, 9), F(45967, 180)), "°F": (F(5, 9), F(45967, 180)),
    "mol": (1, 0),
    "L": (1000, 0), "mL": (1, 0),
    "L/h": (24, 0), "L/min": (1440, 0), "L/d": (1, 0),
    "Hz": (1, 0), "kHz": (1000, 0),
    "Pa": (1, 0), "pascal": (1, 0), "bar": (100000, 0),
    "kg/h": (1000, 0), "g/s": (3600, 0), "g/min": (60, 0), "g/h": (1, 0),
    "mS/cm": (1000, 0), "µS/cm": (1, 0),
    "%": (1, 0), "vol%": (1, 0), "wt%": (1, 0), "mol%": (1, 0),
    "CV": (1, 0),
    "AU": (1000, 0), "mAU": (1, 0), "milliAU": (1, 0),
    "LMH/bar": (1, 0), "L/m2/h/bar": (1, 0), "L/h/m2/bar": (1, 0),
    "LMH": (1, 0), "L/m2/h": (1, 0), "L/h/m2": (1, 0),
}.items()}


# Which spellings denote units of one physical quantity — written down independently of the code, like REF.
# Units of one group must be comparable with each other whatever their spelling, units of different groups must not.
SAME_QUANTITY: list[list[str]] = [
    ["s", "min", "h", "ms"], ["m", "cm"], ["m**2", "m2", "dm2", "cm2"], ["kg", "g"], ["kg/L", "g/L"],
    ["K", "degC", "°C", "degF", "°F"], ["mol"], ["L", "mL"], ["L/h", "L/min", "L/d"], ["Hz", "kHz"],
    ["Pa", "pascal", "bar"], ["kg/h", "g/s", "g/min", "g/h"], ["mS/cm", "µS/cm"], ["%"], ["vol%"], ["wt%"], ["mol%"], ["CV"],
    ["AU", "mAU", "milliAU"], ["LMH/bar", "L/m2/h/bar", "L/h/m2/bar"], ["LMH", "L/m2/h", "L/h/m2"],
]
# a volume, a weight and a mole fraction are different things; whether a plain '%' may be compared with them is a
# design choice the oracle does not take sides on: pairs of two different members are not judged
PERCENT_FAMILY = {"%", "vol%", "wt%", "mol%"}
GROUP_OF = {u: i for i, g in enumerate(SAME_QUANTITY) for u in g}
assert set(GROUP_OF) == set(REF), "REF and SAME_QUANTITY list the same units"


def judge_comparability(comparable: dict) -> list[Failure]:
    """`comparable`: (ua, ub) -> 'T' | 'F' | err…  over ordered pairs of unit names.  Order independence for all pairs;
    for the units the oracle knows: same quantity ⇔ comparable, in whatever spelling."""
    fails = []
    for (a, b), r in comparable.items():
        if str(a) <= str(b) and (b, a) in comparable and r != comparable[(b, a)]:
            fails.append(Failure("comparability-asymmetric", {"ua": a, "ub": b},
                                 f"are_comparable({a!r}, {b!r}) = {r} but are_comparable({b!r}, {a!r}) = {comparable[(b, a)]}"))
        if a in GROUP_OF and b in GROUP_OF and not (a != b and a in PERCENT_FAMILY and b in PERCENT_FAMILY):
            same = GROUP_OF[a] == GROUP_OF[b]
            pair = "|".join(sorted([a, b]))
            if same and r != "T":
                fails.append(Failure(f"same-quantity-not-comparable:{pair}", {"ua": a, "ub": b},
                                     f"are_comparable({a!r}, {b!r}) = {r} although both are units of one quantity "
                                     f"({', '.join(SAME_QUANTITY[GROUP_OF[a]])})"))
            if not same and r != "F":
                fails.append(Failure(f"different-quantities-comparable:{pair}", {"ua": a, "ub": b},
                                     f"are_comparable({a!r}, {b!r}) = {r} although they are units of different quantities"))
    return fails


def uenc(u) -> str:
    return "N" if u is None else enc(u)


def classify(e: BaseException) -> str:
    if isinstance(e, NotImplementedError):
        return "err:notimpl"
    name = type(e).__name__
    if isinstance(e, ValueError) and name == "ValueError":
        m = str(e)
        for pre, code in (("Cannot compare values with incompatible units", "incompatible"),
                          ("Cannot compare values, first value", "first"),
                          ("Cannot compare values, second value", "second"),
                          ("Invalid operator", "badop"), ("Conversion error", "conversion"),
                          ("Invalid unit", "invalidunit")):
            if m.startswith(pre):
                return "err:" + code
    if name == "UndefinedUnitError":
        return "err:undefinedunit"
    return "err:other:" + name


def res(fn) -> str:
    try:
        r = fn()
    except Exception as e:  # noqa: BLE001 - every exception is an observation here
        return classify(e)
    return "T" if r is True else "F" if r is False else f"val:{r!r}"


# ----------------------------------------------------------------------------------------------------------
# decimal strings

def dec_str(x: F, max_digits: int = 400) -> str | None:
    """Exact decimal literal of a fraction, or None if it does not terminate within max_digits."""
    n, d = x.numerator, x.denominator
    k = 0
    while d % 10 == 0:
        d //= 10
        k += 1
    t2 = t5 = 0
    while d % 2 == 0:
        d //= 2
        t2 += 1
    while d % 5 == 0:
        d //= 5
        t5 += 1
    if d != 1:
        return None
    k += max(t2, t5)
    m = x * 10 ** k
    assert m.denominator == 1
    digits = str(abs(m.numerator))
    if len(digits) > max_digits:
        return None
    if k:
        digits = digits.rjust(k + 1, "0")
        s = digits[:-k] + "." + digits[-k:]
    else:
        s = digits
    return ("-" if x < 0 else "") + s


def sig_digits(x: F) -> int | None:
    """Number of significant decimal digits of a terminating fraction (None: not terminating)."""
    s = dec_str(x, 10 ** 6)
    if s is None:
        return None
    d = s.lstrip("-").replace(".", "").lstrip("0").rstrip("0") if "." in s else s.lstrip("-").lstrip("0").rstrip("0")
    return max(1, len(d))


def parse_literal(s: str) -> F | None:
    """Reference reading of a decimal literal (independent of decimal.Decimal): [sign]digits[.digits][e[sign]digits]."""
    import re
    m = re.fullmatch(r"([+-]?)(\d*)(?:\.(\d*))?(?:[eE]([+-]?\d+))?", s)
    if not m or not (m.group(2) or m.group(3)):
        return None
    sign, ip, fp, ex = m.group(1), m.group(2) or "", m.group(3) or "", int(m.group(4) or 0)
    v = F(int((ip + fp) or "0")) * F(10) ** (ex - len(fp))
    return -v if sign == "-" else v


def rand_decimal(rng, temperature: bool = False) -> str:
    kind = rng.random()
    if kind < 0.35:
        s = str(rng.randrange(0, 200))
    elif kind < 0.7:
        s = f"{rng.randrange(0, 5000)}.{rng.randrange(0, 10 ** rng.randrange(1, 5)):0{rng.randrange(1, 4)}d}"
    elif kind < 0.8:
        s = rng.choice(["0", "0.0", "1", "1.0", "24", "32", "60", "100", "273.15", "0.001", ".5", "5.", "+7", "1e3",
                        "1E-3", "2.5e+2", "00012.500", "1000000", "86400"])
    elif kind < 0.9:
        s = "".join(rng.choice("0123456789") for _ in range(rng.randrange(18, 41))).lstrip("0") or "0"
        p = rng.randrange(0, len(s) + 1)
        s = (s[:p] or "0") + ("." + s[p:] if s[p:] else "")
    else:
        s = f"{rng.randrange(1, 10 ** rng.randrange(1, 12))}e{rng.randrange(-30, 31)}"
    if temperature and rng.random() < 0.3 or rng.random() < 0.08:
        if s[0] not in "+-":
            s = "-" + s
    return s


def value_pairs(rng, ua, ub, k: int) -> list[tuple[str, str, str]]:
    """k (value_a, value_b, kind) pairs for units ua, ub (comparable)."""
    out = []
    temp = ua in ("degC", "degF", "K", "°C", "°F")
    ra, rb = REF.get(ua or ""), REF.get(ub or "")
    if ua is None:
        ra = rb = (F(1), F(0))
    for i in range(k):
        r = rng.random()
        vb = rand_decimal(rng, temp)
        if r < 0.25 or ra is None or rb is None:
            out.append((rand_decimal(rng, temp), vb, "random"))
            continue
        y = parse_literal(vb)
        x = ((y * rb[0] + rb[1]) - ra[1]) / ra[0]  # b expressed in unit a, exactly
        xs = dec_str(x)
        if xs is None:  # not terminating: closest 28/30/34-digit neighbours instead
            digits = rng.choice([20, 27, 28, 29, 34])
            q = 10 ** digits
            # scale to `digits` fractional digits
            lo = F((x * q).__floor__(), q)
            xs = dec_str(lo + (F(1, q) if rng.random() < 0.5 else 0))
            out.append((xs, vb, "near-nonterminating"))
            continue
        if r < 0.55:
            out.append((xs, vb, "equal-after-conversion"))
        else:
            kdig = rng.choice([3, 10, 15, 16, 17, 18, 20, 26, 27, 28, 29, 30, 35])
            delta = F(1, 10 ** kdig) * (1 if rng.random() < 0.5 else -1)
            if x != 0 and rng.random() < 0.5:
                delta *= 10 ** (len(str(abs(int(x)))) if abs(x) >= 1 else 0)  # relative perturbation
            out.append((dec_str(x + delta) or xs, vb, f"neighbour-1e-{kdig}"))
    return out


MALFORMED_VALUES = ["", "foo", "bar", "1..2", "1e", "--1", "1 2", " 7 ", "1_0", "abc", "5,0", "0x10", "7", "7.0", "."]
MALFORMED_OPS = ["><", "=>", "", "<>", "===", " <", "lt"]


# ----------------------------------------------------------------------------------------------------------
# the oracle (independent of the Lean model)

def _terminates28(x: F) -> bool:
    d = sig_digits(x)
    return d is not None and d <= 28


def inexact_cause(ua: str, ub: str, va: str, vb: str) -> str:
    """Why pint's Decimal arithmetic cannot be exact for converting b into a's unit (or 'unexplained')."""
    (sa, oa), (sb, ob) = REF[ua], REF[ub]
    offs = oa != 0 or ob != 0
    consts = [sb, ob, sa, oa] if offs else [sb / sa]
    if offs:
        consts += [1 / sa] if sa != 1 else []
    if not all(_terminates28(c) for c in consts):
        return "rounded-conversion-factor"
    x, y = parse_literal(va), parse_literal(vb)
    inter = [y, y * sb, y * sb + ob, (y * sb + ob - oa), (y * sb + ob - oa) / sa] if offs else [y, y * sb / sa]
    if not all(_terminates28(v) for v in inter) or not _terminates28(x):
        return "more-than-28-digits"
    return "unexplained"


ROUNDING_TOLERANCE = F(1, 10 ** 26)


def within_rounding(ua: str, ub: str, x: F, y: F) -> bool:
    """Is a wrong answer for `x ua` vs `y ub` explainable by 28-digit Decimal rounding in the conversion of b into a's
    unit?  The exact values, expressed in a's unit, then differ by at most a few units in the 28th significant digit of
    the largest quantity the conversion handles (operand, converted operand, offsets).  1e-26 leaves a factor ~30 over
    the worst case of the four roundings involved and is far below any 'real' difference."""
    (sa, oa), (sb, ob) = REF[ua], REF[ub]
    yc = (y * sb + ob - oa) / sa
    scale = max(abs(x), abs(yc), abs(y * sb / sa), abs(ob / sa), abs(oa / sa))
    return abs(x - yc) <= ROUNDING_TOLERANCE * scale


def judge(case: dict, out: dict[str, str], comparable) -> list[Failure]:
    """The property over the observed results of one (ua, ub, va, vb) case; `out`: operator -> T | F | err:…"""
    ua, ub, va, vb = case["ua"], case["ub"], case["va"], case["vb"]
    x, y = parse_literal(va), parse_literal(vb)
    fails: list[Failure] = []
    if not comparable or x is None or y is None:
        return fails  # the property speaks about decimal values of units that may be compared
    errs = {op: r for op, r in out.items() if r not in ("T", "F")}
    if errs:
        pair = "|".join(sorted([str(ua), str(ub)]))
        fails.append(Failure(f"comparison-raises:{pair}", case,
                             f"are_comparable({ua!r}, {ub!r}) is True but compare_values raises: {errs}"))
        if len(errs) < len(out):
            fails.append(Failure("operators-inconsistent", case, f"some operators raise, others answer: {out}"))
        return fails
    b = {op: r == "T" for op, r in out.items()}
    laws = {
        "exactly one of < = >": [b["<"], b["="], b[">"]].count(True) == 1,
        "'==' is '='": b["=="] == b["="],
        "'!=' is not '='": b["!="] == (not b["="]),
        "'<=' is '<' or '='": b["<="] == (b["<"] or b["="]),
        "'>=' is '>' or '='": b[">="] == (b[">"] or b["="]),
    }
    broken = [k for k, ok in laws.items() if not ok]
    if broken:
        fails.append(Failure("operators-inconsistent", case,
                             f"{va} {ua} vs {vb} {ub}: {out}; violated: {', '.join(broken)}"))
    if ua is None or (ua in REF and ub in REF):
        (sa, oa), (sb, ob) = (REF[ua], REF[ub]) if ua is not None else ((F(1), F(0)), (F(1), F(0)))
        pa, pb = x * sa + oa, y * sb + ob
        exp = {"<": pa < pb, "<=": pa <= pb, "=": pa == pb, "==": pa == pb, ">": pa > pb, ">=": pa >= pb, "!=": pa != pb}
        wrong = [op for op in OPS if b[op] != exp[op]]
        if wrong:
            if ua == ub:
                key = "wrong-comparison-same-unit"
            elif not within_rounding(ua, ub, x, y):
                # the recorded findings are about the 28th significant digit; anything coarser is a different defect
                key = f"wrong-comparison-different-units:{ub}->{ua}"
            else:
                key = f"inexact-comparison:{inexact_cause(ua, ub, va, vb)}:{ub}->{ua}"
            fails.append(Failure(key, case, f"{va} {ua} vs {vb} {ub}: operators {wrong} answer "
                                            f"{[out[o] for o in wrong]}, exact comparison says otherwise"))
    return fails


# ----------------------------------------------------------------------------------------------------------

def _units():
    from openpectus.lang.exec import units as U
    return U


def impl_cmp(case: dict) -> list[str]:
    U = _units()
    return [" ".join(res(lambda op=op: U.compare_values(op, case["va"], case["ua"], case["vb"], case["ub"]))
                     for op in OPS)]


def cmp_lines(case: dict, verb: str = "cmp") -> list[str]:
    return [f"{verb}\t{uenc(case['ua'])}\t{uenc(case['ub'])}\t{enc(case['va'])}\t{enc(case['vb'])}"]


def gen_compare_cases(ctx: Check, U) -> list[dict]:
    rng = ctx.rng
    cases: list[dict] = []
    for c in load_corpus("C21"):
        if c.get("stream") == "compare":
            cases.append(dict(c["case"], kind="corpus"))
    k = ctx.n(10, 500)
    groups = [list(v) for v in U.QUANTITY_UNIT_MAP.values()]
    pairs = [(a, b) for g in groups for a in g for b in g] + [(None, None)]
    for ua, ub in pairs:
        try:
            ok = U.are_comparable(ua, ub) or U.are_comparable(ub, ua)
        except Exception:  # noqa: BLE001
            ok = False
        for va, vb, kind in value_pairs(rng, ua, ub, k if ok else 1):
            cases.append({"ua": ua, "ub": ub, "va": va, "vb": vb, "kind": kind})
    return cases


# ----------------------------------------------------------------------------------------------------------
# comparisons AFTER other calls on the same thread (compare_values must not depend on what was called before)

def in_fresh_thread(fn):
    """run fn in a new thread (new threads start with the default decimal context, no thread-local leftovers)"""
    import threading
    box: dict = {}

    def target():
        try:
            box["r"] = fn()
        except BaseException as e:  # noqa: BLE001
            box["e"] = e
    t = threading.Thread(target=target)
    t.start()
    t.join()
    if "e" in box:
        raise box["e"]
    return box["r"]


def do_call(U, call: list) -> str:
    """one call of a public function of units.py (or of the Tag methods that convert) — result irrelevant, errors kept"""
    from openpectus.lang.exec.tags import Tag
    kind, a = call[0], call[1:]
    if kind not in ("convert", "tag-set", "tag-simulate", "compatible", "comparable", "compare", "supported", "quantity"):
        raise AssertionError(kind)
    try:
        if kind == "convert":
            return repr(U.convert_value_to_unit(float(a[0]) if "." in a[0] else int(a[0]), a[1], a[2]))
        if kind == "tag-set":
            t = Tag("T", unit=a[0])
            t.set_value_and_unit(float(a[1]), a[2], 1.0)
            return repr(t.get_value())
        if kind == "tag-simulate":
            t = Tag("T", unit=a[0])
            t.simulate_value_and_unit(float(a[1]), a[2], 1.0)
            return repr(t.simulated_value)
        if kind == "compatible":
            return repr(U.get_compatible_unit_names(a[0]))
        if kind == "comparable":
            return repr(U.are_comparable(a[0], a[1]))
        if kind == "compare":
            return repr(U.compare_values(a[0], a[1], a[2], a[3], a[4]))
        if kind == "supported":
            return repr((len(U.get_supported_units()), U.is_supported_unit(a[0]), len(U.get_volume_units())))
        return repr(U.get_unit_quantity_name(a[0]))
    except Exception as e:  # noqa: BLE001
        core_reraise(e)
        return classify(e)


def gen_pre_calls(rng, U) -> list[list]:
    groups = [g for g in SAME_QUANTITY if len(g) > 1]
    sup = [u for u in U.get_supported_units() if u is not None]
    calls = []
    for _ in range(rng.randrange(1, 5)):
        r = rng.random()
        g = rng.choice(groups)
        a, b = rng.sample(g, 2)
        v = rng.choice(["68", "1.5", "0", "250", "37.25", "-40", "1000000", "0.001"])
        if r < 0.3:
            calls.append(["convert", v, a, b if rng.random() < 0.85 else rng.choice(sup)])
        elif r < 0.45:
            calls.append(["tag-set", a, v, b])
        elif r < 0.6:
            calls.append(["tag-simulate", a, v, b])
        elif r < 0.7:
            calls.append(["compatible", rng.choice(sup + ["X"])])
        elif r < 0.8:
            calls.append(["comparable", a, rng.choice(sup)])
        elif r < 0.9:
            calls.append(["compare", rng.choice(OPS), rand_decimal(rng), a, rand_decimal(rng), b])
        elif r < 0.95:
            calls.append(["supported", rng.choice(sup + ["X"])])
        else:
            calls.append(["quantity", rng.choice(sup + ["X"])])
    return calls


def gen_after_calls_cases(ctx: Check, U) -> list[dict]:
    """every ordered pair of different units of one quantity × a few value pairs (the kinds of the compare stream),
    each preceded by 1–4 calls of the other public functions; plus the fixed scenario of a tag simulated in another
    unit before two lengths are compared"""
    rng = ctx.rng
    cases = [{"pre": [["tag-simulate", "degC", "68", "degF"]], "ua": "m", "ub": "cm", "va": "1.00000000000000000001",
              "vb": "100.000000000000000001", "kind": "fixed"},
             {"pre": [["convert", "68", "degF", "degC"]], "ua": "s", "ub": "min", "va": "60.0000000000000000006",
              "vb": "1.00000000000000000001", "kind": "fixed"},
             {"pre": [["tag-set", "L", "250", "mL"]], "ua": None, "ub": None, "va": "1.00000000000000000001",
              "vb": "1.00000000000000000002", "kind": "fixed"}]
    k = ctx.n(2, 40)
    for g in SAME_QUANTITY:
        for ua in g:
            for ub in g:
                if ua == ub:
                    continue
                for va, vb, kind in value_pairs(rng, ua, ub, k):
                    cases.append({"pre": gen_pre_calls(rng, U), "ua": ua, "ub": ub, "va": va, "vb": vb, "kind": kind})
    return cases


def observe_after_calls(case: dict) -> dict:
    """the comparison on a fresh thread, and (on another fresh thread) after the case's calls"""
    U = _units()
    alone = in_fresh_thread(lambda: impl_cmp(case)[0])

    def sequence():
        pre = [do_call(U, c) for c in case["pre"]]
        return pre, impl_cmp(case)[0]
    pre, after = in_fresh_thread(sequence)
    return {"alone": alone, "pre": pre, "after": after}


def judge_after_calls(case: dict, obs: dict, comparable: bool) -> list[Failure]:
    fails = judge(case, dict(zip(OPS, obs["after"].split(" "))), comparable)
    if obs["after"] != obs["alone"]:
        fails.append(Failure("comparison-depends-on-earlier-calls", case,
                             f"{case['va']} {case['ua']} vs {case['vb']} {case['ub']}: operators {' '.join(OPS)} answer "
                             f"{obs['alone']} on a fresh thread and {obs['after']} after {case['pre']} on the same thread"))
    return fails


def gen_malformed_cases(ctx: Check, U) -> list[dict]:
    rng = ctx.rng
    sup = [u for u in U.get_supported_units()]
    out = []
    for _ in range(ctx.n(400, 20000)):
        ua = rng.choice(sup)
        r = rng.random()
        if r < 0.4:
            ub = ua
        elif r < 0.75 and ua is not None:
            ub = rng.choice(U.QUANTITY_UNIT_MAP[U.get_unit_quantity_name(ua)])
        else:
            ub = rng.choice(sup + ["X", "", "ML", "sec", "°K"])
        if rng.random() < 0.1:
            ua = rng.choice(["X", "", "kg ", "Sec"])
        va = rng.choice(MALFORMED_VALUES) if rng.random() < 0.6 else rand_decimal(rng)
        vb = rng.choice(MALFORMED_VALUES) if rng.random() < 0.6 else rand_decimal(rng)
        op = rng.choice(OPS + MALFORMED_OPS) if rng.random() < 0.5 else rng.choice(OPS)
        out.append({"op": op, "ua": ua, "ub": ub, "va": va, "vb": vb})
    return out


def check_reference(table: dict) -> None:
    """The oracle's hand-written definitions (REF) and the exact pint registry of the translator must describe the
    same physics (same ratios and offsets within every quantity); a mismatch is a harness error, never a violation."""
    from vp.core import Infra
    by_q: dict[str, list[dict]] = {}
    for r in table["rows"]:
        by_q.setdefault(r["quantity"], []).append(r)
    for q, rows in by_q.items():
        known = [r for r in rows if r["name"] in REF]
        for r in known[1:]:
            b = known[0]
            (s0, o0), (s1, o1) = REF[b["name"]], REF[r["name"]]
            # value v in unit r expressed in unit b, by both tables
            for v in (F(0), F(1), F(-7, 3)):
                ref = (v * s1 + o1 - o0) / s0
                tr = (v * r["scale"] + r["offset"] - b["offset"]) / b["scale"]
                if ref != tr:
                    raise Infra(f"oracle reference table and exact pint registry disagree on {r['name']} -> {b['name']}: "
                                f"{ref} vs {tr}")


def rounded_pairs(table: dict) -> list[str]:
    """Ordered unit pairs 'b->a' of one quantity for which the Decimal factor (or offset parameters) pint converts
    with differs from the exact one: there the known finding `rounded-conversion-factor` can show with short values."""
    fac = {(i, j): f for i, j, f in table["factors"]}
    out = []
    for a in table["rows"]:
        for b in table["rows"]:
            pa, pb = a["pint"], b["pint"]
            if a["quantity"] != b["quantity"] or a["name"] == b["name"] or not pa or not pb or pa["dim"] != pb["dim"] \
                    or pa["canon"] == pb["canon"]:
                continue
            if pa["offs"] is None and pb["offs"] is None:
                exact = fac.get((pb["canon"], pa["canon"])) == b["scale"] / a["scale"]
            else:
                exact = all(r["pint"]["offs"] is None or r["pint"]["offs"] == (r["scale"], r["offset"]) for r in (a, b)) \
                    and all(r["pint"]["offs"] is None or _terminates28(1 / r["scale"]) for r in (a,))
            if not exact:
                out.append(f"{b['name']}->{a['name']}")
    return out


def run(ctx: Check) -> int:
    from harness.translators import unit_table
    table = unit_table.generate()
    ctx.extra["unit_table"] = {"units": len(table["rows"]), "pint_factors": len(table["factors"]),
                               "pint_containers": len(table["containers"])}
    ctx.prove(MODULE, REQUIRED, extra_targets=["OPM.Gen.UnitTable"])
    U = _units()
    check_reference(table)
    ctx.extra["unit_pairs_with_rounded_pint_factor"] = rounded_pairs(table)
    ctx.rule = ("comparability: ALL ordered pairs over the supported units, None and unsupported names (exhaustive). "
                "compare: every ordered pair of units of one quantity (and None/None) × decimal-string pairs of the kinds "
                "random / equal-after-exact-conversion / neighbours at 1e-3…1e-35 / 18–40-digit values / exponent forms / "
                "negative; all 7 operators per case. malformed: non-numeric values, unknown units, invalid operators. after-calls: every ordered pair of "
                "different units of one quantity × value pairs of the same kinds, each compared on a fresh thread and, on "
                "another fresh thread, after 1–4 calls of the other public functions (convert_value_to_unit, "
                "Tag.set_value_and_unit / simulate_value_and_unit with another unit, get_compatible_unit_names, "
                "are_comparable, compare_values, …): same exactness oracle, and both answers must agree. "
                "Non-trivial = units differ (a conversion happens) or a value has more than 17 significant digits.")

    # -- stream "names": comparability over ALL ordered pairs of unit names, and the compatible names of every unit
    names = list(U.get_supported_units()) + ["X", "", "ML"]
    pairs = [{"ua": a, "ub": b} for a in names for b in names]
    singles = [{"u": u} for u in names]

    def impl_names(c):
        if "u" in c:
            try:
                return ["\t".join(["ok"] + [enc(x) for x in U.get_compatible_unit_names(c["u"])])]
            except Exception as e:  # noqa: BLE001
                return [classify(e)]
        return [res(lambda: U.are_comparable(c["ua"], c["ub"]))]

    def names_lines(c, verb="cmpable"):
        return [f"compat\t{uenc(c['u'])}"] if "u" in c else [f"{verb}\t{uenc(c['ua'])}\t{uenc(c['ub'])}"]
    cout, cmod = ctx.correspond("names", "Units", pairs + singles, names_lines, impl_names,
                                nontrivial=lambda c, o: "u" in c or (c["ua"] != c["ub"] and o[0] == "T"))
    if cmod:
        ctx.selftest("names", "Units", pairs + singles, lambda c: names_lines(c, "cmpableold"), cmod)
    comparable = {(p["ua"], p["ub"]): o[0] for p, o in zip(pairs, cout)}
    for p in pairs:
        ctx.count("comparable:" + comparable[(p["ua"], p["ub"])][:3])
    # oracle: order independence; same quantity <=> comparable, in whatever spelling (alias x alias pairs included)
    for f in judge_comparability(comparable):
        ctx.fail(f)
    ctx.count("comparability-oracle:same-quantity-pairs",
              sum(1 for (a, b) in comparable if a in GROUP_OF and b in GROUP_OF and GROUP_OF[a] == GROUP_OF[b]))
    ctx.count("comparability-oracle:different-quantity-pairs",
              sum(1 for (a, b) in comparable if a in GROUP_OF and b in GROUP_OF and GROUP_OF[a] != GROUP_OF[b]))

    # -- stream "compare": compare_values on all comparable pairs (7 operators per case) + malformed
    #    values / units / operators (one operator per case)
    cases = gen_compare_cases(ctx, U)
    mal = gen_malformed_cases(ctx, U)

    def impl_any(c):
        if "op" in c:
            return [res(lambda: U.compare_values(c["op"], c["va"], c["ua"], c["vb"], c["ub"]))]
        return impl_cmp(c)

    def any_lines(c, old=""):
        if "op" in c:
            return [f"cmp1{old}\t{enc(c['op'])}\t{uenc(c['ua'])}\t{uenc(c['ub'])}\t{enc(c['va'])}\t{enc(c['vb'])}"]
        return cmp_lines(c, "cmp" + old)
    iout, mout = ctx.correspond(
        "compare", "Units", cases + mal, any_lines, impl_any,
        nontrivial=lambda c, o: (o[0].startswith("err") if "op" in c else
                                 c["ua"] != c["ub"] or max(len(c["va"]), len(c["vb"])) > 17))
    if mout:
        ctx.selftest("compare", "Units", cases + mal, lambda c: any_lines(c, "old"), mout)
    ctx.count("malformed-cases", len(mal))
    for c, o in zip(cases, iout):
        ctx.count("value-kind:" + c["kind"].split("-1e-")[0])
        ctx.count("units:" + ("same" if c["ua"] == c["ub"] else "different"))
        r = dict(zip(OPS, o[0].split(" ")))
        ctx.count("outcome:" + ("raises" if any(v not in "TF" for v in r.values()) else
                                "equal" if r["="] == "T" else "less" if r["<"] == "T" else "greater"))
        for f in judge(c, r, comparable.get((c["ua"], c["ub"])) == "T"):
            ctx.fail(f)
    for c, o in zip(mal, iout[len(cases):]):
        ctx.count("malformed-outcome:" + (o[0] if o[0].startswith("err") else "answers"))

    # -- stream "after-calls": the same comparisons after calls of the other public functions on the same thread
    acases = gen_after_calls_cases(ctx, U)
    aobs = {id(c): observe_after_calls(c) for c in acases}
    ctx.correspond("after-calls", "Units", acases, cmp_lines, lambda c: [aobs[id(c)]["after"]],
                   nontrivial=lambda c, o: any(p[0] in ("convert", "tag-set", "tag-simulate") for p in c["pre"]))
    for c in acases:
        for p in c["pre"]:
            ctx.count("after-calls:pre:" + p[0])
        for f in judge_after_calls(c, aobs[id(c)], res(lambda: U.are_comparable(c["ua"], c["ub"])) == "T"):
            ctx.fail(f)
    ctx.exhaustive = False
    ctx.extra["exhaustive_scopes"] = ["names: all ordered pairs of unit names (are_comparable), all unit names "
                                      "(get_compatible_unit_names)",
                                      "compare: all ordered unit pairs of every quantity (values sampled)"]
    ctx.assumptions = [
        "values are finite decimal literals or strings decimal.Decimal rejects (no NaN/Infinity, no non-ASCII digits, "
        "|exponent| <= 60)",
        "the unit set is the one units.py defines at import (no add_unit at run time)",
        "whether '%', 'vol%', 'wt%', 'mol%' may be compared with each other is not judged by the comparability oracle",
        "pint 0.25 Decimal arithmetic is modelled (28 digits, half even) and validated differentially",
        "the oracle's exact unit definitions (REF in props/C21.py) are the physical definitions; unknown units are skipped",
    ]
    return ctx.finish(search=search)


def search(ctx: Check) -> None:
    """Failing-input search when a half broke: the oracle on fresh cases (independent of the model)."""
    U = _units()
    names = list(U.get_supported_units())
    comparable = {}
    for a in names:
        for b in names:
            comparable[(a, b)] = res(lambda: U.are_comparable(a, b))
    for f in judge_comparability(comparable):
        ctx.fail(f)
    for c in gen_compare_cases(ctx, U):
        r = dict(zip(OPS, impl_cmp(c)[0].split(" ")))
        for f in judge(c, r, comparable.get((c["ua"], c["ub"])) == "T"):
            ctx.fail(f)
    for c in gen_after_calls_cases(ctx, U):
        for f in judge_after_calls(c, observe_after_calls(c), comparable.get((c["ua"], c["ub"])) == "T"):
            ctx.fail(f)


def replay(obj) -> int:
    from vp.core import drive
    from harness.translators import unit_table
    unit_table.generate()
    U = _units()
    c = obj.get("case") or next((d["case"] for d in obj.get("disagreements", []) if d.get("case")), None)
    if c is None:
        print(json.dumps(obj, indent=1)[:4000])
        return 0
    if "op" in c and "va" in c:  # a case of the malformed stream: one operator
        r = res(lambda: U.compare_values(c["op"], c["va"], c["ua"], c["vb"], c["ub"]))
        ln = f"\t{enc(c['op'])}\t{uenc(c['ua'])}\t{uenc(c['ub'])}\t{enc(c['va'])}\t{enc(c['vb'])}"
        m = drive("Units", [["cmp1" + ln], ["cmp1old" + ln]])
        print(f"compare_values({c['op']!r}, {c['va']!r}, {c['ua']!r}, {c['vb']!r}, {c['ub']!r}) = {r}   "
              f"model (repaired): {m[0][0]}   model (as-is): {m[1][0]}")
        return 0 if r == m[0][0] else 1
    if "u" in c:
        try:
            r = "\t".join(["ok"] + [enc(x) for x in U.get_compatible_unit_names(c["u"])])
        except Exception as e:  # noqa: BLE001
            r = classify(e)
        m = drive("Units", [[f"compat\t{uenc(c['u'])}"]])
        print(f"get_compatible_unit_names({c['u']!r}): implementation {r!r}   model {m[0][0]!r}")
        return 0 if r == m[0][0] else 1
    if "va" not in c:
        a, b = c.get("ua"), c.get("ub")
        r1, r2 = res(lambda: U.are_comparable(a, b)), res(lambda: U.are_comparable(b, a))
        m = drive("Units", [[f"cmpable\t{uenc(a)}\t{uenc(b)}"], [f"cmpable\t{uenc(b)}\t{uenc(a)}"]])
        print(f"are_comparable({a!r}, {b!r}) = {r1}   reversed = {r2}   model: {m[0][0]} / {m[1][0]}")
        fails = judge_comparability({(a, b): r1, (b, a): r2})
        for f in fails:
            print(f"oracle: {f.key}: {f.detail}")
        return 1 if fails else 0
    obs = None
    if "pre" in c:   # a case of the after-calls stream
        obs = observe_after_calls(c)
        print(f"on a fresh thread:       {obs['alone']}")
        for call, r in zip(c["pre"], obs["pre"]):
            print(f"then, on another thread: {call} -> {r}")
    out = obs["after"] if obs else impl_cmp(c)[0]
    m = drive("Units", [cmp_lines(c), cmp_lines(c, "cmpold")])
    print(f"case: {c['va']!r} {c['ua']!r}  vs  {c['vb']!r} {c['ub']!r}")
    print("operators:       " + "  ".join(f"{o:>3}" for o in OPS))
    print("implementation:  " + "  ".join(f"{x:>3}" for x in out.split(" ")))
    print("model (repaired):" + "  ".join(f"{x:>3}" for x in m[0][0].split(" ")))
    print("model (as-is):   " + "  ".join(f"{x:>3}" for x in m[1][0].split(" ")))
    cmpable = res(lambda: U.are_comparable(c["ua"], c["ub"])) == "T"
    fails = judge_after_calls(c, obs, cmpable) if obs else judge(c, dict(zip(OPS, out.split(" "))), cmpable)
    for f in fails:
        print(f"oracle: {f.key}: {f.detail}")
    if not fails:
        print("oracle: property holds on this case")
    return 1 if fails else 0
