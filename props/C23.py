"""C23 Hardware connection recovery follows the documented protocol.

Proof half: OPM.Properties.C23 — the decorator's state refines the documented five-state machine
(`follows_protocol` + the two timer lemmas), the Connection Status tag agrees with the state after every history
(`status_iff_state`), reads/writes never raise in Issue/Reconnect and raise in Error/Disconnected, masked reads
return the last value successfully read (`masked_read*_returns_last_good`, `successful_read_is_fresh`), and the protocol is
never stuck: from Reconnect or Error, ticks on which connect() succeeds reach OK / Connected as soon as the back-off
schedule allows, at the latest after 2·max(back-off)+1 ticks (`recovers_within`, `never_stuck`).
Tie half: the real `ErrorRecoveryDecorator` (virtual clock, scripted fake hardware) against the model, op by op:
exhaustive op sequences from five start states, random long histories with the production configuration, and a
malformed stream.  The compared view is the protocol view (state, tag, timers, reconnect tick, results, hardware
contact, last-known-good reads); the write-buffer internals belong to C24.
"""
from __future__ import annotations

import itertools

from vp.core import Check, Failure

META = dict(
    level_text="Lean 4 theorems over all histories: each step of the recovery decorator is the step of the documented "
               "five-state machine for the observed event (error / success / time-out / reconnect outcome); the "
               "Connection Status tag reads Disconnected iff the state is Disconnected or Error; reads and writes "
               "never raise in Issue/Reconnect and always raise in Error; masked reads return the last value "
               "successfully read for the register; from Reconnect and Error the protocol returns to OK / Connected on the "
               "next back-off tick on which the reconnect succeeds (never stuck in Error while connect() succeeds). "
               "The model is tied to hardware_recovery.py by differential "
               "execution (exhaustive short op sequences from every protocol state + random long histories).",
    level_note="Trusted: Lean kernel (+ propext/Classical.choice/Quot.sound), the harness (scripted fake hardware, "
               "virtual clock patched into the hardware_recovery module). Assumes the concrete hardware raises only "
               "HardwareLayerException, callbacks unset, registers used in their declared direction for the "
               "no-raise claim (a wrong direction is a KeyError in every state). Reading of the documentation: a time-out "
               "('if no success within ...') takes effect at the next read/write call after it elapsed (the decorator has "
               "no timer of its own). The oracle demands an exception in Error only (not its class, nothing for "
               "Disconnected) and lets an explicit connect() either keep the state or recover to OK.",
    technique="Lean 4 proof (refinement of the documented state machine, invariant by induction over op lists) + "
              "differential correspondence with exhaustive small scopes",
)
MODULE = "OPM.Properties.C23"
REQUIRED = ["OPM.C23.follows_protocol", "OPM.C23.lastSuccess_is_time_of_last_success",
            "OPM.C23.reconnEntered_is_time_of_entry", "OPM.C23.status_iff_state", "OPM.C23.masked_never_raises",
            "OPM.C23.unmasked_raises", "OPM.C23.masked_read_returns_last_good",
            "OPM.C23.masked_read_batch_returns_last_good", "OPM.C23.reconnect_attempted_iff",
            "OPM.C23.successful_read_is_fresh", "OPM.C23.recovers_within", "OPM.C23.never_stuck"]

T1, T2 = 80, 160            # 10 s / 20 s in eighths (exhaustive streams)
INIT_SMALL = f"init\t{{c}}\t{T1}\t{T2}\t0,2\t0\t0\tproto"
INIT_PROD = "init\t{c}\t80\t144000\t5,20,100,300,1200,18000\t0\t0\tproto"   # ErrorRecoveryConfig defaults
DIRS = {0: "r", 1: "r", 2: "w", 3: "w", 4: "w", 5: "b", 6: "b", 7: "b"}

ALPHA9 = ["connect\t1", "read\t0r\tn8", "read\t0r\tF", "write\t2w\tn8\t1\t-", "write\t2w\tn16\t0\t-",
          "tick\t1", "tick\t0", f"adv\t{T1 + 1}", f"adv\t{T2 + 1}"]
ALPHA13 = ALPHA9 + ["connect\t0", "readb\t0r;1r\tn24;N", "readb\t0r;1r\tF", "writeb\t2w;3w\tn8;n24\tok\t-"]
PREFIXES = {
    "Disconnected": [],
    "OK": ["connect\t1", "read\t0r\tn40"],
    "Issue": ["connect\t1", "read\t0r\tn40", "read\t0r\tF"],
    "Reconnect": ["connect\t1", "read\t0r\tn40", "read\t0r\tF", f"adv\t{T1 + 1}", "read\t0r\tF"],
    "Error": ["connect\t1", "read\t0r\tn40", "read\t0r\tF", f"adv\t{T1 + 1}", "read\t0r\tF", f"adv\t{T2 + 1}",
              "write\t2w\tn8\t1\t-"],
}


def _reg(i: int) -> str:
    return f"{i}{DIRS[i]}"


def gen_exhaustive(ctx: Check) -> list[list[str]]:
    cases = []
    depth13 = ctx.n(3, 4)
    for name, pre in PREFIXES.items():
        for k in range(0, depth13 + 1):
            for p in itertools.product(ALPHA13, repeat=k):
                cases.append([INIT_SMALL.format(c=0)] + pre + list(p))
    # hardware already connected at construction
    for k in range(0, ctx.n(3, 5) + 1):
        for p in itertools.product(ALPHA9, repeat=k):
            cases.append([INIT_SMALL.format(c=1)] + list(p))
    return cases


def _val(rng, floats=False) -> str:
    k = rng.random()
    if k < 0.1:
        return "N"
    if k < 0.2:
        return f"s{rng.choice([97, 98])}"
    return f"n{8 * rng.randrange(-2, 6)}"


def gen_random(ctx: Check, n: int, malformed: bool) -> list[list[str]]:
    rng = ctx.rng
    cases = []
    for _ in range(n):
        prod = rng.random() < 0.5
        init = (INIT_PROD if prod else f"init\t{{c}}\t{rng.choice([8, 80])}\t{rng.choice([16, 160])}\t"
                + rng.choice(["0,2", "1,3", "1", "2,5"]) + "\t0\t0\tproto").format(c=int(rng.random() < 0.3))
        t1 = int(init.split("\t")[2])
        t2 = int(init.split("\t")[3])
        lines = [init]
        if rng.random() < 0.9:
            lines.append("connect\t1")
        p_fail = rng.choice([0.1, 0.4, 0.8])
        for _ in range(rng.randrange(10, 60)):
            k = rng.random()
            ok = rng.random() >= p_fail
            if k < 0.25:
                r = rng.choice([0, 1, 5])
                if malformed and rng.random() < 0.2:
                    r = rng.choice([2, 3])          # write-only register
                lines.append(f"read\t{_reg(r)}\t{_val(rng) if ok else 'F'}")
            elif k < 0.4:
                rs = [rng.choice([0, 1, 5, 6]) for _ in range(rng.randrange(0 if malformed else 1, 4))]
                if malformed and rng.random() < 0.2:
                    rs.append(3)
                nv = len(rs) if not (malformed and rng.random() < 0.3) else rng.randrange(0, 5)
                vs = ";".join(_val(rng) for _ in range(nv)) or "-"
                lines.append("readb\t" + (";".join(map(_reg, rs)) or "-") + "\t" + (vs if ok else "F"))
            elif k < 0.55:
                r = rng.choice([2, 3, 5])
                if malformed and rng.random() < 0.2:
                    r = 0
                lines.append(f"write\t{_reg(r)}\t{_val(rng)}\t{int(ok)}\t{rng.choice(['-', '1', '0', '10'])}")
            elif k < 0.7:
                rs = rng.sample([2, 3, 4, 5], rng.randrange(1, 4))
                if malformed:
                    if rng.random() < 0.3:
                        rs.append(rng.choice(rs))
                    if rng.random() < 0.15:
                        rs.append(1)
                    if rng.random() < 0.1:
                        rs = []
                nv = len(rs) if not (malformed and rng.random() < 0.3) else rng.randrange(0, 5)
                vs = ";".join(_val(rng) for _ in range(nv)) or "-"
                lines.append("writeb\t" + (";".join(map(_reg, rs)) or "-") + "\t" + vs + "\t"
                             + ("ok" if ok else str(rng.randrange(0, 3))) + "\t" + rng.choice(["-", "1", "0", "01"]))
            elif k < 0.85:
                burst = rng.choice([1, 1, 2, 6, 21]) if prod else rng.choice([1, 1, 2, 3])
                for _ in range(burst):
                    lines.append(f"tick\t{int(rng.random() < 0.5)}")
            elif k < 0.97:
                lines.append(f"adv\t{rng.choice([1, 8, t1, t1 + 1, t2, t2 + 1, 3 * t2])}")
            else:
                lines.append(f"connect\t{int(ok)}")
        cases.append(lines)
    return cases


# ----------------------------------------------------------------------------------------------------------------
# property oracle: the documented protocol, stated over what the implementation exposes (independent of the model)

def doc_next(state: str, ev: str, since_success: int, in_reconnect: int, t1: int, t2: int) -> set[str]:
    """docs/src/Error Recovery.rst, "Handling of Hardware Connection Errors": the states the documentation allows
    after `ev` in `state`.  Exactly at a time-out boundary (elapsed == time-out) the text allows both readings.
    Reading of the text used here (and in `docNext` of the Lean file): a time-out takes effect at the next read/write
    call after it elapsed — the decorator has no timer of its own, and the documentation names no other trigger."""
    if state == "Disconnected":
        return {"OK"} if ev == "connect-ok" else {state}
    if ev == "connect-ok":
        # "Once an engine is connected to hardware I/O, state is OK": an explicit connect() that succeeds may keep
        # the state (as the code does) or recover to OK; the text demands neither
        return {state, "OK"}
    if state == "OK":
        return {"Issue"} if ev == "rw-fail" else {state}
    if state == "Issue":
        if ev == "rw-ok":
            return {"OK"}
        if ev == "rw-fail":
            return {"Reconnect"} if since_success > t1 else {"Issue", "Reconnect"} if since_success == t1 else {"Issue"}
        return {state}
    if state == "Reconnect":
        if ev == "reconnect-ok":
            return {"OK"}
        if ev == "rw-masked":
            return {"Error"} if in_reconnect > t2 else {"Reconnect", "Error"} if in_reconnect == t2 else {"Reconnect"}
        return {state}
    if state == "Error":
        return {"OK"} if ev == "reconnect-ok" else {state}
    return {state}


def is_backoff(bk: list[int], t: int) -> bool:
    """the documented back-off schedule: the listed ticks, then every multiple of the largest one"""
    return t in bk or (t > bk[-1] and t % bk[-1] == 0)


def oracle(lines: list[str]) -> list[Failure]:
    """Safety: state follows the documented machine, tag agrees with the state, no exception while masking, exception
    in Error, masked reads return the last good value, a read answered by the hardware returns that answer.
    Recovery: a history that ends in Reconnect or Error is continued with ticks on which the hardware accepts the
    reconnect, as many as the back-off schedule needs from the ticks already spent; the decorator must then be in
    state OK with the tag reading Connected (theorem `recovers_within`: never stuck while connect() succeeds)."""
    from harness import hwrec
    lines = list(lines)                       # extended by the recovery clause
    f0 = lines[0].split("\t")
    t1, t2 = int(f0[2]), int(f0[3])
    bk = [int(x) for x in f0[4].split(",")]
    st = {"state": None, "now": 0, "last_success": 0, "entered": 0, "good": {}, "ticks": 0}
    fails: list[Failure] = []

    def bad(key, i, detail):
        if not any(f.key == key for f in fails):
            fails.append(Failure(key, {"lines": lines[:i + 1]}, f"op {i} `{lines[i]}`: {detail}"))

    def observe(i, line, impl):
        d, tag = impl.d, impl.tag
        state = d.state.name
        status = str(tag.get_value())
        if (status == "Disconnected") != (state in ("Disconnected", "Error")) or status not in ("Disconnected", "Connected"):
            bad(f"status-tag-mismatch:{state}", i, f"Connection Status reads {status!r} in state {state}")
        if i == 0:
            st["state"] = state
            return
        f = line.split("\t")
        kind, last, prev = f[0], impl.last, st["state"]
        raised = last["res"].startswith("raise:")
        is_rw = kind in ("read", "readb", "write", "writeb")
        dirs_ok = True
        if kind in ("read", "write"):
            dirs_ok = f[1][-1] in ("rb" if kind == "read" else "wb")
        elif kind in ("readb", "writeb"):
            dirs_ok = all(x[-1] in ("rb" if kind == "readb" else "wb") for x in hwrec.lst(f[1]))
        # event as observable at the fake hardware / the caller
        ev = "other"
        if last["reconn"] is True:
            ev = "reconnect-ok"
        elif kind == "connect" and not raised:
            ev = "connect-ok"
        elif is_rw and last["contact"] is True:
            ev = "rw-ok"
        elif is_rw and last["contact"] is False:
            ev = "rw-fail"
        elif is_rw and not raised:
            ev = "rw-masked"
        expect = doc_next(prev, ev, st["now"] - st["last_success"], st["now"] - st["entered"], t1, t2)
        if state not in expect:
            bad(f"state-not-following-protocol:{prev}-{ev}->{state}", i,
                f"documented protocol goes {prev} --{ev}--> {sorted(expect)}, decorator went to {state}")
        if is_rw and dirs_ok:
            if prev in ("Issue", "Reconnect") and raised:
                bad(f"raised-while-masking:{prev}", i, f"{last['res']} in state {prev}")
            if prev == "Error" and not raised:
                bad("no-exception-in:Error", i, f"result {last['res']} in state Error")
            if kind in ("read", "readb") and prev == "Issue" and last["contact"] is True:
                want = "vals:" + f[2]
                if last["res"] != want:
                    bad("answered-read-in-Issue-returns-other-value", i, f"hardware answered {want}, caller got {last['res']}")
            if kind in ("read", "readb") and not raised and prev in ("OK", "Issue", "Reconnect") \
                    and (prev == "Reconnect" or last["contact"] is False):
                regs = [f[1]] if kind == "read" else hwrec.lst(f[1])
                want = "vals:" + (";".join(st["good"].get(r[:-1], "N") for r in regs) or "-")
                if last["res"] != want:
                    bad("masked-read-not-last-good-value", i, f"returned {last['res']}, last good values {want}")
        # bookkeeping from observations only
        if kind == "adv":
            st["now"] += int(f[1])
        if is_rw and last["contact"] is True:
            st["last_success"] = st["now"]
            if kind == "read":
                st["good"][f[1][:-1]] = f[2]
            elif kind == "readb":
                for v, r in zip(hwrec.lst(f[2]), hwrec.lst(f[1])):
                    st["good"][r[:-1]] = v
        if state == "Reconnect" and prev != "Reconnect":
            st["entered"] = st["now"]
        if kind == "tick" and prev in ("Reconnect", "Error"):
            st["ticks"] += 1
        if state not in ("Reconnect", "Error"):
            st["ticks"] = 0
        st["state"] = state

    impl = hwrec.Impl(lines[0])
    observe(0, lines[0], impl)
    for i, ln in enumerate(lines[1:], 1):
        impl.op(ln)
        observe(i, ln, impl)
    # recovery clause
    stuck = st["state"]
    if stuck in ("Reconnect", "Error") and not fails:
        n = st["ticks"]                       # ticks already spent in Reconnect/Error since the last recovery
        t = next(x for x in range(n, n + 2 * bk[-1] + 1) if is_backoff(bk, x))
        need = t - n + 1
        seen_reconnect = False
        for _ in range(need):
            lines.append("tick\t1")
            impl.op("tick\t1")
            seen_reconnect = seen_reconnect or impl.last["reconn"] is True
            observe(len(lines) - 1, "tick\t1", impl)
            if impl.d.state.name == "OK":
                break
        state, status = impl.d.state.name, str(impl.tag.get_value())
        if state != "OK" or status != "Connected" or not seen_reconnect:
            bad(f"stuck-in:{stuck}-although-reconnect-succeeds", len(lines) - 1,
                f"{need} ticks with a hardware that accepts connect() after {n} ticks in {stuck} (back-off {bk}): "
                f"state {state}, Connection Status {status!r}, reconnect attempted: {seen_reconnect}")
    return fails


def run(ctx: Check) -> int:
    from harness import hwrec
    from vp.core import load_corpus
    ctx.prove(MODULE, REQUIRED)
    corpus = [c["lines"] for c in load_corpus("C23")]
    ex = gen_exhaustive(ctx)
    rnd = gen_random(ctx, ctx.n(300, 6000), malformed=False)
    mal = gen_random(ctx, ctx.n(150, 3000), malformed=True)
    ctx.rule = ("op lines for the decorator with a scripted fake hardware and a virtual clock. exhaustive: every sequence "
                f"of length <= {ctx.n(3, 4)} over 13 ops (connect ok/fail, read ok/fail, read_batch ok/fail, write ok/fail, "
                "write_batch ok, tick with reconnect ok/fail, advance past t1, advance past t2) appended to a prefix that "
                "reaches each of the five states, plus length <= "
                f"{ctx.n(3, 5)} over 9 ops with hardware connected at construction. random: 10-60 ops (tick bursts up to "
                "21) with the production configuration (10 s, 5 h, back-off 5,20,100,...) or small time-outs, failure "
                "rates 0.1/0.4/0.8. malformed: wrong register direction, unequal list lengths, duplicate registers, "
                "empty batches, ops before connect. Non-trivial = the case leaves state OK at least once after reaching it "
                "or starts in a non-OK state.")

    def nontrivial(c, out):
        states = [ln.split("st=")[1].split(" ")[0] for ln in out if "st=" in ln]
        return len(set(states)) >= 2

    def impl(c):
        return hwrec.run_impl(c)

    for name, cases in (("corpus", corpus), ("exhaustive", ex), ("random", rnd), ("malformed", mal)):
        if not cases:
            continue
        out, mout = ctx.correspond(name, "HwRecovery", cases, lambda c: c, impl, nontrivial=nontrivial)
        if name == "exhaustive" and mout:
            # self-test: a model whose Issue -> Reconnect time-out never fires must be told apart
            def mutant(c):
                f = c[0].split("\t")
                f[2] = "1000000000"
                return ["\t".join(f)] + c[1:]
            step = max(1, len(cases) // 4000)
            ctx.selftest(name, "HwRecovery", cases[::step], mutant, mout[::step])
        for o in out:
            for ln in o:
                if "st=" in ln:
                    ctx.count("state_after_op:" + ln.split("st=")[1].split(" ")[0])
                ctx.count("result:" + ln.split("\t")[0].split(":")[0] + (":" + ln.split("\t")[0].split(":")[1]
                          if ln.startswith("raise") else ""))
    # property oracle on the implementation (independent of the model)
    orc = corpus + rnd + mal + ex[:: ctx.n(7, 3)]
    ctx.monitor(orc, lambda c: oracle(c) or None)
    ctx.extra["oracle_cases"] = len(orc)
    ctx.exhaustive = True
    ctx.extra["exhaustive_scope"] = ("all op sequences up to the stated length from each of the five protocol states; "
                                     "random/malformed streams are sampled")
    ctx.assumptions = ["time.time() inside hardware_recovery is a virtual clock with 1/8 s resolution",
                       "the concrete hardware raises only HardwareLayerException; callbacks are unset",
                       "one Register object per register name",
                       "only_write_modified_values = True (production default)"]

    def search(c: Check):
        more = gen_random(c, 2000, malformed=False) + gen_random(c, 1000, malformed=True)
        c.monitor(more, lambda x: oracle(x) or None)

    return ctx.finish(search=search)


def replay(obj) -> int:
    from harness import hwrec
    from vp import core
    case = obj.get("case") or {}
    lines = case.get("lines") if isinstance(case, dict) else case
    if not lines:
        for d in obj.get("disagreements", []):
            lines = d["case"]
            break
    if not lines:
        print(obj)
        return 0
    out = hwrec.run_impl(lines)
    mout = core.drive("HwRecovery", [lines])[0]
    for ln, a, b in zip(lines, out, mout):
        print(("   " if a == b else "!! ") + ln.replace("\t", " "))
        print("     impl : " + a.replace("\t", " | "))
        if a != b:
            print("     model: " + b.replace("\t", " | "))
    fails = oracle(lines)
    for f in fails:
        print(f"ORACLE {f.key}: {f.detail}")
    return 1 if fails else 0
