"""C14 Injected code runs once in the current scope, even across edits."""
from __future__ import annotations

from collections import Counter

from harness.gen_pcode import gen_program, gen_schedule, gen_snippet, gen_edit_script
from harness.interp_corr import m3_stream
from harness.interp_run import apply_edit_script
from vp.core import Check, Failure

META = dict(
    level_text="Lean 4 theorems over the interpreter/merge models: injecting leaves every runtime record outside the "
               "injected subtree untouched and registers exactly one new generator at the end of the interrupt map; "
               "the clause about edits is refuted for the code as it is by a kernel-evaluated witness "
               "(C14_counterexample) and the as-is behaviour is characterised (a merge keeps only interrupts whose "
               "line id exists in the new method). Tie: differential execution of inject + edit schedules on the real "
               "MethodManager/PInterpreter vs the model. Oracle on the real engine: snippet effects exactly once, "
               "method state untouched by the injection, injected commands finalized.",
    level_note="Known finding: injected code is lost when the method is edited before it ran (its interrupt is looked up "
               "in the new method). 'Exactly once' and 'only while not paused/held' are checked by the oracle on the "
               "real engine, not proved. Trusted: Lean kernel, harness.",
    technique="Lean 4 proof (frame theorem for inject, decided counterexample for the edit clause) + differential correspondence + engine oracle",
)
MODULE = "OPM.Properties.C14"
REQUIRED = ["OPM.C14.inject_keeps_method_flags", "OPM.C14.inject_registers_once", "OPM.C14.C14_counterexample",
            "OPM.C14.merge_keeps_only_known_interrupts"]


def marks_of(snap) -> list[str]:
    return [x for x in str(snap["tags"].get("Mark") or "").split("; ") if x]


def oracle(case) -> list[Failure]:
    from harness.engine_run import EngineRun
    fails: list[Failure] = []
    run = EngineRun(case["pcode"])
    try:
        snap = None
        for _ in range(case["at"]):
            snap = run.tick()
        if snap is None or snap["tags"].get("System State") != "Running" or snap["tags"].get("Method Status") == "Error":
            return []
        mm = run.engine.method_manager
        st0 = mm.get_method_state()
        n_init0 = Counter(e[1] for e in run.exec_log if e[0] == "init")
        res = run.inject(case["snippet"])
        st1 = run.engine.method_manager.get_method_state()
        if res != "ok":
            return []
        if (st0.started_line_ids, st0.executed_line_ids, st0.failed_line_ids) != \
                (st1.started_line_ids, st1.executed_line_ids, st1.failed_line_ids):
            fails.append(Failure("injection-changed-method-state", case, "method state differs right after inject_code"))
        edited = False
        for k in range(case["after"]):
            if case.get("second") and k == case["second"][0]:
                run.inject(case["second"][1])
            if case.get("edit") and k == case["edit"][0]:
                cur = [(ln.id, ln.content) for ln in run.engine.method_manager._method.lines]
                new = apply_edit_script(cur, case["edit"][1])
                m = run.Mdl.Method(lines=[run.Mdl.MethodLine(id=i, content=c) for i, c in new], version=0)
                edited = run.edit(m) == "ok"
            snap = run.tick()
        if snap["raw_tags"].get("Method Status") == "Error":
            # a valid snippet must not put the run into the error state: compare with the run without the injection
            ref = EngineRun(case["pcode"])
            try:
                rs = None
                for _ in range(case["at"] + case["after"]):
                    rs = ref.tick()
                ref_err = rs["raw_tags"].get("Method Status") == "Error"
            finally:
                ref.close()
            if not ref_err and not edited and case.get("valid_snippet", True):
                fails.append(Failure("injection-caused-error", case,
                                     "Method Status is Error after injecting a valid snippet; the same run without it is not"))
            return fails
        if snap["raw_tags"].get("System State") != "Running":
            return fails
        want_marks = [ln.strip().split("Mark: ")[1] for ln in case["snippet"].splitlines() if "Mark: " in ln]
        if case.get("second"):
            want_marks += [ln.strip().split("Mark: ")[1] for ln in case["second"][1].splitlines() if "Mark: " in ln]
        got = Counter(marks_of(snap))
        sfx = "-after-edit" if edited else ""
        for m in want_marks:
            if got[m] == 0:
                fails.append(Failure("injected-code-did-not-run" + sfx, case, f"Mark {m!r} of the injected snippet never set"))
            elif got[m] > 1:
                fails.append(Failure("injected-code-ran-twice" + sfx, case, f"Mark {m!r} of the injected snippet set {got[m]} times"))
        want_cmds = [ln.strip().split(" ")[-1] for ln in case["snippet"].splitlines() if ln.strip().split(" ")[-1] in ("CmdA", "CmdB", "CmdC")]
        if want_cmds and not case.get("method_has_cmds"):
            n_init = Counter(e[1] for e in run.exec_log if e[0] == "init")
            n_final = Counter(e[1] for e in run.exec_log if e[0] == "final")
            for c in set(want_cmds):
                if n_init[c] - n_init0[c] < 1:
                    fails.append(Failure("injected-command-did-not-run" + sfx, case, f"{c} of the snippet never initialised"))
                if n_init[c] != n_final[c] or c in snap["instances"]:
                    fails.append(Failure("injected-command-not-finalized" + sfx, case,
                                         f"{c}: init {n_init[c]} / finalize {n_final[c]}, instances {snap['instances']}"))
        return fails
    finally:
        run.close()


WITNESS = {"pcode": "Wait: 3s\nMark: b", "at": 6, "snippet": "Wait: 1s\nMark: inj", "after": 60,
           "edit": [2, [["append", "Mark: c"]]], "method_has_cmds": False}


def template_cases() -> list[dict]:
    out = []
    methods = ["Mark: A\nWait: 3s\nMark: B", "Block: K\n    Mark: A\n    Wait: 3s\n    End block\nMark: B"]
    snippets = ["Mark: i1", "Wait: 1s\nMark: i1", "Watch: T0 = 0\n    Mark: i1\n    Mark: i1b", "Block: Q\n    Mark: i1\n    End block",
                "Alarm: T0 = 0\n    Mark: i1\n    Wait: 20s", "CmdB\nMark: i1"]
    for m in methods:
        for sn in snippets:
            for at in (4, 9):
                out.append({"pcode": m, "at": at, "snippet": sn, "after": 70, "method_has_cmds": False})
                # a second snippet while the first is still alive
                for gap in (0, 1, 3):
                    out.append({"pcode": m, "at": at, "snippet": sn, "after": 70, "method_has_cmds": False,
                                "second": [gap, "Mark: i2"]})
    return out


def gen_cases(ctx: Check, n: int) -> list[dict]:
    rng = ctx.rng
    out = [WITNESS] + [k["witness"] for k in ctx.known if k.get("witness")] + template_cases()
    for _ in range(n):
        has_cmds = rng.random() < 0.3
        feats = {"mark", "wait", "thr", "watch"} | ({"cmd"} if has_cmds else set())
        pcode, _ = gen_program(rng, features=feats, max_lines=7, max_depth=1)
        snippet = gen_snippet(rng)
        if "Block" in snippet and "End block" not in snippet:
            snippet += "\n    End block"
        c = {"pcode": pcode, "at": rng.randrange(3, 25), "snippet": snippet, "after": 110, "method_has_cmds": has_cmds}
        if rng.random() < 0.3:
            c["edit"] = [rng.randrange(0, 6), [["append", "Mark: zz"]]]
        out.append(c)
    return out


def run(ctx: Check) -> int:
    ctx.prove(MODULE, REQUIRED)
    ctx.rule = ("M3/M4 stream: generated methods x schedules with an injected snippet (Mark / Wait / UOD command / Block) "
                "at a random op position and optional live edits; oracle: snippets injected at a random tick of runs on "
                "the real engine, optionally followed by an edit 0-5 ticks later.")
    rng = ctx.rng
    extra = []
    for _ in range(ctx.n(100, 2000)):
        pcode, _ = gen_program(rng, max_lines=10)
        ops = gen_schedule(rng, rng.randrange(12, 40))
        k = rng.randrange(1, len(ops))
        ops.insert(k, ["inject", gen_snippet(rng)])
        if rng.random() < 0.4:
            ops.insert(rng.randrange(k, len(ops)), ["edit", gen_edit_script(rng)])
        extra.append({"pcode": pcode, "ops": ops})
    m3_stream(ctx, "inject-m3m4", 0, extra_cases=extra)
    ctx.monitor(gen_cases(ctx, ctx.n(40, 600)), oracle, impl_timeout=120)
    return ctx.finish(search=lambda c: c.monitor(gen_cases(c, c.n(100, 600)), oracle, impl_timeout=120))


def replay(obj) -> int:
    c = obj.get("case", {})
    if "snippet" in c:
        fs = oracle(c)
        print(c)
        for f in fs:
            print("oracle:", f.key, f.detail)
        return 1 if fs else 0
    print(obj)
    return 0
