"""C14 Injected code runs once in the current scope, even across edits."""
from __future__ import annotations

from collections import Counter

from harness.gen_pcode import gen_program, gen_schedule, gen_snippet, gen_edit_script
from harness.interp_corr import m3_stream
from harness.interp_run import apply_edit_script
from vp.core import Check, Failure

META = dict(
    level_text="Lean 4 theorems over the interpreter/merge models: injecting leaves every runtime record outside the "
               "injected subtree untouched and registers exactly one new generator at the end of the interrupt map "
               "(inject_keeps_method_flags, inject_registers_once); RUNNING a snippet of Mark / Wait / UOD command lines "
               "changes, in every sub-tick from any state, no record of a method line, no interrupt, macro, block tag, "
               "base unit or other generator (neutral_snippet_subtick_frame, induction over the micro-steps; "
               "inject_and_first_subtick_keep_method_flags); the generator registered for the injected wrapper starts "
               "the injected body at most once in its life under every environment (injected_body_starts_at_most_once), "
               "and over any whole run of ticks, command completions, cancel and force requests after an injection the "
               "injected body starts at most once in total: no second generator is ever registered for the wrapper and no "
               "other generator reaches it (injected_body_starts_at_most_once_in_a_run; programs without Call macro). "
               "The clause about edits is refuted for the code as it is by a kernel-evaluated witness "
               "(C14_counterexample) and the as-is behaviour is characterised (a merge keeps only interrupts whose "
               "line id exists in the new method); a second witness shows that an injected Block never ends "
               "(C14_witness_injected_block_never_ends). Tie: differential execution of inject + edit schedules on the "
               "real MethodManager/PInterpreter vs the model. Oracle on the real engine with Pause / Hold / Unpause / "
               "Unhold around the injection, a second snippet, accepted and refused edits: snippet effects exactly once, "
               "no step of the injected code in a tick that began Paused or Holding, inject_code leaves method state and "
               "pause/hold state alone, the method's started/completed sets equal those of the same run without the "
               "injection tick for tick, injected commands initialised once and finalized, a refused edit is no event.",
    level_note="Known findings: injected code is lost when the method is edited before it ran (its interrupt is looked up "
               "in the new method); an injected Block never ends (End block looks for locked blocks in the program "
               "only). Oracle-only (the engine's pause/hold gate, the CommandManager and the run log are not in M3/M4): "
               "'only while not paused or held', 'injection does not change pause/hold', 'command finalized', 'exactly "
               "once' in the sense of 'does run' and for the individual lines of the snippet (proved: the injected body "
               "starts at most once in any run, for programs without Call macro; the lines inside it are C02's matter), and "
               "'method progress unchanged' beyond the per-sub-tick frame theorem (no two-run simulation). Methods of "
               "the oracle cases are block-free so that the fixed horizon is no source of alarms. Trusted: Lean "
               "kernel, harness.",
    technique="Lean 4 proof (frame theorems for inject and for running neutral snippets, once-per-registration, decided "
              "counterexamples) + differential correspondence + engine oracle with pause/hold schedules",
)
MODULE = "OPM.Properties.C14"
REQUIRED = ["OPM.C14.inject_keeps_method_flags", "OPM.C14.inject_registers_once",
            "OPM.C14.neutral_snippet_subtick_frame", "OPM.C14.inject_and_first_subtick_keep_method_flags",
            "OPM.C14.injected_body_starts_at_most_once", "OPM.C14.injected_body_starts_at_most_once_in_a_run",
            "OPM.C14.C14_counterexample",
            "OPM.C14.C14_witness_injected_block_never_ends", "OPM.C14.merge_keeps_only_known_interrupts"]
STATS: Counter = Counter()     # input distribution seen by the oracle (copied into the evidence by run())


def marks_of(snap) -> list[str]:
    return [x for x in str(snap["tags"].get("Mark") or "").split("; ") if x]


SNIPPET_CMDS = ("CmdA", "CmdB", "CmdC")


def snippet_marks(sn: str) -> list[str]:
    return [ln.strip().split("Mark: ")[1] for ln in sn.splitlines() if "Mark: " in ln]


def snippet_cmds(sn: str) -> list[str]:
    return [ln.strip().split(" ")[-1] for ln in sn.splitlines() if ln.strip().split(" ")[-1] in SNIPPET_CMDS]


def neutral(sn: str) -> bool:
    """A snippet that has no business with the method's own progress: no Block / End block(s) (block lock, ends the
    method's blocks), no Base (changes the unit of the method's thresholds), no Watch / Alarm / Macro (a scope of
    its own on top of the method's), only Mark / Wait / UOD commands."""
    heads = [ln.strip().split(":")[0].split(" ")[-1] if ":" in ln else ln.strip() for ln in sn.splitlines() if ln.strip()]
    return all(h in ("Mark", "Wait") or h in SNIPPET_CMDS for h in heads)


def drive(case, with_injection: bool = True, with_edit: bool = True):  # noqa: C901
    """Runs the case on the real engine; returns the trace the oracle judges."""
    from harness.engine_run import EngineRun
    run = EngineRun(case["pcode"])
    tr: dict = {"ticks": [], "inject": None, "second": None, "edit": None, "injected_nodes": []}
    controls = sorted([list(c) for c in case.get("controls", [])], key=lambda c: c[0])
    at, after = case["at"], case["after"]
    inj_nodes: list = []     # node objects of the injected subtrees (they are not part of the program)

    def run_state():
        e = run.engine
        # the private pause / hold flags are found by role (harness.runstate), not by attribute name
        from harness import runstate as RS
        return (str(e.tags["System State"].get_value()), RS.flag(e, "paused"), RS.flag(e, "holding"))

    def sig():
        # steps of the interpreter through the injected code: `started` of every node, `completed` of the nodes the
        # interpreter completes itself (a command node is completed by the command manager when the command is done,
        # which may well happen during a hold)
        return [(n.started, n.completed and "Command" not in type(n).__name__, n.failed) for n in inj_nodes]

    def inject(sn: str):
        interp = run.engine.interpreter
        seen = {id(i.node) for i in interp.interrupts}
        mm = run.engine.method_manager
        st0 = mm.get_method_state()
        rs0 = run_state()
        err0 = run.engine.has_error_state()
        res = run.inject(sn)
        st1 = run.engine.method_manager.get_method_state()
        for i in run.engine.interpreter.interrupts:
            if id(i.node) not in seen and type(i.node).__name__ == "InjectedNode":
                inj_nodes.append(i.node)
                inj_nodes.extend(i.node.get_child_nodes(recursive=True))
        return {"res": res, "run_state": (rs0, run_state()), "error": (err0, run.engine.has_error_state()),
                "method_state": ((st0.started_line_ids, st0.executed_line_ids, st0.failed_line_ids),
                                 (st1.started_line_ids, st1.executed_line_ids, st1.failed_line_ids))}
    try:
        for t in range(at + after):
            while controls and controls[0][0] <= t:
                run.user(controls.pop(0)[1])
            k = t - at
            if with_injection and k == 0:
                tr["inject"] = inject(case["snippet"])
                tr["n_init0"] = Counter(e[1] for e in run.exec_log if e[0] == "init")
            if with_injection and case.get("second") and k == case["second"][0]:
                tr["second"] = inject(case["second"][1])
            if with_edit and case.get("edit") and k == case["edit"][0]:
                cur = [(ln.id, ln.content) for ln in run.engine.method_manager._method.lines]
                new = apply_edit_script(cur, case["edit"][1])
                m = run.Mdl.Method(lines=[run.Mdl.MethodLine(id=i, content=c) for i, c in new], version=0)
                before = (str(run.engine.tags["Method Status"].get_value()), run_state(), run.engine.has_error_state())
                res = run.edit(m)
                tr["edit"] = {"res": res, "tick": t, "before": before,
                              "after": (str(run.engine.tags["Method Status"].get_value()), run_state(),
                                        run.engine.has_error_state())}
            gate = run_state()[0]          # System State as the tick begins
            sig0 = sig()
            n_exec0 = len(run.exec_log)
            snap = run.tick()
            tr["ticks"].append({
                "gate": gate, "marks": marks_of(snap), "status": str(snap["raw_tags"].get("Method Status")),
                "sys": str(snap["raw_tags"].get("System State")),
                "started": sorted(n["id"] for n in snap["nodes"] if n["started"]),
                "completed": sorted(n["id"] for n in snap["nodes"] if n["completed"]),
                "inj_before": sig0, "inj_after": sig(),
                "exec": run.exec_log[n_exec0:], "instances": list(snap["instances"]), "raised": snap["raised"]})
        tr["exec_log"] = list(run.exec_log)
        tr["inj_final"] = [(type(n).__name__, n.started, n.completed, n.failed) for n in inj_nodes]
        return tr
    finally:
        run.close()


def oracle(case) -> list[Failure]:  # noqa: C901
    fails: list[Failure] = []
    a = drive(case)
    inj = a["inject"]
    if inj is None or inj["res"] != "ok" or inj["error"][0]:
        return []           # not injected (engine refused the snippet) or the run was already halted in error
    ticks = a["ticks"]
    edit = a["edit"]
    STATS["oracle:injections"] += 1
    STATS["oracle:snippet:" + "+".join(sorted({(ln.strip().split(":")[0].split(" ")[-1] if ":" in ln else
                                                "cmd" if ln.strip() in SNIPPET_CMDS else ln.strip())
                                               for ln in case["snippet"].splitlines() if ln.strip()}))] += 1
    STATS["oracle:injected-while-" + inj["run_state"][0][0].lower()] += 1
    if any(r["gate"] in ("Paused", "Holding") and not all(c for _, c, _ in r["inj_before"]) and r["inj_before"]
           for r in ticks):
        STATS["oracle:unfinished-injected-code-during-pause-or-hold"] += 1
    if edit is not None:
        STATS["oracle:edit-" + ("accepted" if edit["res"] == "ok" else "refused")] += 1
        k = edit["tick"]
        if k < len(ticks) and ticks[k]["inj_before"] and not all(c for _, c, _ in ticks[k]["inj_before"]):
            STATS["oracle:edit-while-injected-code-unfinished"] += 1
    accepted = edit is not None and edit["res"] == "ok"
    refused = edit is not None and edit["res"] != "ok"
    sfx = "-after-edit" if accepted else ""
    want_marks = snippet_marks(case["snippet"]) + (snippet_marks(case["second"][1]) if a["second"] else [])
    want_cmds = snippet_cmds(case["snippet"]) if not case.get("method_has_cmds") else []

    # (1) the act of injecting: method state and pause/hold state are what they were
    for which in ("inject", "second"):
        i = a[which]
        if i is None or i["res"] != "ok":
            continue
        if i["method_state"][0] != i["method_state"][1]:
            fails.append(Failure("injection-changed-method-state", case, "method state differs right after inject_code"))
        if i["run_state"][0] != i["run_state"][1]:
            fails.append(Failure("injection-changed-run-state", case,
                                 f"(System State, paused, holding) {i['run_state'][0]} -> {i['run_state'][1]} by inject_code"))

    # (2) only while not paused or held: in a tick that began Paused / Holding the injected code makes no step
    for t, r in enumerate(ticks):
        if r["gate"] in ("Paused", "Holding"):
            new_marks = [m for m in want_marks if r["marks"].count(m) > (ticks[t - 1]["marks"].count(m) if t else 0)]
            new_inits = [e for e in r["exec"] if e[0] == "init" and e[1] in want_cmds]
            if r["inj_before"] != r["inj_after"][:len(r["inj_before"])] or new_marks or new_inits:
                fails.append(Failure("injected-code-progressed-while-" + r["gate"].lower(), case,
                                     f"tick {t} began with System State {r['gate']}; injected nodes "
                                     f"{r['inj_before']} -> {r['inj_after']}, marks {new_marks}, inits {new_inits}"))
                break

    # (3) a refused edit is no event at all: engine state untouched, and the run equals the run without it
    if refused:
        if edit["before"] != edit["after"]:
            fails.append(Failure("refused-edit-changed-engine-state", case,
                                 f"refused edit at tick {edit['tick']}: (Method Status, run state, error) "
                                 f"{edit['before']} -> {edit['after']}"))
        b = drive(case, with_edit=False)
        proj = lambda tr: [(r["marks"], r["status"], r["sys"], r["inj_after"], r["exec"]) for r in tr["ticks"]]  # noqa: E731
        if proj(a) != proj(b):
            k = next(i for i, (x, y) in enumerate(zip(proj(a), proj(b))) if x != y)
            fails.append(Failure("refused-edit-affected-injected-code", case,
                                 f"from tick {k} on the run differs from the same run without the refused edit: "
                                 f"{proj(a)[k]} vs {proj(b)[k]}"))

    # reference: the same run (method, pause/hold schedule, edit) without any injection
    ref = drive(case, with_injection=False)
    last, rlast = ticks[-1], ref["ticks"][-1]
    ended_ok = last["sys"] == "Running" and last["status"] != "Error"
    ref_ok = rlast["sys"] == "Running" and rlast["status"] != "Error"
    if not ended_ok:
        if ref_ok and not accepted and not refused and case.get("valid_snippet", True) and last["status"] == "Error":
            fails.append(Failure("injection-caused-error", case,
                                 "Method Status is Error after injecting a valid snippet; the same run without it is not"))
        return fails

    # (4) exactly once
    got = Counter(last["marks"])
    for m in want_marks:
        if got[m] == 0:
            fails.append(Failure("injected-code-did-not-run" + sfx, case, f"Mark {m!r} of the injected snippet never set"))
        elif got[m] > 1:
            fails.append(Failure("injected-code-ran-twice" + sfx, case, f"Mark {m!r} of the injected snippet set {got[m]} times"))
    # the InjectedNode wrapper completes when the interpreter has been through the whole snippet (a Watch / Alarm in
    # the snippet lives on as an interrupt of its own, a command is completed later by the command manager)
    wrappers = [x for x in a["inj_final"] if x[0] == "InjectedNode"]
    if any(not x[2] for x in wrappers) and not accepted and not any(x[3] for x in a["inj_final"]):
        open_blocks = any(x[0] == "BlockNode" and x[1] and not x[2] for x in a["inj_final"])
        fails.append(Failure("injected-code-did-not-complete" + (":block-never-ends" if open_blocks else ""), case,
                             f"the interpreter never got to the end of the injected code: {a['inj_final']}"))

    # (5) an injected UOD command is started once, completes and is finalized
    if want_cmds:
        n_init = Counter(e[1] for e in a["exec_log"] if e[0] == "init")
        n_final = Counter(e[1] for e in a["exec_log"] if e[0] == "final")
        for c in set(want_cmds):
            started = n_init[c] - a["n_init0"][c]
            if started < 1:
                fails.append(Failure("injected-command-did-not-run" + sfx, case, f"{c} of the snippet never initialised"))
            elif started > want_cmds.count(c):
                fails.append(Failure("injected-command-ran-twice" + sfx, case,
                                     f"{c} of the snippet initialised {started} times"))
            if n_init[c] != n_final[c] or c in last["instances"]:
                fails.append(Failure("injected-command-not-finalized" + sfx, case,
                                     f"{c}: init {n_init[c]} / finalize {n_final[c]}, instances {last['instances']}"))

    # (6) the method's own progress, tick for tick, is that of the run without the injection
    if ref_ok and neutral(case["snippet"]) and (not a["second"] or neutral(case["second"][1])) and \
            not (snippet_cmds(case["snippet"]) and case.get("method_has_cmds")):
        STATS["oracle:method-progress-compared"] += 1
        for t, (r, q) in enumerate(zip(ticks, ref["ticks"])):
            if (r["started"], r["completed"]) != (q["started"], q["completed"]):
                d = sorted(set(r["started"]) ^ set(q["started"]) | set(r["completed"]) ^ set(q["completed"]))
                fails.append(Failure("injection-changed-method-progress" + sfx, case,
                                     f"tick {t}: started/completed method lines differ from the run without the "
                                     f"injection at line ids {d}"))
                break
    return fails


WITNESS = {"pcode": "Wait: 3s\nMark: b", "at": 6, "snippet": "Wait: 1s\nMark: inj", "after": 60,
           "edit": [2, [["append", "Mark: c"]]], "method_has_cmds": False}


def resume(controls: list, at_least: int) -> list:
    """Appends the Unpause / Unhold that bring the schedule back to Running (not before tick `at_least`)."""
    paused = held = False
    for _, c in sorted(controls, key=lambda x: x[0]):
        paused = True if c == "Pause" else False if c == "Unpause" else paused
        held = True if c == "Hold" else False if c == "Unhold" else held
    t = max([at_least] + [x[0] + 1 for x in controls])
    out = list(controls)
    if paused:
        out.append([t, "Unpause"])
    if held:
        out.append([t + 1, "Unhold"])
    return out


def template_cases() -> list[dict]:
    out = []
    methods = ["Mark: A\nWait: 3s\nMark: B", "Block: K\n    Mark: A\n    Wait: 3s\n    End block\nMark: B"]
    snippets = ["Mark: i1", "Wait: 1s\nMark: i1", "Watch: T0 = 0\n    Mark: i1\n    Mark: i1b", "Block: Q\n    Mark: i1\n    End block",
                "Alarm: T0 = 0\n    Mark: i1\n    Wait: 20s", "CmdB\nMark: i1"]
    for m in methods:
        for sn in snippets:
            for at in (4, 9):
                out.append({"pcode": m, "at": at, "snippet": sn, "after": 70, "method_has_cmds": False})
                # a second snippet while the first is still alive
                for gap in (0, 1, 3):
                    out.append({"pcode": m, "at": at, "snippet": sn, "after": 70, "method_has_cmds": False,
                                "second": [gap, "Mark: i2"]})
    # injection around a pause / a hold: before, while, just after
    for m in methods:
        for sn in ("Mark: i1", "Wait: 1s\nMark: i1", "CmdB\nMark: i1", "CmdC"):
            for stop, go in (("Pause", "Unpause"), ("Hold", "Unhold")):
                for at in (8, 10, 12, 16, 22):          # stop requested before tick 10, resumed before tick 20
                    out.append({"pcode": m, "at": at, "snippet": sn, "after": 80, "method_has_cmds": False,
                                "controls": [[10, stop], [20, go]]})
                out.append({"pcode": m, "at": 14, "snippet": sn, "after": 80, "method_has_cmds": False,
                            "controls": [[10, "Pause"], [12, "Hold"], [20, "Unpause"], [26, "Unhold"]]})
    # an edit that is refused (it rewrites the executed first line) at every tick of the injected code's life
    for m in methods:
        for sn in ("CmdC\nMark: i1", "Wait: 1s\nMark: i1", "CmdB"):
            for gap in range(0, 12):
                out.append({"pcode": m, "at": 8, "snippet": sn, "after": 70, "method_has_cmds": False,
                            "edit": [gap, [["change", 0.01, "    Mark: rewritten" if m.startswith("Block") else "Mark: rewritten"]]]})
    return out


def gen_cases(ctx: Check, n: int) -> list[dict]:
    rng = ctx.rng
    out = [WITNESS] + [k["witness"] for k in ctx.known if k.get("witness")] + template_cases()
    for _ in range(n):
        has_cmds = rng.random() < 0.3
        feats = {"mark", "wait", "thr", "watch"} | ({"cmd"} if has_cmds else set())
        pcode, _ = gen_program(rng, features=feats, max_lines=7, max_depth=1)
        snippet = gen_snippet(rng)
        if "Block" in snippet and "End block" not in snippet:
            snippet += "\n    End block"
        c = {"pcode": pcode, "at": rng.randrange(3, 25), "snippet": snippet, "after": 110, "method_has_cmds": has_cmds}
        x = rng.random()
        if x < 0.25:
            c["edit"] = [rng.randrange(0, 6), [["append", "Mark: zz"]]]
        elif x < 0.4:
            c["edit"] = [rng.randrange(0, 8), [["change", 0.01, "Mark: rewritten"]]]     # refused if line 1 has started
        if rng.random() < 0.5:
            # a pause and/or a hold somewhere around the injection; the schedule always returns to Running
            ctl = []
            t = max(1, c["at"] + rng.randrange(-6, 6))
            for _ in range(rng.choice([1, 1, 2])):
                stop, go = rng.choice([("Pause", "Unpause"), ("Hold", "Unhold")])
                ctl.append([t, stop])
                t += rng.randrange(1, 12)
                if rng.random() < 0.8:
                    ctl.append([t, go])
                t += rng.randrange(0, 6)
            c["controls"] = resume(ctl, t)
        out.append(c)
    return out


def run(ctx: Check) -> int:
    ctx.prove(MODULE, REQUIRED)
    ctx.rule = ("M3/M4 stream: generated methods x schedules with an injected snippet (Mark / Wait / UOD command / Block) "
                "at a random op position and optional live edits; oracle: snippets injected at a random tick of runs on "
                "the real engine (block-free methods), half of them with a Pause/Hold ... Unpause/Unhold schedule around "
                "the injection, 25% followed by an appending edit and 15% by an edit that rewrites line 1 (refused once "
                "it has started) 0-7 ticks later; templates: injection before / during / after a pause and a hold, a "
                "second snippet, a refused edit at every tick of the injected code's life.")
    rng = ctx.rng
    extra = []
    for _ in range(ctx.n(100, 2000)):
        pcode, _ = gen_program(rng, max_lines=10)
        ops = gen_schedule(rng, rng.randrange(12, 40))
        k = rng.randrange(1, len(ops))
        sn = gen_snippet(rng)
        ops.insert(k, ["inject", sn])
        ctx.count("stream:snippet:" + sn.strip().split(":")[0].split(" ")[-1].split("\n")[0])
        if rng.random() < 0.4:
            ops.insert(rng.randrange(k, len(ops)), ["edit", gen_edit_script(rng)])
            ctx.count("stream:with-edit-after-injection")
        extra.append({"pcode": pcode, "ops": ops})
    m3_stream(ctx, "inject-m3m4", 0, extra_cases=extra)
    STATS.clear()
    ctx.monitor(gen_cases(ctx, ctx.n(40, 600)), oracle, impl_timeout=120)
    for k, v in sorted(STATS.items()):
        ctx.count(k, v)
    return ctx.finish(search=lambda c: c.monitor(gen_cases(c, c.n(100, 600)), oracle, impl_timeout=120))


def replay(obj) -> int:
    """Re-runs the oracle on the case of a replay file; exit 1 iff a failure that is not a recorded finding shows."""
    from vp.core import load_known
    c = obj.get("case", {})
    if "snippet" in c:
        known = {k["key"] for k in load_known("C14")}
        fs = oracle(c)
        print(c)
        for f in fs:
            print("oracle:" if f.key not in known else "oracle (recorded finding):", f.key, f.detail)
        return 1 if any(f.key not in known for f in fs) else 0
    print(obj)
    return 0
