"""C18 Instruction lines decompose into exactly their parts.

Proof half: OPM.Properties.C18 — for every well-formed line (explicit predicate `LineParts.WF`) the scanner
model of `Grammar.full_line_re` returns exactly indentation, threshold, name, argument, comment; for every
well-formed condition `tag op value [unit]` (`CondParts.WF`) the model of `_parse_tag_operator_value`
returns tag, operator, value, unit (operator search order handled for every operator list ordered longest
first; both lists of the code are checked).
Tie half: `_parse_line` / `_parse_tag_operator_value` of the real parser against the model on lines generated
from exactly that grammar, on near-misses (mutations, arbitrary unicode), and on all short right-hand sides.
"""
from __future__ import annotations

import itertools
import json
import os
import random
import re
import subprocess
import sys
from pathlib import Path
from typing import Any

from vp.core import reraise_harness_fault as core_reraise
from vp.core import Check, Failure, Infra, drive, enc, load_corpus

META = dict(
    level_text="Lean 4 theorems about the line model: for every well-formed line the parts (indentation, threshold, "
               "instruction name, argument, has-argument, comment) are recovered exactly (line_decomposes, "
               "line_raw_groups; holds with and without the repair); for every well-formed 'tag op value [unit]' and "
               "every operator list ordered longest-first (both lists of the code: condOps_ok, assignOps_ok, "
               "operator_lists) tag, operator, value and unit are recovered (condition_decomposes, "
               "condition_line_decomposes). Tied to the real parser by differential execution on grammar-generated "
               "lines, near-misses and all short right-hand sides.",
    level_note="condition_decomposes is proved for the parser with fixes/C18-number-tail-as-unit.diff (number matched "
               "atomically); without it 'X > 52' parses as value 5, unit 2 (Lean: asis_number_tail_taken_as_unit) and "
               "this check reports a VIOLATION. Partial for units: the unit class [a-zA-Z%/23*] misses the supported "
               "units °C, °F, µS/cm (C18_full / C18_counterexample / C18_partial, units_not_recognised; known finding "
               "supported-unit-not-recognised). Names start with a letter or '_' (a name that starts with digits and a "
               "space is indistinguishable from a threshold). Typed results (node.threshold, tag_value_numeric) are modelled "
               "as exact decimals and compared with the floats for texts of <= 15 digits; the oracle compares them with "
               "float(text) always. The separator ': ' is part of the well-formed grammar, but the parser's behaviour on "
               "other input (e.g. 'Mark:a') is not pinned: disagreements there are notes. Source ranges are not modelled. "
               "Scope in time: the property is about what PARSING a line yields — the parts are demanded of the node as "
               "the parser returns it (for any parser instance, whatever the process did before: other node types parsed "
               "first, editor completions/hover/lint served in between). What later stages do with a node they own "
               "(e.g. the interpreter rewriting a Watch limit into the tag's unit while the method runs) is not parsing "
               "and is outside C18. "
               "CPython re is trusted differentially.",
    technique="Lean 4 proof (deterministic scanner equivalent to the regular expressions, list-splitting lemmas) + "
              "differential correspondence + independent parts oracle",
)
MODULE = "OPM.Properties.C18"
REQUIRED = ["OPM.C18.line_decomposes", "OPM.C18.line_raw_groups", "OPM.C18.condition_decomposes",
            "OPM.C18.condition_line_decomposes", "OPM.C18.condOps_ok", "OPM.C18.assignOps_ok",
            "OPM.C18.operator_lists", "OPM.C18.C18_counterexample", "OPM.C18.C18_partial",
            "OPM.C18.units_not_recognised"]
DRIVER = "Parse"
COND_OPS = ["<=", ">=", "==", "!=", "<", ">", "="]
UNIT_CLASS = set("abcdefghijklmnopqrstuvwxyzABCDEFGHIJKLMNOPQRSTUVWXYZ%/23*")


def supported_units() -> list[str]:
    from harness.translators.parse_tables import supported_units as su
    return su()


# ----------------------------------------------------------------------------------------------
# the line grammar (mirror of LineParts.WF / CondParts.WF)

def gen_number(rng: random.Random) -> str:
    digits = "0123456789"
    sign = rng.choice(["", "", "", "+", "-"])
    ip = "".join(rng.choice(digits) for _ in range(rng.randint(0, 3)))
    fp = None if rng.random() < 0.5 else "".join(rng.choice(digits) for _ in range(rng.randint(0, 3)))
    if ip == "" and not fp:
        ip = rng.choice(["2", "3", "12", "52", "13", "23", "32", "100", "0"])
    ex = ""
    if rng.random() < 0.25:
        ex = rng.choice("eE") + rng.choice(["", "+", "-"]) + "".join(rng.choice(digits) for _ in range(rng.randint(1, 2)))
    return sign + ip + ("" if fp is None else "." + fp) + ex


TAGS = ["X", "Run Counter", "Block Time", "A1", "Tag 2", "FT01", "pH", "System State", "a_b", "T 1 2", "Ünit tag", "x.y"]
TEXT_VALUES = ["Running", "Not Running", "on", "a b c", "e5", "x2", "Ünicode", "A.1", "m-3", "on hold 2",
               "step 3 of 4", "2 of 3", "0,98", "1st pass", "3-way", "12:30", "1.5.2", "7-up", "5 µm", "-1 or less",
               "2e3 x 4", ".5 to 1", "10 000", "1/2 full"]
_NUMBER_LIKE = re.compile(r"[+-]?(\d+(\.\d*)?|\.\d+)([eE][+-]?\d+)?\s*[a-zA-Z%/23*]*")
TEXT_TAILS = [" of 3", ",98", "st pass", "-way", ":30", ".2.1", " up", " µm", " or less", " x 4", " to 1", " 000", "_a", "(b)"]


def is_text_value(v: str) -> bool:
    """Independent of the implementation: `v` cannot be read as a number with an optional unit (for any split),
    so as a condition value it is a text — also when it begins with digits ("2 of 3", "0,98", "1st pass")."""
    return v == v.strip() and v != "" and not any(ch in v for ch in "<>=!#") and _NUMBER_LIKE.fullmatch(v) is None


def gen_text_value(rng: random.Random) -> str:
    if rng.random() < 0.5:
        v = rng.choice(TEXT_VALUES)
        return v if is_text_value(v) else "2 of 3"
    for _ in range(20):
        v = gen_number(rng) + rng.choice(TEXT_TAILS)
        if is_text_value(v):
            return v
    return "2 of 3"
NAME_EXTRA = ["Foo", "_x", "My command 2", "Mark2", "a.b", "U-näme", "x", "Zeta (1)", "End", "Watch dog"]


def gen_cond(rng: random.Random, ops: list[str], units: list[str]) -> dict:
    tag = rng.choice(TAGS)
    op = rng.choice(ops)
    s1, s2 = rng.choice(["", " ", " ", "  ", "\t"]), rng.choice(["", " ", " ", "  ", "\xa0"])
    if rng.random() < 0.7:
        value = gen_number(rng)
        unit = None
        if rng.random() < 0.6:
            unit = rng.choice(units) if rng.random() < 0.8 else \
                "".join(rng.choice("abcLmhgs%/23*EeK") for _ in range(rng.randint(1, 4)))
        ws = rng.choice([" ", " ", "  ", "\t"])
        text = tag + s1 + op + s2 + value + ("" if unit is None else ws + unit)
    else:
        value, unit = gen_text_value(rng), None
        text = tag + s1 + op + s2 + value
    return {"tag": tag, "op": op, "value": value, "unit": unit, "text": text}


def gen_line(rng: random.Random, units: list[str]) -> dict:
    from harness import parse_common as pc
    indent = rng.choice([0, 0, 4, 4, 8, 12, 1, 2, 3, 6, 17])
    thr = None
    if rng.random() < 0.4:
        thr = rng.choice(["0", "1", "5", "12", "2.5", "10.25", "007", "3.0", "٣", "१२.५", "0.1", "2.75", "10.125", "1234567.891"])
    kind = rng.random()
    cond = None
    if kind < 0.45:
        name = rng.choice(["Watch", "Alarm", "Simulate"])
        cond = gen_cond(rng, ["="] if name == "Simulate" else COND_OPS, units)
        arg = cond["text"]
    else:
        name = rng.choice(pc.OPENERS + pc.LEAVES + pc.UOD + NAME_EXTRA)
        arg = None
        if rng.random() < 0.6:
            arg = rng.choice(["A", "b c", "5", "1.5 h", "x: y", "a:b", "Ü é", "0.5 L/min", "it's", "1 2 3", "(x)", ": :"])
    pad = rng.choice(["", "", " ", "  ", "\t", " \xa0"])
    comment = None
    if rng.random() < 0.45:
        comment = [rng.choice(["", " ", "  ", "\t"]), rng.choice(["", "note", "a # b", "x: y", "Ünicode ✓", "trailing  ", "#"])]
    line = " " * indent + ("" if thr is None else thr + " ") + name + ("" if arg is None else ": " + arg) + pad + \
        ("" if comment is None else "#" + comment[0] + comment[1])
    return {"line": line, "indent": indent, "thr": thr, "name": name, "arg": arg, "comment": comment, "cond": cond}


def mutate(rng: random.Random, s: str) -> str:
    from harness import parse_common as pc
    s = list(s)
    for _ in range(rng.randint(1, 2)):
        r = rng.random()
        pos = rng.randrange(0, len(s) + 1)
        if r < 0.4 and s:
            del s[min(pos, len(s) - 1)]
        elif r < 0.8:
            s.insert(pos, rng.choice(pc.NASTY))
        elif s:
            s[min(pos, len(s) - 1)] = rng.choice(pc.NASTY)
    return "".join(c for c in s if c != "\n")


# ----------------------------------------------------------------------------------------------
# oracle: the parts the generator put in are the parts the parser reports

def cond_failure(case: Any, c, cond: dict) -> Failure | None:
    got = {"tag": c.tag_name, "op": c.op, "value": c.tag_value, "unit": c.tag_unit, "numeric": c.tag_value_numeric}
    want = {k: cond[k] for k in ("tag", "op", "value", "unit")}
    text_value = cond["unit"] is None and is_text_value(cond["value"])
    # the typed value is the number written in the text; a text is not a number
    want["numeric"] = None if text_value else float(cond["value"])
    if got == want and not c.error:
        return None
    unit = cond["unit"]
    rhs = cond["text"].split(cond["op"], 1)[1].strip()
    if unit is not None and not set(unit) <= UNIT_CLASS and not c.error and got["tag"] == want["tag"] and \
            got["op"] == want["op"] and got["value"] == rhs and got["unit"] is None and got["numeric"] is None:
        key = "supported-unit-not-recognised"  # exactly the recorded shape: number and unit kept together as a text
    elif cond["unit"] is None and not text_value and got["tag"] == want["tag"] and got["op"] == want["op"] \
            and got["unit"] is not None and (got["value"] or "") + got["unit"] == cond["value"]:
        key = "number-tail-parsed-as-unit"
    else:
        bad = [k for k in want if got[k] != want[k]]
        if "value" in bad and "numeric" in bad:
            bad.remove("numeric")  # consequence of the wrong value, not a second signature
        key = "condition-part-mismatch:" + ",".join(bad) + (":error" if c.error else "")
    return Failure(key, case, f"{cond['text']!r}: expected {want}, parser reports {got} error={c.error}")


def oracle_line(case: dict) -> Failure | None:
    import openpectus.lang.model.ast as p
    from harness import parse_common as pc
    try:
        node = pc.parse_one_line(case["line"])
    except Exception as e:
        core_reraise(e)
        return Failure(f"parse-raises:{type(e).__name__}", case, f"{case['line']!r}: {type(e).__name__}: {e}")
    want = {"indent": case["indent"], "indent_error": case["indent"] % 4 != 0, "threshold": case["thr"] or "",
            "name": case["name"], "argument": case["arg"] or "", "has_argument": case["arg"] is not None,
            "has_comment": case["comment"] is not None, "comment": case["comment"][1] if case["comment"] else "",
            "threshold_value": None if case["thr"] is None else float(case["thr"])}
    got = {"indent": node.position.character, "indent_error": bool(node.indent_error), "threshold": node.threshold_part,
           "name": node.instruction_name, "argument": node.arguments, "has_argument": bool(node.has_argument),
           "has_comment": bool(node.has_comment), "comment": node.comment_part, "threshold_value": node.threshold}
    bad = [k for k in want if want[k] != got[k]]
    if bad:
        return Failure("line-part-mismatch:" + ",".join(bad), case,
                       f"{case['line']!r}: expected {({k: want[k] for k in bad})}, parser reports {({k: got[k] for k in bad})}")
    if case["cond"] is not None:
        if not isinstance(node, p.NodeWithTagOperatorValue) or node.tag_operator_value is None:
            return Failure("condition-not-parsed", case, f"{case['line']!r}: node {type(node).__name__} has no condition")
        return cond_failure(case, node.tag_operator_value, case["cond"])
    return None


def oracle_cond(case: dict) -> Failure | None:
    import openpectus.lang.model.ast as p
    from openpectus.lang.model.parser import PcodeParser
    node = p.WatchNode() if len(case["ops"]) > 1 else p.SimulateNode()
    node.arguments_part = case["part"]
    try:
        PcodeParser._parse_tag_operator_value(node)
    except Exception as e:
        core_reraise(e)
        return Failure(f"parse-raises:{type(e).__name__}", case, f"{case['part']!r}: {type(e).__name__}: {e}")
    return cond_failure(case, node.tag_operator_value, case["cond"])


# ----------------------------------------------------------------------------------------------

def _uod() -> str:
    from harness.parse_common import UOD, enc_list
    return enc_list(UOD)


def line_op(line: str, fx: str = "1", parts: bool = False) -> list[str]:
    """parts=True: only the parts the property speaks about (no raw regex groups); error-line flag 1 = the line
    parser as repaired in /repo (4ad2b33e)"""
    return [f"{'linep' if parts else 'line'}\t{fx}\t1\t{_uod()}\t{enc(line)}"]


_NUM = r"[+-]?(?:\d+(?:\.\d*)?|\.\d+)(?:[eE][+-]?\d+)?"
_RHS_NUM = re.compile(_NUM)
_RHS_NUM_UNIT = re.compile("(" + _NUM + r")\s+([a-zA-Z%/23*]+)")


def classify_rhs(rhs: str) -> dict | None:
    """Independent reading of a right-hand side: number / number ws+ unit / text; None = not well-formed
    (empty, '5m' without white space, operator characters …) — the property says nothing about those."""
    if _RHS_NUM.fullmatch(rhs):
        return {"value": rhs, "unit": None}
    m = _RHS_NUM_UNIT.fullmatch(rhs)
    if m:
        return {"value": m.group(1), "unit": m.group(2)}
    if is_text_value(rhs):
        return {"value": rhs, "unit": None}
    return None


def illformed_streams(ctx: Check, streams: list) -> None:
    """Model/implementation agreement on input the property does not speak about (near-misses, ill-formed
    right-hand sides, raw regex groups). A disagreement there is a note in the evidence, not a violation: the
    parser is free to become more tolerant (e.g. accept 'Mark:a') as long as well-formed lines decompose as
    before. `streams` = [(name, cases, lines, impl)]; one driver run for all of them."""
    all_lines, io = [], []
    for name, cases, lines, impl in streams:
        for c in cases:
            all_lines.append(lines(c))
            try:
                io.append([str(x) for x in impl(c)])
            except Exception as e:
                io.append([f"err:{type(e).__name__}"])
            if io[-1] and io[-1][0].startswith("err:"):
                # what the parser makes of ill-formed input is its business — but it must not raise
                ctx.fail(Failure("parse-raises:" + io[-1][0][4:], c,
                                 f"stream {name}: the parser raised {io[-1][0][4:]} on {c.get('line', c.get('part'))!r}"))
    mo = drive(DRIVER, all_lines)
    k = 0
    for name, cases, lines, impl in streams:
        bad = [(c, a, b) for c, a, b in zip(cases, io[k:k + len(cases)], mo[k:k + len(cases)]) if a != b]
        k += len(cases)
        ctx.evaluations += len(cases)
        rec = {"cases": len(cases), "disagreements": len(bad)}
        if bad:
            c, a, b = bad[0]
            rec["first"] = {"case": c, "impl": a[:1], "model": b[:1]}
            ctx.notes.append(f"stream {name} (input outside the property's grammar): model and implementation differ "
                             f"on {len(bad)} of {len(cases)} cases, e.g. {c!r} — not a violation")
        ctx.extra.setdefault("illformed_input_agreement", {})[name] = rec


def cond_op(ops: list[str], part: str, fx: str = "1") -> list[str]:
    from harness.parse_common import enc_list
    return [f"cond\t{fx}\t{enc_list(ops)}\t{enc(part)}"]


_FRESH = """
import sys, json
sys.path.insert(0, %r)
import logging
logging.disable(logging.CRITICAL)
import props.C18 as m
job = json.load(sys.stdin)
done = m.run_actions(job.get("actions", []))
out = []
for i, c in enumerate(job["cases"]):
    f = m.oracle_line(c)
    if f is not None:
        out.append({"i": i, "key": f.key, "detail": f.detail})
print("RESULT" + json.dumps({"failures": out, "actions_done": done}))
"""


def run_actions(actions: list[dict]) -> dict:
    """(in the child process) what else happens in a process that parses: editor requests served by
    openpectus.lsp.lsp_analysis (completions / hover at a cursor position, lint of a document). They share the
    parser's class-level tables; what they answer is not C18's business (their exceptions are ignored), only
    that the parser decomposes lines afterwards as before."""
    done = {"completions": 0, "hover": 0, "lint": 0, "raised": 0}
    if not actions:
        return done
    from pylsp.workspace import Document, Workspace
    from openpectus.lsp import lsp_analysis
    from openpectus.lsp.model import Position
    from openpectus.protocol.models import CommandDefinition, TagDefinition, UodDefinition
    uod_info = UodDefinition(
        commands=[CommandDefinition(name="Uod", validator=None, docstring="")],
        system_commands=[CommandDefinition(name=n, validator=None, docstring="") for n in
                         ("Watch", "Alarm", "Simulate", "Mark", "Block", "End block", "Macro", "Call macro", "Wait")],
        tags=[TagDefinition(name="X", unit=None), TagDefinition(name="Run Time", unit="s"),
              TagDefinition(name="Flow", unit="L/h"), TagDefinition(name="Level", unit="%")])
    setattr(lsp_analysis, "fetch_uod_info", lambda _: uod_info)
    setattr(lsp_analysis, "fetch_simulated_tags", lambda _: list())
    setattr(lsp_analysis, "fetch_process_value", lambda *_: None)
    lsp_analysis.create_analysis_input.cache_clear()
    workspace = Workspace(root_uri="", endpoint=None, config=None)
    for a in actions:
        doc = Document(uri="file://workspace/uri", workspace=workspace, source=a["source"])
        try:
            if a["kind"] == "lint":
                lsp_analysis.lint(doc, "eng")
            else:
                pos = Position(line=a.get("line", 0), character=a["character"])
                if a["kind"] == "completions":
                    lsp_analysis.completions(doc, pos, ignored_names=None, engine_id="eng")
                else:
                    lsp_analysis.hover(doc, pos, "eng")
            done[a["kind"]] += 1
        except Exception:
            done["raised"] += 1
    return done


def fresh_process(cases: list[dict], actions: list[dict] | None = None) -> dict:
    """The parts oracle on `cases`, parsed in this order by a parser in a FRESH interpreter, after `actions`:
    what a line decomposes into must not depend on what the process did before (class-level tables, caches)."""
    env = dict(os.environ, VERIF_SHARED_LEAN="1")   # the child only parses; it needs no Lean workspace
    p = subprocess.run([sys.executable, "-c", _FRESH % str(Path(__file__).resolve().parent.parent)],
                       input=json.dumps({"cases": cases, "actions": actions or []}), capture_output=True, text=True,
                       env=env, timeout=900)
    for ln in p.stdout.splitlines():
        if ln.startswith("RESULT"):
            return json.loads(ln[6:])
    raise Infra(f"fresh-process oracle did not answer: rc={p.returncode} {(p.stdout + p.stderr)[-400:]}")


def fresh_process_failures(cases: list[dict], actions: list[dict] | None = None) -> list[dict]:
    return fresh_process(cases, actions)["failures"]


def order_streams(ctx: Check, wf: list[dict]) -> None:
    def cl(name: str, tag: str, op: str, val: str, unit: str | None = None, parser: str | None = None) -> dict:
        text = f"{tag} {op} {val}" + ("" if unit is None else " " + unit)
        c = {"line": f"{name}: {text}", "indent": 0, "thr": None, "name": name, "arg": text, "comment": None,
             "cond": {"tag": tag, "op": op, "value": val, "unit": unit, "text": text}}
        if parser:
            c["parser"] = parser
        return c
    cond_lines = [c for c in wf if c.get("cond") and (c["cond"]["unit"] is None or set(c["cond"]["unit"]) <= UNIT_CLASS)]
    sim = [c for c in cond_lines if c["name"] == "Simulate"]
    wa = [c for c in cond_lines if c["name"] != "Simulate"]
    # every operator, with and without unit, through the method parser and the inject parser
    all_ops = [cl(n, "X", op, "5", u, ps) for n in ("Watch", "Alarm") for op in COND_OPS for u in (None, "s")
               for ps in (None, "inject")] + [cl("Simulate", "Run Time", "=", "7", u, ps) for u in (None, "s")
                                              for ps in (None, "inject")]
    # editor sessions: a request at every cursor position of lines with every operator
    edit_lines = [f"{n}: Run Time {op} 5{u}" for n in ("Watch", "Alarm") for op in COND_OPS for u in ("", " s", " min")] + \
        ["Simulate: Run Time = 7 s", "Watch: X", "Watch: ", "Alarm: Flow <", "    Mark: a", "Watch: Level >= 20 %"]
    if ctx.tier == "quick":
        edit_lines = [ln for ln in edit_lines if " min" not in ln]
    doc = "\n".join(["Block: A", "    Watch: Run Time <= 5 s", "        Mark: a", "    Alarm: Flow != 2 L/h",
                     "        Mark: b", "    Simulate: X = 3", "    End block", ""])
    completions = [{"kind": "completions", "source": ln, "character": k} for ln in edit_lines for k in range(len(ln) + 1)]
    hovers = [{"kind": "hover", "source": ln, "character": k} for ln in edit_lines for k in range(len(ln) + 1)] + \
        [{"kind": "hover", "source": doc, "line": i, "character": k} for i, ln in enumerate(doc.split("\n"))
         for k in range(0, len(ln) + 1, 2)]
    lints = [{"kind": "lint", "source": src} for src in [doc] + edit_lines]
    scenarios = {
        "simulate-first": ([cl("Simulate", "X", "=", "5")] + all_ops + wa[: ctx.n(150, 3000)], []),
        "watch-first": ([cl("Watch", "X", ">=", "5"), cl("Simulate", "X", "=", "5")] + sim[: ctx.n(100, 2000)]
                        + wa[: ctx.n(50, 500)], []),
        "after-lsp-completions": (all_ops + wa[: ctx.n(60, 1000)] + sim[: ctx.n(20, 300)], completions),
        "after-lsp-hover-lint": (all_ops + wa[: ctx.n(60, 1000)] + sim[: ctx.n(20, 300)], hovers + lints),
    }
    ctx.extra["fresh_process_scenarios"] = {}
    for name, (cases, actions) in scenarios.items():
        ctx.evaluations += len(cases)
        ctx.count("fresh-process:" + name, len(cases))
        res = fresh_process(cases, actions)
        ctx.extra["fresh_process_scenarios"][name] = {"lines_checked": len(cases), "requests": res["actions_done"]}
        if actions and sum(res["actions_done"][k] for k in ("completions", "hover", "lint")) == 0:
            raise Infra(f"scenario {name}: no editor request could be served — the interleaving was not exercised")
        what = "other-node-type" if not actions else "editor-requests"
        shrunk = None
        for f in res["failures"][:20]:
            if not actions:
                case = {"fresh_process": [cases[0], cases[f["i"]]]}
            else:
                if shrunk is None:   # once per scenario: a single request after which this line already fails
                    shrunk = _shrink_actions(cases[f["i"]], actions)
                case = {"fresh_process": [cases[f["i"]]], "actions": shrunk}
            ctx.fail(Failure(f["key"] + f":in-fresh-process-after-{what}", case,
                             f"scenario {name}: {f['detail']}"))


def _shrink_actions(case: dict, actions: list[dict]) -> list[dict]:
    """bisect the request list (a few child processes) down to a short prefix after which `case` fails"""
    lo, hi = 0, len(actions)          # invariant: actions[:hi] makes the case fail
    try:
        for _ in range(12):
            if hi - lo <= 1:
                break
            mid = (lo + hi) // 2
            if fresh_process_failures([case], actions[:mid]):
                hi = mid
            else:
                lo = mid
        if hi >= 1 and fresh_process_failures([case], actions[hi - 1:hi]):
            return actions[hi - 1:hi]
    except Infra:
        return actions
    return actions[:hi]


def run(ctx: Check) -> int:
    from harness.translators import parse_tables
    from harness import parse_common as pc
    parse_tables.generate()
    ctx.prove(MODULE, REQUIRED)
    rng = ctx.rng
    units = supported_units()
    ctx.rule = ("lines = spaces{0..17} (threshold ' ')? name (': ' argument)? pad ('#' ws comment)? with names from every "
                "instruction, UOD commands and free names (letter/_ first, spaces, digits, unicode), arguments with ':' and "
                "spaces; Watch/Alarm/Simulate arguments = tag ws* op ws* value (ws+ unit)? over all 7 operators, every "
                "supported unit, numbers with sign/fraction/exponent (many ending in 2 or 3), text values with spaces including texts "
                "that begin with a number ('2 of 3', '0,98', '1st pass': anything that cannot be read as number + unit). Near-misses: "
                "1-2 character mutations of such lines and arbitrary unicode lines (model/implementation agreement only). "
                "Right-hand sides: all strings up to length 4/6 over {5,2,3,.,e,+,-,m,space}, split by an independent reading into "
                "well-formed (number / number ws unit / text: deciding, with oracle) and ill-formed (agreement noted only). "
                "Typed results (threshold, tag_value_numeric) are observed as exact fractions and must equal the number "
                "written in the text. Near-miss / ill-formed input (incl. conditions that repeat their operator) and raw regex groups are compared "
                "for the record only, but an exception of the parser on any input is a failing input. Four scenarios run the parts oracle (every operator, method "
                "parser and inject parser) in a fresh interpreter: after a Simulate line / a Watch line parsed first, after "
                "LSP completions at every cursor position of lines with every operator, after LSP hover at every position "
                "and lint (no dependence on what the process did before). Non-trivial = line has at "
                "least two optional parts, or the condition has a unit or a multi-digit number.")

    corpus = load_corpus("C18")
    wf = [gen_line(rng, units) for _ in range(ctx.n(1500, 100000))]
    # every operator x every supported unit x a few numbers, as bare conditions
    conds = []
    for ops in (COND_OPS, ["="]):
        for op in ops:
            for u in units + [None]:
                for v in ("5", "12", "0.3", "1e3", "-2.52") + (("2 of 3", "0,98", "1st pass", "Not Running") if u is None else ()):
                    tag = rng.choice(TAGS)
                    text = f"{tag} {op} {v}" + ("" if u is None else " " + u)
                    conds.append({"ops": ops, "part": text,
                                  "cond": {"tag": tag, "op": op, "value": v, "unit": u, "text": text}})
    if ctx.tier == "quick":
        conds = [c for i, c in enumerate(conds) if i % 3 == ctx.seed % 3 or c["cond"]["unit"] in ("°C", "°F", "µS/cm", None)]
    for _ in range(ctx.n(500, 20000)):
        ops = rng.choice([COND_OPS, ["="]])
        c = gen_cond(rng, ops, units)
        conds.append({"ops": ops, "part": c["text"] + rng.choice(["", " ", "  "]), "cond": c})
    near = [{"line": mutate(rng, rng.choice(wf)["line"])} for _ in range(ctx.n(700, 50000))] + \
           [{"line": pc.rand_unicode_line(rng, 16).replace("\n", "")} for _ in range(ctx.n(500, 30000))]
    alpha = ["5", "2", "3", ".", "e", "+", "-", "m", " "]
    rhs_wf, rhs_ill = [], []
    for k in range(0, ctx.n(4, 6) + 1):
        for t in itertools.product(alpha, repeat=k):
            part = "X >" + "".join(t)
            cl = classify_rhs("".join(t).strip())
            if cl is None:
                rhs_ill.append({"ops": COND_OPS, "part": part})
            else:
                rhs_wf.append({"ops": COND_OPS, "part": part,
                               "cond": {"tag": "X", "op": ">", "value": cl["value"], "unit": cl["unit"], "text": part}})
    near_cond = [{"ops": rng.choice([COND_OPS, ["="]]),
                  "part": pc.rand_word(rng, " ab<>=!0123456789.eE+-mL/%2*#", 0, 12)} for _ in range(ctx.n(500, 30000))]
    # conditions that repeat the operator found first (str.split then yields three parts)
    near_cond += [{"ops": ops, "part": pad + r} for ops in (COND_OPS, ["="]) for r in pc.REPEATED_OP for pad in ("", " ")]
    near += [{"line": ind + f"{thr}{name}: {r}{cm}"} for name in ("Watch", "Alarm", "Simulate") for r in pc.REPEATED_OP
             for ind, thr, cm in (("", "", ""), ("    ", "1.5 ", "  # c"))]

    def nontrivial_line(c, o):
        if c.get("cond"):
            return c["cond"]["unit"] is not None or len(c["cond"]["value"]) > 1
        return sum(1 for k in ("thr", "arg", "comment") if c.get(k) is not None) >= 2

    lo = lambda c: [pc.observe_line(c["line"])]  # noqa: E731
    lp = lambda c: [pc.observe_line(c["line"], raw=False)]  # noqa: E731
    co = lambda c: [pc.observe_cond_direct(c["ops"], c["part"])]  # noqa: E731
    wf_corpus = [c for c in corpus if "indent" in c]
    # deciding streams: well-formed input only, the parts (incl. the typed values) only
    wf_all = wf_corpus + wf
    _, wf_model = ctx.correspond("line-wellformed", DRIVER, wf_all, lambda c: line_op(c["line"], parts=True), lp,
                                 nontrivial=nontrivial_line)
    conds_all = conds + rhs_wf
    _, cond_model = ctx.correspond("cond-wellformed", DRIVER, conds_all, lambda c: cond_op(c["ops"], c["part"]), co,
                                   nontrivial=lambda c, o: c["cond"]["unit"] is not None)
    # everything else: agreement is recorded, a disagreement is a note
    illformed_streams(ctx, [
        ("corpus-nearmiss", [c for c in corpus if "indent" not in c], lambda c: line_op(c["line"]), lo),
        ("line-raw-groups", wf[: ctx.n(300, 20000)], lambda c: line_op(c["line"]), lo),
        ("line-nearmiss", near, lambda c: line_op(c["line"]), lo),
        ("rhs-exhaustive-illformed", rhs_ill, lambda c: cond_op(c["ops"], c["part"]), co),
        ("cond-nearmiss", near_cond, lambda c: cond_op(c["ops"], c["part"]), co)])
    # self-test: the regular expression as it was (number not atomic) must be visible on the generated conditions
    if cond_model:
        ctx.selftest("cond-wellformed", DRIVER, conds, lambda c: cond_op(c["ops"], c["part"], "0"), cond_model[: len(conds)])
    # oracle
    ctx.monitor(wf_all, oracle_line)
    ctx.monitor(conds_all, oracle_cond)
    order_streams(ctx, wf)
    for c in wf:
        ctx.count("line:" + ("".join(ch for ch, k in (("T", "thr"), ("A", "arg"), ("C", "comment"), ("K", "cond"))
                                     if c.get(k) is not None) or "name-only"))
        if c["indent"] % 4:
            ctx.count("line:indent-not-multiple-of-4")
    for c in conds:
        ctx.count("op:" + c["cond"]["op"])
        v, u = c["cond"]["value"], c["cond"]["unit"]
        ctx.count(("value:text-beginning-with-number" if v[0] in "+-.0123456789" else "value:text")
                  if u is None and is_text_value(v) else "value:number" + ("-ending-2-or-3" if v[-1] in "23" else ""))
        ctx.count("unit:none" if u is None else "unit:outside-class" if not set(u) <= UNIT_CLASS else "unit:in-class")
    ctx.extra["supported_units"] = units
    ctx.extra["exhaustive_scope"] = (f"right-hand sides: all {len(rhs_wf) + len(rhs_ill)} strings of length <= {ctx.n(4, 6)} "
                                     f"over {alpha}: {len(rhs_wf)} well-formed (number / number unit / text; deciding + "
                                     f"oracle), {len(rhs_ill)} ill-formed (agreement noted only)")
    ctx.exhaustive = False
    ctx.assumptions = ["lines contain no line-boundary character (they come from str.splitlines)",
                       "a well-formed instruction name starts with a letter or '_' and is trimmed; argument and text "
                       "values are trimmed; tags and values contain none of < > = !; a unit follows a number after at "
                       "least one white-space character; a text value is any such string that cannot be read as a number "
                       "followed by optional white space and unit characters"]
    return ctx.finish(search=_search)


def _search(ctx: Check) -> None:
    rng = random.Random(ctx.seed * 104729 + 18)
    units = supported_units()
    for _ in range(5000):
        c = gen_line(rng, units)
        f = oracle_line(c)
        if f is not None:
            ctx.fail(f)
            if f.key != "supported-unit-not-recognised":
                return


def replay(obj) -> int:
    from harness import parse_common as pc
    case = obj.get("case") or {}
    if not case:
        for d in obj.get("disagreements", [])[:1]:
            case = d.get("case", {})
    if "fresh_process" in case:
        print("parsed in a fresh process, in this order:", [c["line"] for c in case["fresh_process"]])
        if case.get("actions"):
            print("after editor requests:", [(a["kind"], a["source"], a.get("character")) for a in case["actions"][:5]],
                  "…" if len(case["actions"]) > 5 else "")
        fs = fresh_process_failures(case["fresh_process"], case.get("actions"))
        for f in fs:
            print("oracle:", f["key"], f["detail"])
        print("oracle: ok" if not fs else "")
        return 1 if fs else 0
    if "line" in case:
        print("line:", repr(case["line"]))
        print("implementation:", pc.observe_line(case["line"]))
        try:
            print("model (repaired):", drive(DRIVER, [line_op(case["line"])])[0][0])
            print("model (as it was):", drive(DRIVER, [line_op(case["line"], "0")])[0][0])
        except Exception as e:
            print("model not available:", e)
        if "indent" in case:
            f = oracle_line(case)
            print("oracle:", "ok" if f is None else f"{f.key}: {f.detail}")
            return 0 if f is None else 1
        return 0
    if "part" in case:
        print("condition:", repr(case["part"]), "operators:", case["ops"])
        print("implementation:", pc.observe_cond_direct(case["ops"], case["part"]))
        try:
            print("model (repaired):", drive(DRIVER, [cond_op(case["ops"], case["part"])])[0][0])
            print("model (as it was):", drive(DRIVER, [cond_op(case["ops"], case["part"], "0")])[0][0])
        except Exception as e:
            print("model not available:", e)
        if "cond" in case:
            f = oracle_cond(case)
            print("oracle:", "ok" if f is None else f"{f.key}: {f.detail}")
            return 0 if f is None else 1
        return 0
    print(obj)
    return 0
