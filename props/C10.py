"""C10 Stop and Restart leave no command running and start cleanly.

Proof half: OPM.Properties.C10 over model M2 (OPM.Model.CmdMgr): from the invariant proved for every reachable
state — while Stop/Restart waits for its second phase no UOD instance exists, every instance ever created is
finalized and the manager holds no UOD request; the second phase hands the run's records to the on_stop
listeners, clears simulations, run id and tracking, resets the interpreter and leaves an empty command manager;
Restart's third phase starts a run under the next run id.
Tie half: correspondence of the real Engine/CommandManager/Tracking with the model on generated op streams with
Stop/Restart/Start at every position.  Oracle: uod.command_instances, the run log reported at on_stop, Run Id
tag, simulated flags, the callback trace after Restart — on those streams and on the full engine running
generated methods stopped or restarted at a random tick.

The model follows fixes/C11-uod-cancel-paths.diff (committed) and has both variants of
fixes/C10-dispose-instances-on-stop.diff (Cfg.fixStop; the harness probes which one the code under test is).
"""
from __future__ import annotations

from harness.cmd_props import FIX, engine_monitor, streams
from vp.core import Check

META = dict(
    level_text="Lean 4 theorems over the command-manager model (all UOD configurations, all sequences of UOD requests, "
               "ticks, cancel/force requests, Simulate, Start/Stop/Restart): in every reachable state in which Stop or "
               "Restart has finished its first phase, no UOD instance exists, every instance ever created has been "
               "finalized and no UOD request is queued or executing; the tick of the second phase reports the run's "
               "records to the on_stop listeners, clears all simulations, the run id and tracking, resets the "
               "interpreter and leaves an empty command manager (Restart: only its own request); Restart's third phase "
               "begins a run under the next run id. With fixes/C10-dispose-instances-on-stop.diff (record invariant Rec): "
               "every record of the run with a Started state has a Completed/Failed/Cancelled state when the run log is "
               "reported, and uod.command_instances is empty after the second phase (no initialised and no never-initialised "
               "instance). Tied to the real Engine by differential execution of generated op streams; the remaining clauses "
               "are checked by the oracle on the real engine.",
    level_note="Model follows the code repaired by " + FIX + "; theorem asis_instance_survives_stop shows the unchanged "
               "code violates the property. The theorems started_commands_concluded / stop_leaves_no_instance / "
               "restart_leaves_no_instance assume the repair fixes/C10-dispose-instances-on-stop.diff (proposed, not in "
               "the code yet): as the code is, a request with rejected arguments leaves a never-initialised instance "
               "behind that survives Stop (asis_uninitialised_instance_survives_stop; known finding), and a command "
               "from the user's command buttons between the two phases of Stop/Restart survives the stop (outside the "
               "model: UOD requests are interpreter-sourced there; engine-level oracle, known findings "
               "*:started-while-stopping). 'The method runs "
               "again from its first line' is the interpreter reset (counted in the model, checked on the engine by "
               "comparing the commands after Restart with a fresh run). Run ids are ordinals of a counter in the model "
               "(uuid4 in the code). Known finding: for command nodes that run several times (Alarm bodies) the run log "
               "cannot be produced at all after a cancellation (C15 territory).",
    technique="Lean 4 proof (inductive invariant; explicit computation of the lifecycle ticks) + differential "
              "correspondence + engine-level property oracle",
)
MODULE = "OPM.Properties.C10"
REQUIRED = ["OPM.C10.nothing_running_while_stopping", "OPM.C10.stop_completes", "OPM.C10.restart_ends_run",
            "OPM.C10.restart_begins_run", "OPM.C10.asis_instance_survives_stop",
            "OPM.C10.started_commands_concluded", "OPM.C10.stop_leaves_no_instance",
            "OPM.C10.restart_leaves_no_instance", "OPM.C10.asis_uninitialised_instance_survives_stop"]


def engine_oracle(case, res):
    from harness.cmd_engine import oracle_c10
    return oracle_c10(case, res)


def run(ctx: Check) -> int:
    from harness.cmdmgr_streams import oracle_c10
    ctx.prove(MODULE, REQUIRED)
    ctx.rule = ("Op streams for the command manager (see C11) with the profile 'c10': long and overlapping commands that "
                "never fail, Simulate, Stop / Restart / Start at random positions (also in the same tick as new requests, "
                "before and after them in the queue); all sequences of length <= 3/4 over a 10-op alphabet (incl. a request with rejected arguments) incl. Stop; "
                "malformed stream. Non-trivial = a run ends while commands are in flight. Engine level: generated "
                "methods with long/overlapping UOD commands from the main sequence and Watch/Alarm bodies, timed "
                "Pause/Hold, Simulate (also to the value the tag has), rejected arguments, injected snippets; Stop or "
                "Restart at a random tick, also out of a user Pause/Hold or an error pause; now and then a UOD command "
                "from the user's command buttons (any tick, in particular between the two phases of Stop/Restart); "
                "15 %: Stop, a long-running user command while NO run is active, Start, Stop/Restart while it still "
                "runs; 40 %: fault injection at the listener level (a listener registered before the UOD tags and the "
                "run-log consumer raises in on_stop). Run ends are read off the engine (started flag), the delivery "
                "of the final run log to its listener is a clause of its own.")
    streams(ctx, ["c10", "c10", "mixed"], ctx.n(500, 12000), ctx.n(3, 4), ctx.n(60, 1500), [oracle_c10], "cmdmgr")
    engine_monitor(ctx, "c10", ctx.n(500, 12000), engine_oracle)
    ctx.exhaustive = False
    ctx.extra["exhaustive_scope"] = f"all op sequences of length {ctx.n(3, 4)} over 10 ops (incl. Stop) after Start"
    ctx.extra["fix"] = FIX
    ctx.extra["proposed_fix"] = "fixes/C10-dispose-instances-on-stop.diff"
    from harness.cmdmgr import stop_fix_present
    ctx.extra["code_under_test_has_proposed_fix"] = stop_fix_present()
    ctx.assumptions = ["model: UOD command requests come from the interpreter (method or injected code), one node per "
                       "request (user-sourced UOD commands: engine-level oracle only)",
                       "at most one of Start/Stop/Restart in flight",
                       "the paused flag of the run state is an input of the model (Pause/Unpause: model M1); an exception "
                       "in the command phase sets it, Start/Stop/Restart clear it",
                       "model: no UOD request arrives while the engine is stopping (the interpreter does not tick then)"]
    return ctx.finish()


def replay(obj) -> int:
    from harness.cmd_props import replay_case
    return replay_case(obj, "C10")
