"""C02 Method instructions run once each, in source order.

Proof half: OPM.Properties.C02 — for ALL methods: stack discipline of every generator (children are
visited one at a time, in index order, the next only after the previous visit returned), one
instruction event per micro-step and only at its site, trailing Blank/Comment never returns; for
methods without Alarm / Call macro: a Mark takes effect at most once in a whole run; the full
"once per invocation" statement is refuted for a Watch nested in an Alarm (C02_counterexample).
Tie half: correspondence of the real PInterpreter with OPM.Model.Interp on generated methods
(all control structures) and schedules, plus a malformed stream and macro-heavy methods.
Oracle (real Engine): the property as worded, over node flags per tick, the Mark tag history and the
UOD command init log.
"""
from __future__ import annotations

from harness.interp_corr import m3_stream
from vp.core import Check, Failure, load_corpus

META = dict(
    level_text="Lean 4 theorems over the interpreter model (frame-stack machine of pinterpreter.py), for every method and "
               "every schedule of ticks / cancel / force / command completions: (1) stack discipline in every reachable "
               "state and after every micro-step of every generator: above the loop frame 'children n inx true' sit exactly "
               "the frames of child number inx, a loop sits on its owner's body, bodies on their wrapper; the loop enters "
               "child inx only if inx >= child_index and advances child_index by one exactly when that child's visit has "
               "returned; (2) every micro-step emits at most one of start/effect/bodyStart and only at its site (effect: "
               "own body at pc 0, in the step that completes the node or hands the command over; start: wrapper after "
               "the threshold); (3) a trailing Blank/Comment never returns from its body and is never completed in any "
               "reachable state; (4) for methods without Alarm and Call macro, a Mark takes effect at most once over the "
               "whole run (completed is never cleared); (5) for sequential methods (no Watch/Alarm/Call macro: Blocks, "
               "End block(s), thresholds, Waits, Marks, commands, Base, blank lines, failing lines) the full statement: "
               "every line starts at most once in the whole run and lines of a scope are entered in source order, each "
               "only after the visit of the previous one returned and after the enclosing scope started (structural invariant of the single generator: the "
               "stack is the root-to-line path, inx = child_index for every loop frame). The model is tied to the real "
               "PInterpreter by differential execution (per-tick node flags incl. child_index, Mark/Block tags, "
               "interrupt map, events).",
    level_note="PARTIAL: the whole-run 'once, in order' statement is proved for sequential methods (C02_partial) and, for "
               "Marks, for all methods without Alarm/Call macro. For Watch / Alarm / Block / macro bodies of ALL methods "
               "it is proved per invocation and generator: while one loop frame lives (one run of the body by one "
               "generator, under every interleaving) the lines are entered in index order, each at most once, each "
               "started at most once (invocation_visits_lines_in_order, no_line_entered_twice_in_one_invocation, "
               "start_of_a_line_moves_the_position); generators arise only from registrations and, without Alarm / Call "
               "macro / End block(s), a Watch is registered at most once. ORACLE-ONLY: that one invocation is run by "
               "exactly one generator in methods with interrupts or macro calls, and 'completed before the next "
               "starts' beyond 'the previous visit has returned'. The trailing-whitespace bit of the model is the "
               "analyzer's (modelled in OPM.Model.TrailingWs and compared by its own stream); the oracle decides 'end "
               "of a scope' from the source text alone, which shows that the code protects only the tail of the whole "
               "method (a comment closing an inner scope is passed: recorded finding). The full statement C02_full is FALSE for a Watch nested in an Alarm "
               "(C02_counterexample, decide +kernel): the re-armed Alarm runs the Watch body inline while the Watch's own "
               "interrupt runs it too, so lines start twice / out of order within one invocation — reproduced on the "
               "real engine and recorded (findings.d/C02.json), as is 'Wait: d' with d below the 0.1 s correction, which "
               "never completes. Reading of "
               "'completed' for resident instructions: an Engine/UOD command is handed to the engine and the next line "
               "starts (by design); Watch/Alarm lines are registered and the next line starts. 'At the end of a scope' "
               "is read as the code defines it (has_only_trailing_whitespace: nothing but blank/comment lines follow in "
               "every enclosing scope). Trusted: Lean kernel, harness, model inputs (clocks, condition tags, command "
               "completion).",
    technique="Lean 4 proof (inductive invariants over micro-steps lifted to ticks and runs, counting argument, "
              "decide +kernel counterexample) + differential correspondence + engine oracle",
)
MODULE = "OPM.Properties.C02"
REQUIRED = ["OPM.C02.stack_discipline", "OPM.C02.stack_discipline_step", "OPM.C02.loop_enters_child_in_order",
            "OPM.C02.loop_advances_when_child_returns", "OPM.C02.one_event_per_step_at_its_site",
            "OPM.C02.trailing_blank_never_returns", "OPM.C02.completed_is_never_cleared",
            "OPM.C02.trailing_blank_is_never_completed", "OPM.C02.mark_takes_effect_at_most_once",
            "OPM.C02.sequential_line_starts_at_most_once", "OPM.C02.sequential_lines_in_source_order",
            "OPM.C02.sequential_line_entered_after_scope_started",
            "OPM.C02.C02_partial", "OPM.C02.C02_counterexample",
            "OPM.C02.loop_position_never_decreases", "OPM.C02.invocation_visits_lines_in_order",
            "OPM.C02.no_line_entered_twice_in_one_invocation", "OPM.C02.start_of_a_line_moves_the_position",
            "OPM.C02.watch_registered_at_most_once",
            "OPM.C02.flagged_iff_after_last_instruction_of_every_enclosing_scope"]
FEATURES = {"mark", "block", "watch", "alarm", "wait", "cmd", "thr", "base", "blank", "engine"}
HANDOFF = ("UodCommandNode", "EngineCommandNode")
SHORT_WAIT = 0.1


def _wait_seconds(n) -> float | None:
    import re
    if type(n).__name__ != "InterpreterCommandNode" or n.instruction_name != "Wait":
        return None
    m = re.match(r"^\s*([0-9.]+)\s*(s|min|h)\s*$", n.arguments or "")
    if not m:
        return None
    return float(m.group(1)) * {"s": 1, "min": 60, "h": 3600}[m.group(2)]


def source_scopes(pcode: str, nodes) -> tuple[dict, dict]:
    """Enclosing scope and preceding line of the same scope for every instruction line, derived from the
    INDENTATION OF THE SOURCE TEXT (nearest preceding instruction line one level shallower / at the same
    level), not from the parser's tree.  Lines whose indentation is not a clean nesting are left out (the
    tree is used for them, and for blank/comment lines)."""
    lines = pcode.split("\n")
    root = next(n for n in nodes if n.parent is None)
    by_line = {n.position.line: n for n in nodes if n.parent is not None}
    indent: dict[int, int] = {}
    for ln, text in enumerate(lines):
        st = text.strip()
        if st and not st.startswith("#"):
            indent[ln] = len(text) - len(text.lstrip(" "))
    tpar: dict = {}
    tprev: dict = {}
    for ln, ind in indent.items():
        n = by_line.get(ln)
        if n is None or ind % 4 != 0:
            continue
        par_line = prev_line = None
        for m in range(ln - 1, -1, -1):
            if m not in indent:
                continue
            if indent[m] < ind:
                par_line = m
                break
            if indent[m] == ind and prev_line is None:
                prev_line = m
        if ind == 0:
            parent = root
        elif par_line is None or indent[par_line] != ind - 4 or par_line not in by_line \
                or not hasattr(by_line[par_line], "children"):
            continue
        else:
            parent = by_line[par_line]
        tpar[n.id] = parent
        tprev[n.id] = by_line.get(prev_line) if prev_line is not None else None
    return tpar, tprev


def text_trailing(pcode: str) -> tuple[set[int], set[int]]:
    """Which blank/comment lines are "at the end of a scope", from the SOURCE TEXT only (0-based line numbers):
    `tail`  — no instruction line follows in the whole method (the end of every enclosing scope);
    `inner` — an indented comment line that closes the body of a nested scope: the next instruction line is
              indented less (its scope has more lines to come further out, the comment's own scope has none)."""
    lines = pcode.split("\n")

    def is_ws(t: str) -> bool:
        return not t.strip() or t.strip().startswith("#")
    instr = [i for i, t in enumerate(lines) if not is_ws(t)]
    last = max(instr) if instr else -1
    tail = {i for i, t in enumerate(lines) if is_ws(t) and i > last}
    inner: set[int] = set()
    for i, t in enumerate(lines):
        if i in tail or not t.strip().startswith("#"):
            continue
        d = len(t) - len(t.lstrip(" "))
        nxt = next((j for j in instr if j > i), None)
        if d > 0 and nxt is not None and len(lines[nxt]) - len(lines[nxt].lstrip(" ")) < d:
            inner.add(i)
    return tail, inner


def oracle_case(case: dict) -> list[Failure]:  # noqa: C901
    """The property as worded, on the real engine.  One failure per kind at most.  The enclosing scope and
    the preceding line of an instruction are those of the source text (indentation)."""
    if case.get("kind") == "expand":
        return oracle_expand(case)
    if case.get("kind") == "alarm-repeat":
        return oracle_alarm_repeat(case)
    from harness.engine_run import EngineRun
    pcode, ticks, plan = case["pcode"], case["ticks"], case.get("plan", [])
    run = EngineRun(pcode)
    fails: dict[str, Failure] = {}
    try:
        prog = run.engine.method_manager.program
        nodes = prog.get_all_nodes()
        cls = {n.id: type(n).__name__ for n in nodes}

        tpar, tprev = source_scopes(pcode, nodes)

        def parent_of(n):
            return tpar.get(n.id, n.parent)

        def prev_of(n):
            """the line before `n` in its scope: the tree's previous sibling where tree and text agree
            (this includes blank/comment lines), else the previous instruction line of the text"""
            par = parent_of(n)
            if par is None:
                return None
            if par is n.parent:
                i = index[n.id]
                return par.children[i - 1] if i > 0 else None
            return tprev.get(n.id)

        def anc(n):
            a = parent_of(n)
            k = 0
            while a is not None and k < 64:
                yield a
                a = parent_of(a)
                k += 1
        # an interrupt (Watch/Alarm) below an Alarm: the re-armed Alarm and the interrupt's own generator race
        nested = {n.id for n in nodes
                  if cls[n.id] in ("WatchNode", "AlarmNode") and any(cls[a.id] == "AlarmNode" for a in anc(n))}

        def in_nest(n) -> bool:
            """the failing line is the nested Watch/Alarm itself or lies inside it"""
            return n.id in nested or any(a.id in nested for a in anc(n))
        rep = {n.id: cls[n.id] in ("AlarmNode", "MacroNode") or any(cls[a.id] in ("AlarmNode", "MacroNode") for a in anc(n)) for n in nodes}
        # "blank and comment lines at the end of a scope": decided from the source text, not from the attribute
        # the code's own analyzer computes (has_only_trailing_whitespace)
        tail_lines, inner_lines = text_trailing(pcode)
        is_wsnode = {n.id: cls[n.id] in ("BlankNode", "CommentNode") for n in nodes}
        ws = {n.id: is_wsnode[n.id] and n.position.line in tail_lines for n in nodes}
        ws_inner = {n.id: is_wsnode[n.id] and n.position.line in inner_lines for n in nodes}
        index = {n.id: list(n.parent.children).index(n) for n in nodes if n.parent is not None}
        starts = {n.id: 0 for n in nodes}
        prev = {n.id: (False, False) for n in nodes}
        inits: dict[str, int] = {}

        def add(kind: str, t: int, n, text: str, sfx: str | None = None):
            key = kind + ((":alarm-nest" if in_nest(n) else "") if sfx is None else sfx)
            if key not in fails:
                fails[key] = Failure(key, case, f"tick {t}, line {n.position.line + 1} "
                                                f"({n.instruction_name}: {n.arguments}): {text}")

        def done(c) -> bool:
            k = cls[c.id]
            if c.completed or c.failed:
                return True
            if k in HANDOFF or k == "WatchNode":
                return c.started              # handed to the engine / registered as interrupt: by design
            if k == "AlarmNode":
                return c.started or c.interrupt_registered or c.run_count > 0
            return False
        snap = None
        for t in range(ticks):
            for name, v in (plan[t] if t < len(plan) else []):
                run.set_tag(name, v)
            snap = run.tick()
            for ev in snap["exec"]:
                if ev[0] == "init":
                    inits[ev[1]] = inits.get(ev[1], 0) + 1
            if snap["tags"].get("Method Status") == "Error":
                break
            for n in nodes:
                ps, pc = prev[n.id]
                if n.started and not ps:
                    starts[n.id] += 1
                    if not rep[n.id] and not ws[n.id] and starts[n.id] > 1:
                        add("instruction-started-twice", t, n, "started for the second time")
                    par = parent_of(n)
                    if par is not None:
                        pr = prev_of(n)
                        if pr is not None:
                            if not done(pr):
                                w = _wait_seconds(pr)
                                if w is not None and w < SHORT_WAIT:
                                    add("wait-below-correction-never-completes", t, n,
                                        f"started although the preceding 'Wait: {pr.arguments}' never completes", "")
                                else:
                                    add("line-started-before-predecessor-completed", t, n,
                                        f"started while the line before it ({pr.instruction_name}: {pr.arguments}) "
                                        f"has not completed")
                        if cls[par.id] == "MacroNode":
                            if par.run_started_count < 1:
                                add("line-started-before-its-macro-was-called", t, n, "macro never called")
                        elif not par.started:
                            add("line-started-before-its-scope-started", t, n,
                                f"enclosing {par.instruction_name}: {par.arguments} is not started")
                if not rep[n.id] and not ws[n.id]:
                    if ps and not n.started:
                        add("started-flag-cleared", t, n, "started was cleared in a run without edits")
                    if pc and not n.completed:
                        add("completed-flag-cleared", t, n, "completed was cleared in a run without edits")
                if ws[n.id] or ws_inner[n.id]:
                    sfx = None if ws[n.id] else ":inner-scope"
                    par = n.parent
                    ended = par is not None and getattr(par, "block_ended", False)
                    if n.completed and not ended:
                        add("trailing-whitespace-completed", t, n,
                            "a blank/comment line at the end of its scope was completed", sfx)
                    if par is not None and par.child_index > index[n.id] and not ended:
                        add("trailing-whitespace-passed", t, n, f"child_index of the scope is {par.child_index}", sfx)
                prev[n.id] = (n.started, n.completed)
        hist = [x for x in str(snap["tags"].get("Mark") or "").split("; ") if x] if snap else []
        names = [n.arguments for n in nodes if cls[n.id] == "MarkNode"]
        marks = {n.arguments: n for n in nodes if cls[n.id] == "MarkNode" and names.count(n.arguments) == 1}
        for name, n in marks.items():
            if not rep[n.id] and hist.count(name) > 1:
                add("mark-set-twice", ticks, n, f"Mark history {hist}")
        for par in nodes:
            kids = [c for c in marks.values() if parent_of(c) is par]
            if not kids:
                continue
            pos = {c.arguments: c.position.line for c in kids}
            seq = [pos[h] for h in hist if h in pos]
            runs, last = 0, None
            for x in seq:
                if last is None or x <= last:
                    runs += 1
                last = x
            scope = par if cls[par.id] in ("AlarmNode", "MacroNode") else next(
                (a for a in anc(par) if cls[a.id] in ("AlarmNode", "MacroNode")), None)
            if scope is not None and any(cls[a.id] in ("AlarmNode", "MacroNode") for a in anc(scope)):
                continue                      # nested repetition: invocation count of the inner scope is not observable
            if scope is None:
                allowed = 1
            elif cls[scope.id] == "AlarmNode":
                allowed = scope.run_count + 1
            else:
                allowed = scope.run_started_count
            if seq and runs > allowed:
                add("marks-out-of-order-or-repeated", ticks, par,
                    f"marks of the lines of this scope appear in positions {seq}: {runs} ascending runs, "
                    f"{allowed} invocation(s); Mark history {hist}")
        for cname, k in inits.items():
            owners = [n for n in nodes if cls[n.id] == "UodCommandNode" and n.instruction_name == cname]
            if owners and not any(rep[n.id] for n in owners) and k > sum(1 for n in owners if n.started):
                add("command-initialised-more-often-than-started", ticks, owners[0],
                    f"{cname} initialised {k} times, {sum(1 for n in owners if n.started)} of its lines started")
        return list(fails.values())
    finally:
        run.close()


def _mark_hist(snap) -> list[str]:
    v = snap["tags"].get("Mark") if snap else None
    return [x for x in str(v).split("; ") if x] if v else []


def _expand_cost(items) -> int:
    """generous tick estimate for the inline expansion (0.125 s ticks)"""
    table: dict = {}
    cost = [0]

    def run(body, depth=0):
        if depth > 10 or cost[0] > 100000:
            return
        for it in body:
            cost[0] += 4
            if it[0] == "macro":
                table[it[1]] = it[2]
            elif it[0] == "wait":
                cost[0] += int(float(it[1][:-1]) * 8) + 3
            elif it[0] == "cmd":
                cost[0] += 4
            elif it[0] == "block":
                cost[0] += 6
                run(it[2], depth + 1)
            elif it[0] == "call" and it[1] in table:
                run(table[it[1]], depth + 1)
    run(items)
    return cost[0]


def oracle_expand(case: dict) -> list[Failure]:
    """Bodies of called macros may run repeatedly, but each invocation starts its lines once and in order:
    for straight-line macro bodies with Blocks (closed by End block) the Mark trace is the inline expansion."""
    from harness.engine_run import EngineRun
    from harness.macro_gen import expand, pcode_of
    items = [_tup(x) for x in case["items"]]
    exp = expand(items)
    run = EngineRun(pcode_of(items))
    try:
        snap, extra = None, 0
        for _ in range(2 * _expand_cost(items) + 80):
            snap = run.tick()
            if snap["tags"].get("Method Status") == "Error":
                break
            if len(_mark_hist(snap)) >= len(exp["marks"]) and exp["stop"] is None:
                extra += 1
                if extra > 40:
                    break
        got = _mark_hist(snap)
        if got != exp["marks"]:
            first = next((i for i, (a, b) in enumerate(zip(got, exp["marks"])) if a != b), min(len(got), len(exp["marks"])))
            return [Failure("macro-invocation-skips-or-reorders-lines", case,
                            f"Mark trace {got} differs from the inline expansion {exp['marks']} at position {first} "
                            f"(each call must start the lines of the body once, in order)")]
        return []
    finally:
        run.close()


def oracle_alarm_repeat(case: dict) -> list[Failure]:
    """An Alarm whose condition stays true runs its body again and again; every invocation starts the lines
    of the body (also those inside its Blocks) once, in order."""
    from harness.engine_run import EngineRun
    from harness.macro_gen import body_marks, pcode_of
    items = [_tup(x) for x in case["items"]]
    pre = [it[1] for it in items if it[0] == "mark"]
    body = body_marks(next(it[2] for it in items if it[0] == "alarm"))
    run = EngineRun(pcode_of(items))
    try:
        snap = None
        for _ in range(case.get("ticks", 220)):
            snap = run.tick()
            if snap["tags"].get("Method Status") == "Error":
                break
        got = [m for m in _mark_hist(snap) if m not in pre]
        want = [body[i % len(body)] for i in range(len(got))]
        if got != want:
            first = next(i for i, (a, b) in enumerate(zip(got, want)) if a != b)
            return [Failure("alarm-invocation-skips-or-reorders-lines", case,
                            f"marks of the Alarm body {got}: invocation {first // len(body) + 1} does not start the "
                            f"lines {body} once in order (position {first})")]
        return []
    finally:
        run.close()


def _tup(x):
    if x and x[0] in ("macro", "watch", "alarm", "block"):
        return (x[0], x[1], [_tup(y) for y in x[2]])
    return tuple(x)


def sprinkle_whitespace(rng, pcode: str) -> str:
    """Comment and blank lines after random lines (at that line's indentation) and 0-3 of them at the very end,
    at indentations down from the last line's: ends of nested scopes and of the method."""
    out: list[str] = []
    lines = [ln for ln in pcode.split("\n")]
    for ln in lines:
        out.append(ln)
        if ln.strip() and rng.random() < 0.2:
            ind = len(ln) - len(ln.lstrip(" "))
            opener = ln.strip().split(":")[0].lstrip("0123456789. ") in ("Block", "Watch", "Alarm", "Macro")
            out.append("" if rng.random() < 0.3 else " " * (ind + (4 if opener and rng.random() < 0.5 else 0)) + "# note")
    last = next((ln for ln in reversed(out) if ln.strip()), "")
    ind = len(last) - len(last.lstrip(" "))
    for _ in range(rng.randrange(0, 4)):
        out.append("" if rng.random() < 0.3 else " " * ind + "# end note")
        if ind > 0 and rng.random() < 0.5:
            ind -= 4
    return "\n".join(out)


def ws_flag_case(pcode: str) -> tuple[list[str], list[str]]:
    """(model op lines, implementation answer) for the analyzer's has_only_trailing_whitespace bits, as the
    method manager installs them (set_method -> _apply_analysis)."""
    import openpectus.lang.model.ast as p
    from harness.interp import Harness
    h = Harness(pcode)
    nodes = h.mm.program.get_all_nodes()
    idx = {n.id: i for i, n in enumerate(nodes)}
    lines, outs = [], []
    for i, n in enumerate(nodes):
        ws = isinstance(n, p.WhitespaceNode)
        lines.append(f"wnode\t{i}\t{idx[n.parent.id] if n.parent is not None else -1}\t{n.position.line}\t{int(ws)}")
        outs.append("ok")
    lines.append("flags")
    fl = [f"{i}:{int(bool(n.has_only_trailing_whitespace))}" for i, n in enumerate(nodes) if isinstance(n, p.WhitespaceNode)]
    outs.append(",".join(fl) or "-")
    return lines, outs


def gen_oracle_cases(ctx: Check, n: int) -> list[dict]:
    from harness.gen_pcode import gen_program
    from harness.macro_gen import gen_acyclic, gen_alarm_repeat, gen_empty_openers, pcode_of
    rng = ctx.rng
    out = []
    for _ in range(n):
        x = rng.random()
        if x < 0.08:
            # macros with Blocks, every macro that is defined last is called twice more
            items = gen_acyclic(rng, blocks=True)
            last = [it[1] for it in items if it[0] == "macro"][-1]
            items = [it for it in items if it[0] != "blank"] + [("call", last), ("call", last)]
            if _expand_cost(items) > 1200:
                continue
            ctx.count("oracle:macro-with-blocks-called-repeatedly")
            out.append({"kind": "expand", "items": items})
            continue
        if x < 0.13:
            ctx.count("oracle:alarm-with-blocks-firing-repeatedly")
            out.append({"kind": "alarm-repeat", "items": gen_alarm_repeat(rng), "ticks": 220})
            continue
        if x < 0.25:
            pcode = pcode_of(gen_empty_openers(rng))
            ctx.count("oracle:empty-openers-at-end-of-nested-scopes")
        elif x < 0.33:
            pcode = pcode_of(gen_acyclic(rng))
            ctx.count("oracle:macro-method")
        elif x < 0.6:
            pcode, _ = gen_program(rng, features=FEATURES - {"alarm"}, max_lines=14)
            ctx.count("oracle:no-alarm")
        else:
            pcode, _ = gen_program(rng, features=FEATURES, max_lines=14)
            ctx.count("oracle:all-structures")
        if rng.random() < 0.3:
            pcode = sprinkle_whitespace(rng, pcode)
            ctx.count("oracle:with-sprinkled-comment-and-blank-lines")
        plan = [[(f"T{rng.randrange(3)}", rng.randrange(4))] if rng.random() < 0.3 else [] for _ in range(70)]
        out.append({"pcode": pcode, "ticks": 70, "plan": plan})
    return out


def _swap_marks(lines: list[str]) -> list[str]:
    """Self-test mutant: the model runs the method with the texts of two sibling Marks exchanged."""
    marks: dict[str, list[int]] = {}
    for i, ln in enumerate(lines):
        f = ln.split("\t")
        if f[0] == "node" and f[3].startswith("mark "):
            marks.setdefault(f[2], []).append(i)
    for par, idxs in marks.items():
        if len(idxs) >= 2:
            a, b = idxs[0], idxs[1]
            fa, fb = lines[a].split("\t"), lines[b].split("\t")
            fa[3], fb[3] = fb[3], fa[3]
            out = list(lines)
            out[a], out[b] = "\t".join(fa), "\t".join(fb)
            return out
    return lines


def run(ctx: Check) -> int:
    import time
    from harness.gen_pcode import gen_schedule
    from harness.interp_run import run_case
    from harness.macro_gen import gen_acyclic, pcode_of
    t0 = time.time()
    tm: dict[str, float] = {}
    ctx.extra["timings_s"] = tm
    ctx.prove(MODULE, REQUIRED)
    tm["prove"] = round(time.time() - t0, 1)
    ctx.rule = ("M3 stream: grammar-generated methods over Block/End block/End blocks, Watch, Alarm, Wait, thresholds, "
                "Mark, Base, UOD/engine commands, blank and comment lines (depth<=3, <=14 lines), plus acyclic "
                "macro-heavy methods, x schedules of 12-45 ticks with random clocks / condition tags and interleaved "
                "complete / cancel / force requests; a second stream with malformed lines. Non-trivial = an interrupt "
                "registered, a block entered or a macro called. Oracle stream on the real Engine: grammar-generated methods (27% without "
                "Alarm, 40% all structures), acyclic macro methods (8%), methods whose nested scopes END in an "
                "empty-bodied opener followed by outdented lines (12%; scope and predecessor of a line are taken from the "
                "INDENTATION OF THE SOURCE TEXT, not from the parser's tree), 70 ticks, random condition-tag plans; plus "
                "macros with Blocks called repeatedly (8%, Mark trace = inline expansion) and always-true Alarms with "
                "Blocks firing repeatedly (5%, every invocation starts the body's lines once in order); 30% of the methods "
                "get comment/blank lines sprinkled in and at the ends of nested scopes, and 'blank/comment line at the end "
                "of a scope' is decided from the source text (tail of the method / comment closing an inner scope), not "
                "from has_only_trailing_whitespace. ws stream: the analyzer's has_only_trailing_whitespace bits as "
                "MethodManager.set_method installs them vs OPM.Model.TrailingWs on the same methods. An ':alarm-nest' key "
                "is used only when the failing line is the Watch/Alarm nested in an Alarm or lies inside it.")
    rng = ctx.rng
    extra = [{"pcode": pcode_of(gen_acyclic(rng)), "ops": gen_schedule(rng, rng.randrange(15, 45))}
             for _ in range(ctx.n(25, 2000))]
    cases, impl_out, model_out = m3_stream(ctx, "interp-m3", ctx.n(110, 12000), features=FEATURES, extra_cases=extra)
    tm["m3-stream"] = round(time.time() - t0 - sum(tm.values()), 1)
    if model_out:
        lines_of = {id(c): run_case(c)[0] for c in cases[:30]}
        sub = cases[:30]
        ctx.selftest("interp-m3", "Interp", sub, lambda c: _swap_marks(lines_of[id(c)]), model_out[:30])
    m3_stream(ctx, "interp-m3-malformed", ctx.n(25, 2500), features=FEATURES, malformed=True)
    tm["selftest+malformed"] = round(time.time() - t0 - sum(tm.values()), 1)
    # the analyzer's trailing-whitespace bits (an input of the M3 model) against their own model
    wcases = [c["pcode"] for c in gen_oracle_cases(ctx, ctx.n(100, 4000)) if "pcode" in c]
    wcases = [sprinkle_whitespace(rng, x) if rng.random() < 0.7 else x for x in wcases]
    wcache: dict[str, tuple[list[str], list[str]]] = {}

    def wboth(x):
        if x not in wcache:
            try:
                wcache[x] = ws_flag_case(x)
            except Exception as e:
                wcache[x] = ([], [f"harness-exception:{type(e).__name__}:{e}"])
        return wcache[x]
    wout, wmout = ctx.correspond("trailing-whitespace-flag", "TrailingWs", wcases, lambda x: wboth(x)[0],
                                 lambda x: wboth(x)[1], nontrivial=lambda x, o: any(":1" in y for y in o))
    if wmout:
        # self-test: a model that flags whitespace nodes of the top level only must be told apart
        def top_only(x):
            ls = list(wboth(x)[0])
            return [("wnode\t" + "\t".join(f.split("\t")[1:4]) + "\t0"
                     if f.startswith("wnode") and f.split("\t")[4] == "1" and f.split("\t")[2] != "0" else f) for f in ls]
        ctx.selftest("trailing-whitespace-flag", "TrailingWs", wcases, top_only, wmout)
    tm["ws-flag-stream"] = round(time.time() - t0 - sum(tm.values()), 1)
    ocases = [c for c in load_corpus("C02") if "ticks" in c or "items" in c] + gen_oracle_cases(ctx, ctx.n(250, 20000))
    ctx.monitor(ocases, oracle_case, impl_timeout=60)
    tm["oracle"] = round(time.time() - t0 - sum(tm.values()), 1)
    ctx.assumptions = ["clock tags, condition tags and command completion are inputs of the model",
                       "no live edit, no Restart, no injected code in the runs of this property",
                       "tick interval 0.125 s (dyadic) in the oracle runs"]
    return ctx.finish(search=lambda c: c.monitor(gen_oracle_cases(c, c.n(400, 3000)), oracle_case, impl_timeout=60))


def replay(obj) -> int:
    c = obj.get("case", {})
    if isinstance(c, dict) and (c.get("kind") in ("expand", "alarm-repeat") or ("pcode" in c and "ticks" in c)):
        if "items" in c:
            from harness.macro_gen import pcode_of
            print(pcode_of([_tup(x) for x in c["items"]]))
        else:
            print(c["pcode"])
        fs = oracle_case(c)
        for f in fs:
            print("oracle:", f.key, "|", f.detail)
        if not fs:
            print("oracle: no failure")
        return 1 if fs else 0
    if isinstance(c, dict) and "pcode" in c and "ops" in c:
        from harness.interp_run import run_case
        from vp import core
        lines, outs = run_case(c)
        mo = core.drive("Interp", [lines])[0]
        print(c["pcode"])
        for ln, a, b in zip(lines, outs, mo):
            if a != b:
                print("DIFF at", ln[:60], "\n impl :", a, "\n model:", b)
                return 1
        print("model and implementation agree")
        return 0
    print(obj)
    return 0
