"""C25 Composite hardware is transparent.

Proof half: OPM.Properties.C25 — `read_batch` through the composite returns, register for register and in request
order, what a single read of each register on its own layer returns (`readBatch_transparent`); `write_batch` leaves
every layer's memory equal to the sequence of single writes (`writeBatch_transparent`, duplicates included) and — for
batches without duplicate registers — the (register, value) pairs reaching a layer are exactly its pairs in request
order (`writeBatch_order`); missing layer / failing layer errors are passed through.  HOW the layers are called (one
batch call per layer, first-appearance order) is an implementation note (OPM.Lemmas.CompositeCalls), not a claim:
the compared view and the oracle contain values, per-layer write order and memory only.  Layer faults are driven too
(stream `faults`): the oracle demands that a call raises iff the individual access to one of its layers would raise and
that no register ever receives a value that is not its own (theorems `*_failing_layer`, `*_missing_layer`).
Tie half: the real `Composite_Hardware` over fake layers (register memory + call log) against the model.
"""
from __future__ import annotations

import itertools

from vp.core import Check, Failure

META = dict(
    level_text="Lean 4 theorems for any number of layers, any register-to-layer assignment, any register order with "
               "duplicates and any value type: a composite batch read equals the single reads register for register "
               "in request order; a composite batch write leaves every layer's memory equal to the sequential single "
               "writes and hands each layer its registers and values in request order; errors of a missing or failing "
               "layer are passed through. The model is tied to composite_hardware.py by differential execution "
               "(exhaustive assignments/orders for 3 registers on 2 layers, random batches on up to 4 layers, list and "
               "generator arguments); how the layers are called is not part of the claim.",
    level_note="Trusted: Lean kernel (+ propext/Classical.choice/Quot.sound), the harness (fake layers). Layers are "
               "modelled as register stores whose read_batch/write_batch act like the single operations and whose "
               "reads are repeatable; one Register object per register name. For a register named twice in one "
               "write batch only the final memory is claimed (the layer receives the last value twice), as in the "
               "property's quantifier.",
    technique="Lean 4 proof (list/assoc-map lemmas: grouping by first appearance, dict folds) + differential correspondence",
)
MODULE = "OPM.Properties.C25"
REQUIRED = ["OPM.C25.readBatch_transparent", "OPM.C25.writeBatch_transparent",
            "OPM.C25.writeBatch_order", "OPM.C25.read_single", "OPM.C25.write_single",
            "OPM.C25.readBatch_missing_layer", "OPM.C25.writeBatch_missing_layer",
            "OPM.C25.readBatch_failing_layer", "OPM.C25.writeBatch_failing_layer"]


def _j(xs) -> str:
    xs = [str(x) for x in xs]
    return ";".join(xs) or "-"


def gen_small(ctx: Check) -> list[list[str]]:
    """all assignments of 3 registers to 2 layers x all register sequences of length <= 3 (quick) / 4 (thorough),
    as one read batch and one write batch with distinct values, followed by a read-back"""
    cases = []
    for assign in itertools.product(range(2), repeat=3):
        lay = "layers\t" + _j(f"{r}:{l}" for r, l in enumerate(assign))
        pokes = [f"poke\t{l}\t{r}\t{10 * (r + 1)}" for r, l in enumerate(assign)]
        for k in range(0, ctx.n(3, 4) + 1):
            for seq in itertools.product(range(3), repeat=k):
                cases.append([lay] + pokes + ["readb\t" + _j(seq),
                                              "writeb\t" + _j(range(1, k + 1)) + "\t" + _j(seq),
                                              "readb\t0;1;2"])
    return cases


def gen_faults(ctx: Check) -> list[list[str]]:
    """layer faults at chosen calls. exhaustive part: 3 registers on 2 layers (all assignments) x failing layer x every
    register sequence of length <= 3: read batch, write batch, single read and write under the fault, then the fault
    cleared and a read-back.  random part: up to 4 layers, faults switched on/off between ops.  Every (layer, register)
    cell holds a value of its own (100*layer + 10*register + 1) so that a value from another layer is recognisable."""
    cases = []
    for assign in itertools.product(range(2), repeat=3):
        lay = "layers\t" + _j(f"{r}:{l}" for r, l in enumerate(assign))
        pokes = [f"poke\t{l}\t{r}\t{100 * l + 10 * r + 1}" for l in range(2) for r in range(3)]
        for bad_layer in range(2):
            for k in range(1, 4):
                for seq in itertools.product(range(3), repeat=k):
                    cases.append([lay] + pokes + [f"fail\t{bad_layer}\t1", "readb\t" + _j(seq),
                                                  "writeb\t" + _j(range(1, k + 1)) + "\t" + _j(seq),
                                                  f"read\t{seq[0]}", f"write\t9\t{seq[-1]}",
                                                  f"fail\t{bad_layer}\t0", "readb\t0;1;2"])
    rng = ctx.rng
    for _ in range(ctx.n(400, 10000)):
        nl = rng.choice([2, 3, 4, 4])
        nr = rng.randrange(2, 9)
        assign = [rng.randrange(nl) for _ in range(nr)]
        lines = ["layers\t" + _j(f"{r}:{l}" for r, l in enumerate(assign))]
        lines += [f"poke\t{l}\t{r}\t{100 * l + 10 * r + 1}" for l in range(nl) for r in range(nr)]
        for _ in range(rng.randrange(3, 10)):
            if rng.random() < 0.45:
                lines.append(f"fail\t{rng.randrange(nl)}\t{int(rng.random() < 0.6)}")
            m = rng.randrange(1, 6)
            regs = [rng.randrange(nr) for _ in range(m)] if rng.random() < 0.4 else rng.sample(range(nr), min(m, nr))
            k = rng.random()
            if k < 0.45:
                lines.append(rng.choice(["readb\t", "readb\t", "readbg\t"]) + _j(regs))
            elif k < 0.8:
                lines.append(rng.choice(["writeb\t", "writeb\t", "writebg\t"])
                             + _j(rng.randrange(0, 9) for _ in regs) + "\t" + _j(regs))
            elif k < 0.9:
                lines.append(f"read\t{rng.randrange(nr)}")
            else:
                lines.append(f"write\t{rng.randrange(0, 9)}\t{rng.randrange(nr)}")
        cases.append(lines)
    return cases


def gen_random(ctx: Check, n: int, malformed: bool) -> list[list[str]]:
    rng = ctx.rng
    cases = []
    for _ in range(n):
        nl = rng.choice([1, 2, 3, 3, 4, 4, 4])
        nr = rng.randrange(1, 9)
        p_assigned = 0.8 if malformed else 1.0
        lines = ["layers\t" + _j(f"{r}:{rng.randrange(nl)}" for r in range(8) if r < nr and rng.random() < p_assigned)]
        regs_pool = list(range(nr)) if not malformed else list(range(8))
        for _ in range(rng.randrange(3, 14)):
            k = rng.random()
            m = rng.randrange(0, 7) if malformed or rng.random() < 0.1 else rng.randrange(1, 7)
            if rng.random() < 0.5:
                regs = [rng.choice(regs_pool) for _ in range(m)]                       # duplicates likely
            else:
                regs = rng.sample(regs_pool, min(m, len(regs_pool)))                   # no duplicates
            vals = [rng.choice(["N"] + [str(x) for x in range(-3, 12)]) for _ in regs]
            if malformed and rng.random() < 0.3:
                vals = vals[:rng.randrange(0, len(vals) + 1)] if rng.random() < 0.5 else vals + ["7", "8"]
            if k < 0.2:
                lines.append(f"poke\t{rng.randrange(nl)}\t{rng.choice(regs_pool)}\t{rng.randrange(0, 50)}")
            elif k < 0.3:
                lines.append(f"read\t{rng.choice(regs_pool)}")
            elif k < 0.4:
                lines.append(f"write\t{rng.randrange(0, 50)}\t{rng.choice(regs_pool)}")
            elif k < 0.68:
                lines.append(("readbg\t" if rng.random() < 0.2 else "readb\t") + _j(regs))
            elif k < 0.96 or not malformed:
                lines.append(("writebg\t" if rng.random() < 0.2 else "writeb\t") + _j(vals) + "\t" + _j(regs))
            else:
                lines.append(f"fail\t{rng.randrange(nl)}\t{rng.randrange(2)}")
        if malformed and rng.random() < 0.5:
            lines.insert(rng.randrange(1, len(lines)), f"fail\t{rng.randrange(nl)}\t1")
        cases.append(lines)
    return cases


# ----------------------------------------------------------------------------------------------------------------
# property oracle over the fake layers (independent of the model)

def oracle(lines: list[str]) -> list[Failure]:
    """Faults: a batch (single op) whose registers all have a layer raises iff the individual access to one of these
    layers would raise, and no register ever gets a value that is not its own (a failing layer's registers are never
    filled from another layer).
    For every batch whose registers all have a layer that answers: the batch read returns what the single reads
    of the layers' memories give, in request order; after the batch write every layer's memory equals the memory
    after the single writes in request order, and — no register twice — every layer received exactly its
    (register, value) pairs in request order."""
    from harness import composite
    fails: list[Failure] = []
    pre = {"mem": None}

    def bad(key, i, detail):
        if not any(f.key == key for f in fails):
            fails.append(Failure(key, {"lines": lines[:i + 1]}, f"op {i} `{lines[i]}`: {detail}"))

    def snapshot(impl):
        return [dict(l.mem) for l in impl.layers]

    def layer_of(impl, r):
        reg = impl.regs[r]
        return reg.options["hardware"].idx if "hardware" in reg.options else None

    impl0 = composite.Impl()
    before = snapshot(impl0)
    for i, ln in enumerate(lines):
        f = ln.split("\t")
        out = impl0.op(ln)
        after = snapshot(impl0)
        gen_arg = f[0] in ("readbg", "writebg")
        if gen_arg:
            f[0] = f[0][:-1]
        if f[0] in ("readb", "writeb"):
            regs = [int(x) for x in composite._lst(f[-1])]
            lays = [layer_of(impl0, r) for r in regs]
            if f[0] == "writeb":
                vals = [composite._v(x) for x in composite._lst(f[1])]
                n = min(len(vals), len(regs))
                regs, lays, vals = regs[:n], lays[:n], vals[:n]
            assigned = all(l is not None for l in lays)
            faulty = assigned and any(impl0.layers[l].failing for l in lays)
            usable = assigned and not faulty
            raised = out.startswith("raise:")
            what = "read" if f[0] == "readb" else "write"
            if faulty and not raised:
                extra = ""
                if f[0] == "readb":
                    got_vals = out.split("\t")[0][5:].split(",") if out.split("\t")[0] != "vals:-" else []
                    foreign = [(r, g) for r, l, g in zip(regs, lays, got_vals)
                               if impl0.layers[l].failing and g != composite._sv(before[l].get(f"R{r}"))]
                    extra = (f"; registers of the failing layer were filled with values that are not theirs: {foreign}"
                             if foreign else "")
                bad(f"batch-{what}-returns-normally-although-a-layer-raises", i,
                    f"layers {sorted({l for l in lays if impl0.layers[l].failing})} raise HardwareLayerException on every "
                    f"access, the composite returned {out.split(chr(9))[0]}{extra}")
            if usable and raised:
                bad(f"batch-{what}-raises-although-every-layer-answers", i, f"result {out.split(chr(9))[0]}")
            if faulty and f[0] == "writeb":
                # no register gets a value that is not its own: failing layers keep their memory, the others hold the
                # old value or the value commanded for that very register
                last = {}
                for r, v in zip(regs, vals):
                    last[r] = v
                for li, (mb, ma) in enumerate(zip(before, after)):
                    for name in set(mb) | set(ma):
                        r = int(name[1:])
                        ok_vals = [mb.get(name)] + ([last[r]] if r in last and layer_of(impl0, r) == li
                                                    and not impl0.layers[li].failing else [])
                        if ma.get(name) not in ok_vals:
                            bad("faulted-batch-write-put-foreign-value", i,
                                f"layer {li} register {r}: {mb.get(name)!r} -> {ma.get(name)!r}, commanded {last.get(r)!r}")
            if usable and f[0] == "writeb":
                exp = [dict(m) for m in before]
                for r, l, v in zip(regs, lays, vals):
                    exp[l][f"R{r}"] = v
                if after != exp:
                    bad("batch-write-memory-differs-from-single-writes", i, f"memory {after}, single writes give {exp}")
                if len(set(regs)) == len(regs):
                    for l in set(lays):
                        want_seq = [(r, v) for r, ll, v in zip(regs, lays, vals) if ll == l]
                        got_seq = [(r, v) for (cl, rs, vs) in impl0.calls if cl == l for r, v in zip(rs, vs)]
                        if got_seq != want_seq:
                            bad("batch-write-order-differs-on-layer", i, f"layer {l} received {got_seq}, single writes {want_seq}")
        if f[0] in ("read", "write"):
            r = int(f[-1])
            l = layer_of(impl0, r)
            if l is not None:
                raised = out.startswith("raise:")
                if impl0.layers[l].failing and not raised:
                    bad(f"single-{f[0]}-returns-normally-although-its-layer-raises", i, f"result {out.split(chr(9))[0]}")
                if not impl0.layers[l].failing:
                    if raised:
                        bad(f"single-{f[0]}-raises-although-its-layer-answers", i, f"result {out.split(chr(9))[0]}")
                    elif f[0] == "read" and out.split("\t")[0] != "vals:" + composite._sv(before[l].get(f"R{r}")):
                        bad("single-read-not-from-own-layer", i,
                            f"returned {out.split(chr(9))[0]}, layer {l} holds {before[l].get(f'R{r}')!r}")
                    elif f[0] == "write":
                        exp = [dict(m) for m in before]
                        exp[l][f"R{r}"] = composite._v(f[1])
                        if after != exp:
                            bad("single-write-not-on-own-layer", i, f"memory {after}, expected {exp}")
        before = after
    return fails


def run(ctx: Check) -> int:
    from harness import composite
    from vp.core import load_corpus
    ctx.prove(MODULE, REQUIRED)
    corpus = [c["lines"] for c in load_corpus("C25")]
    small = gen_small(ctx)
    rnd = gen_random(ctx, ctx.n(1000, 50000), malformed=False)
    mal = gen_random(ctx, ctx.n(300, 10000), malformed=True)
    flt = gen_faults(ctx)
    ctx.rule = ("op lines for Composite_Hardware over fake layers. small: every assignment of 3 registers to 2 layers x "
                f"every register sequence of length <= {ctx.n(3, 4)} as a read batch, a write batch and a read-back. random: "
                "1-4 layers, 1-8 registers, 3-13 ops (poke, read, write, read_batch, write_batch) with batches of 0-6 "
                "registers, half of them drawn with replacement (duplicates within and across batches), values None / "
                "-3..11. malformed: registers without a layer, unequal value/register list lengths, failing layers, "
                "empty batches. faults: a layer raises HardwareLayerException on every access while switched on — exhaustive for 3 "
                "registers / 2 layers / failing layer / sequences <= 3 (read batch, write batch, single read, single write "
                "under the fault, read-back after it), random on up to 4 layers with faults toggled between ops; every "
                "(layer, register) cell holds its own recognisable value; a fifth of the batches is passed as generators instead of lists. Compared per op: result, "
                "per-layer sequence of delivered (register, value) pairs (not for batches naming a register twice), "
                "per-layer memory — not the read calls. Non-trivial = some batch touches two or more layers.")

    def layers_touched(c):
        """per batch op of the case: number of distinct layers of its registers (from the case's `layers` lines)"""
        assign, res = {}, []
        for ln in c:
            f = ln.split("\t")
            if f[0] == "layers":
                assign = {}
                for p in composite._lst(f[1]):
                    r, l = p.split(":")
                    assign.setdefault(int(r), int(l))
            elif f[0] in ("readb", "readbg", "writeb", "writebg"):
                res.append((ln, len({assign[int(x)] for x in composite._lst(f[-1]) if int(x) in assign})))
        return res

    def nontrivial(c, out):
        return any(n >= 2 for _, n in layers_touched(c))

    for name, cases in (("corpus", corpus), ("small", small), ("random", rnd), ("malformed", mal), ("faults", flt)):
        if not cases:
            continue
        out, mout = ctx.correspond(name, "Composite", cases, lambda c: c, composite.run_impl, nontrivial=nontrivial)
        if name == "small" and mout:
            ctx.selftest(name, "Composite", cases, lambda c: [ln.replace("readb\t", "readbm\t") for ln in c], mout)
        for c, o in zip(cases, out):
            for ln, n in layers_touched(c):
                regs = [x for x in ln.split("\t")[-1].split(";") if x != "-"]
                ctx.count("batches")
                ctx.count("batches_with_duplicate_register", int(len(set(regs)) != len(regs)))
                ctx.count("batches_with_generator_argument", int(ln.split("\t")[0].endswith("g")))
                ctx.count(f"layers_touched:{n}")
            for a in o:
                if a not in ("ok", "bad-op"):
                    ctx.count("result:" + a.split("\t")[0].split(":")[0] + (":" + a.split("\t")[0].split(":")[1]
                              if a.startswith("raise") else ""))
    orc = corpus + small + rnd + mal + flt
    ctx.monitor(orc, lambda c: oracle(c) or None)
    ctx.extra["oracle_cases"] = len(orc)
    ctx.exhaustive = True
    ctx.extra["exhaustive_scope"] = "stream `small` is exhaustive for 3 registers / 2 layers / the stated lengths; the others are sampled"
    ctx.assumptions = ["layers are register stores: read_batch/write_batch behave as the single operations, reads are repeatable",
                       "one Register object per register name",
                       "for a register named twice in one write batch only the resulting memory is claimed"]

    def search(c: Check):
        c.monitor(gen_random(c, 5000, malformed=False), lambda x: oracle(x) or None)

    return ctx.finish(search=search)


def replay(obj) -> int:
    from harness import composite
    from vp import core
    case = obj.get("case") or {}
    lines = case.get("lines") if isinstance(case, dict) else case
    if not lines:
        for d in obj.get("disagreements", []):
            lines = d["case"]
            break
    if not lines:
        print(obj)
        return 0
    out = composite.run_impl(lines)
    mout = core.drive("Composite", [lines])[0]
    for ln, a, b in zip(lines, out, mout):
        print(("   " if a == b else "!! ") + ln.replace("\t", " "))
        print("     impl : " + a.replace("\t", " | "))
        if a != b:
            print("     model: " + b.replace("\t", " | "))
    fails = oracle(lines)
    for f in fails:
        print(f"ORACLE {f.key}: {f.detail}")
    return 1 if fails else 0
