"""C06 Run state and System State always agree; control commands gated.

Proof half: OPM.Properties.C06 over model M1 (RunState): for every sequence of user / method-issued control
commands, ticks and output changes the System State tag, the control-state flags and the Run Id agree
(`state_agrees`), a user command is accepted exactly when valid in the reported state (`accepted_iff_valid`),
run ids are never reused (`runid_fresh`); the weaker agreement that survives injected errors and holds for the
unrepaired code too (`state_agrees_weak`); `asIs_counterexample` = the failing history of the code as it is.
Tie half: the real Engine (real interpreter, real CommandManager) vs the model after every operation:
exhaustive short command sequences, "window" sequences inside a running Stop / Restart / timed Pause / timed
Hold, adaptive random sessions, and a malformed stream (unknown names, bad arguments, injected errors).
Oracle: the property's table, stated over System State tag / control-state message / Run Id / accept-reject of
the implementation only.
"""
from __future__ import annotations

import json

from vp.core import Check, Failure, drive, load_corpus

META = dict(
    level_text="Lean 4 theorems over model M1 (run flags, System State / Run Id tags, internal commands with their "
               "generator phases, registry, command manager incl. its replacement during Stop/Restart): for ALL "
               "sequences of user control commands, method-issued control commands (timed or not), ticks with "
               "arbitrary increments, output changes and interpreter errors, from the stopped state and after "
               "every operation: System State is Stopped exactly when no run is active, otherwise Paused if paused, "
               "else Holding if holding, else Running, unless Restarting, which occurs only between the first and "
               "second phase of a Restart; a run id is present exactly while a run is active and an id is never "
               "handed out twice; a user command is accepted exactly when valid in the reported state and a "
               "rejected one changes nothing (induction over the operation list through a refinement of the "
               "controller to a 16-action transition system). Model tied to the real Engine by differential "
               "execution after every operation.",
    level_note="The theorems are about the repaired code (fixes/C06-drop-run-commands-when-not-running.diff): on the "
               "code as it is, Stop followed by Pause+Stop inside the two-tick stop window leaves System State "
               "Paused with no run active (Lean witness asIs_counterexample, replayed on the real engine every "
               "run); until the diff is applied this check reports that history as VIOLATION. Errors injected while "
               "no run is active (hardware read error, failed inject/set_method) are outside the property's "
               "quantifier, but on the code as it is they leave System State Paused with no run and Start rejected: "
               "recorded finding (findings.d/C06.json, Lean witness asIs_error_while_idle, reproduced on the real "
               "engine every run) with a proposed repair (fixes/C06-error-while-idle-stays-stopped.diff); with it "
               "state_agrees_all proves the agreement for EVERY operation sequence, errors at any time and "
               "ill-formed arguments included; without it state_agrees_weak (everything except 'no run active => "
               "Stopped'). Agree now also demands is_paused = is_holding = False while no run is active; "
               "new_run_new_id: a run that follows a cleared id gets a strictly larger id. Trusted: Lean kernel (+propext, Classical.choice, "
               "Quot.sound), the harness, the model standing for engine.py / internal_commands*.py / "
               "command_manager.py (interpreter and UOD commands are environment; cancel/force by run-log id and "
               "method edits are not in this model).",
    technique="Lean 4 proof (refinement to a guarded action system + invariants, induction over operation lists; "
              "decide +kernel witnesses) + differential correspondence (exhaustive short sequences, window "
              "sequences, adaptive random sessions, malformed stream) + independent table oracle",
)
MODULE = "OPM.Properties.C06"
REQUIRED = ["OPM.C06.state_agrees", "OPM.C06.state_agrees_all", "OPM.C06.new_run_new_id",
            "OPM.C06.asIs_error_while_idle", "OPM.C06.state_agrees_weak", "OPM.C06.accepted_iff_valid",
            "OPM.C06.rejected_changes_nothing", "OPM.C06.runid_fresh", "OPM.C06.agree_step",
            "OPM.C06.asIs_counterexample"]

WITNESS = {"method": "Mark: a",
           "ops": [["user", "Start"], ["tick", 8, 8, 0], ["tick", 8, 8, 0], ["user", "Stop"], ["tick", 8, 8, 0],
                   ["user", "Pause"], ["user", "Stop"], ["tick", 8, 8, 0], ["tick", 8, 8, 0]],
           "quiet": True}


def table(paused: bool, holding: bool) -> str:
    return "Paused" if paused else ("Holding" if holding else "Running")


def spec_valid(state: str, is_holding: bool, name: str) -> bool:
    """Validity of a user control command in the reported state (the property's reading of the state names)."""
    if name == "Start":
        return state == "Stopped"
    if name in ("Stop", "Restart"):
        return state in ("Running", "Paused", "Holding")
    if name == "Pause":
        return state in ("Running", "Holding")
    if name == "Unpause":
        return state == "Paused"
    if name == "Hold":
        return state == "Running" or (state == "Paused" and not is_holding)
    if name == "Unhold":
        return state == "Holding" or (state == "Paused" and is_holding)
    return False


def oracle(case: dict, recs: list[dict]) -> list[Failure]:
    """The property over what the implementation reported; `quiet` cases get the full table, the others
    (injected errors / ill-formed arguments) everything except 'no run active => Stopped'."""
    from harness.runstate import CMDS
    out: list[Failure] = []
    quiet = bool(case.get("quiet"))
    seen_ids: list[str] = []
    last_id = None
    restart_credit = 0      # accepted Restart requests (user / method) not yet consumed by a completed restart
    episode = False         # a restart is in progress (System State Restarting seen, new run id not yet)
    stop_req = False        # a Stop request was accepted during the current run
    start_pending = False   # a Start request was accepted since the previous tick
    idle_error = False      # an error was injected while no run was active (outside C06's quantifier)
    prev = recs[0]

    def fail(key, i, msg):
        out.append(Failure(key, {"method": case.get("method", ""), "ops": case["ops"][:i], "quiet": quiet},
                           f"after op {i} {recs[i]['op']}: {msg}"))

    for i, r in enumerate(recs):
        running, holding, paused = r["ctl"]
        st = r["state"]
        if i > 0:
            op = r["op"]
            if not prev["started"] and (op[0] == "errapi" or (op[0] == "tick" and len(op) > 3 and op[3])):
                idle_error = True
            if op[0] == "user" and op[1] in CMDS:
                want = spec_valid(prev["state"], prev["ctl"][1], op[1])
                got = r["res"] == "ok"
                if quiet and want != got:
                    fail(f"accept-mismatch-{op[1]}", i, f"state {prev['state']} holding={prev['ctl'][1]}: "
                                                        f"{'accepted' if got else 'rejected'}")
                if got and op[1] == "Restart":
                    restart_credit += 1
                if got and op[1] == "Stop":
                    stop_req = True
                if got and op[1] == "Start":
                    start_pending = True
            elif op[0] == "user" and r["res"] == "ok":
                fail("unknown-command-accepted", i, repr(op[1]))
            if op[0] == "tick":
                restart_credit += sum(1 for x in r.get("items", []) if x.startswith("m.restart"))
                if any(x.startswith("m.stop") for x in r.get("items", [])):
                    stop_req = True
        if (running, holding, paused) != (r["started"], r["holding"], r["paused"]):
            fail("control-state-message-differs-from-flags", i, f"{r['ctl']}")
        if st == "Stopped" and running:
            fail("stopped-while-run-active", i, "System State Stopped but is_running")
        if not running and st != "Stopped":
            if quiet:
                fail("state-not-stopped-while-no-run-active", i, f"System State {st}, is_running False, run id "
                                                                  f"{r['run_id']}")
            elif idle_error and st == "Paused":
                fail("state-not-stopped-while-no-run-active:error-while-idle", i,
                     "an error while no run is active left System State Paused (is_running False)")
        if not running and (paused or holding) and (quiet or (holding and not idle_error)):
            fail("control-flags-set-while-no-run-active", i,
                 f"is_running False but is_paused={paused} is_holding={holding}")
        if running and st not in ("Restarting", "Stopped") and st != table(paused, holding):
            fail("state-table-mismatch", i, f"System State {st}, paused={paused} holding={holding}")
        rid = r["run_id"]
        # run id transitions: cleared only by a requested Stop / Restart, replaced only by a requested Restart
        if last_id is not None and rid is None:
            if not (stop_req or episode or restart_credit > 0 or not quiet):
                fail("runid-cleared-without-stop-or-restart", i,
                     f"run id {last_id} cleared, no Stop/Restart requested")
            if not stop_req and not episode and restart_credit > 0:
                episode = True      # both halves of a requested Restart ran before Restarting could be observed
        if rid is not None and rid != last_id:
            if episode:
                if not start_pending:
                    restart_credit = max(0, restart_credit - 1)     # the restart completed
                episode = False
            elif last_id is not None:
                if restart_credit <= 0:
                    fail("runid-replaced-without-restart-request", i, f"{last_id} -> {rid}")
                restart_credit = max(0, restart_credit - 1)
            stop_req = False
        if st == "Restarting" and not episode:
            if restart_credit <= 0:
                fail("restarting-without-restart-request", i,
                     "System State Restarting although every requested Restart has completed")
            episode = True
        if i > 0 and r["op"][0] == "tick":
            start_pending = False
        if (rid is not None) != running:
            fail("runid-presence", i, f"run id {rid!r} but is_running={running}")
        if rid is not None:
            if rid == "":
                fail("runid-empty", i, "empty run id")
            if rid != last_id:
                if rid in seen_ids:
                    fail("runid-reused", i, f"{rid}")
                seen_ids.append(rid)
        last_id = rid
        prev = r
    return out[:1]


def gen_restart_stop_start(rng) -> dict:
    """Shape: a Restart that completes (user or method), later Stop, some ticks, then Start with or without a
    tick before the next command; random fillers."""
    t = ["tick", 8, 8, 0]

    def ticks(lo, hi):
        return [list(t) for _ in range(rng.randrange(lo, hi + 1))]
    method = rng.choice(["Mark: a", "Wait: 0.5s\nRestart", "Mark: a\nPause: 0.5s\nMark: b"])
    ops = [["user", "Start"]] + ticks(2, 4)
    if "Restart" not in method:
        ops += [["user", "Restart"]]
    ops += ticks(3, 8)
    if rng.random() < 0.4:
        ops += [["user", rng.choice(["Pause", "Hold"])]] + ticks(1, 2)
    ops += [["user", "Stop"]] + ticks(2, 4) + [["user", "Start"]]
    ops += rng.choice([[], [], ticks(1, 1), [["user", "Stop"]], [["user", "Pause"]]])
    ops += ticks(2, 5)
    if rng.random() < 0.5:
        ops += [["user", "Stop"]] + ticks(2, 3) + [["user", "Start"]] + ticks(1, 3)
    return {"method": method, "ops": ops, "quiet": True}


def gen_cases(ctx: Check) -> dict[str, list[dict]]:
    from harness import runstate as R
    rng = ctx.rng
    alpha = [["user", c] for c in R.CMDS] + [["tick", 8, 8, 0]]
    t = ["tick", 8, 8, 0]
    streams: dict[str, list[dict]] = {}
    ex = R.enumerate_sessions(alpha, ctx.n(3, 5), [], ["Mark: a"])
    ex += R.enumerate_sessions(alpha, ctx.n(3, 4), [["user", "Start"], t], ["Mark: a"])
    ex += R.enumerate_sessions(alpha, ctx.n(2, 4), [["user", "Start"], t, t], R.METHODS_SMALL[1:])
    streams["exhaustive"] = ex
    win = []
    for method, prefix in [
        ("Mark: a", [["user", "Start"], t, t, ["user", "Stop"], t]),
        ("Mark: a", [["user", "Start"], t, t, ["user", "Restart"], t]),
        ("Mark: a", [["user", "Start"], t, t, ["user", "Restart"], t, t]),
        ("Pause: 2s\nMark: b", [["user", "Start"], t, t, t]),
        ("Hold: 2s\nMark: b", [["user", "Start"], t, t, t]),
        ("Pause: 2s\nMark: b", [["user", "Start"], t, t, t, ["user", "Unpause"], t]),
        ("Pause: 2s\nMark: b", [["user", "Start"], t, t, t, ["user", "Restart"], t]),
        # a completed Restart, then Stop, ticks: what follows includes Start with and without a tick in between
        ("Mark: a", [["user", "Start"], t, t, ["user", "Restart"], t, t, t, ["user", "Stop"], t, t]),
        ("Restart", [["user", "Start"], t, t, t, t, t, t, ["user", "Stop"], t, t]),
    ]:
        win += R.enumerate_sessions(alpha, ctx.n(3, 4), prefix, [method])
    streams["window"] = win
    for c in ex + win:
        c["quiet"] = True
    rnd = []
    for _ in range(ctx.n(300, 6000)):
        c = R.gen_session(rng, rng.randrange(5, 41), malformed=False, errors=False)
        c["quiet"] = True
        rnd.append(c)
    rnd += [gen_restart_stop_start(rng) for _ in range(ctx.n(40, 800))]
    streams["random"] = rnd
    mal = []
    for _ in range(ctx.n(150, 3000)):
        c = R.gen_session(rng, rng.randrange(5, 41), malformed=True, errors=True)
        c["quiet"] = False
        mal.append(c)
    streams["malformed"] = mal
    ov = [R.gen_overlap(rng) for _ in range(ctx.n(150, 3000))]
    for c in ov:
        c["quiet"] = not any(op[0] == "errapi" for op in c["ops"])
    streams["pause-hold-overlap"] = ov
    return streams


def count_distribution(ctx: Check, run, cases) -> None:
    for c in cases:
        for r in run.recs(c)[1:]:
            op = r["op"]
            if op[0] == "user":
                ctx.count(f"user:{op[1] if op[1] in ('Start','Stop','Pause','Unpause','Hold','Unhold','Restart') else 'other'}:"
                          f"{'ok' if r['res'] == 'ok' else 'rejected'}")
            elif op[0] == "tick":
                ctx.count("tick")
                for it in r.get("items", []):
                    if it.startswith("m."):
                        ctx.count("method:" + it[2:].split(":")[0] + (":timed" if ":" in it and not it.endswith(":x")
                                                                      else ":bad-arg" if it.endswith(":x") else ""))
                if r.get("interp_raised"):
                    ctx.count("interpreter-error")
            else:
                ctx.count(op[0])
            ctx.count("state:" + r["state"] + ("+stopping" if r["stopping"] else ""))


def run(ctx: Check) -> int:
    from harness import runstate as R
    ctx.prove(MODULE, REQUIRED)
    pr = R.probe()
    cfg = dict(pr, guard=True)
    ctx.extra["tree_variant"] = pr
    runner = R.Runner("c06", cfg)
    corpus = [c for c in load_corpus("C06")] or [WITNESS]
    streams = {"corpus": corpus}
    streams.update(gen_cases(ctx))
    ctx.rule = ("exhaustive: all sequences over the 7 user commands + tick, length <=3/5 from the stopped state, <=3/4 "
                "after Start,tick, <=2/4 after Start,tick,tick for 7 small methods (Pause, Hold, timed Pause/Hold, "
                "Stop, Restart); "
                "window: all sequences <=3/4 inside a running Stop, Restart (both phases), resident timed Pause / "
                "Hold, after an early Unpause; random: adaptive sessions (mostly commands valid in the current "
                "state, generated methods with blocks/watches and timed commands, varied increments) plus templated "
                "'completed Restart ... Stop, ticks, Start with/without a tick' schedules; malformed: "
                "unknown / wrong-case names, bad arguments, injected errors; pause-hold-overlap: Pause (operator or "
                "error) and Hold overlapping in either order with either one ending first, incl. a timed method "
                "Hold / Pause whose duration runs out while the other kind of stop arrived during it. "
                "Non-trivial = a run was started.")
    all_mout = []
    all_cases = []
    for name, cases in streams.items():
        _, mout = ctx.correspond(name, "RunState", cases, runner.lines, runner.impl,
                                 nontrivial=lambda c, o: any(" f=1" in ln for ln in o))
        for c in cases:
            for f in oracle(c, runner.recs(c)):
                ctx.fail(f)
        all_mout += mout
        all_cases += cases
        count_distribution(ctx, runner, cases)
    # self-test: the model of the code as it is (guard off) must be distinguishable on the generated cases
    if all_mout and len(all_mout) == len(all_cases):
        def mutant(c):
            ls = list(runner.lines(c))
            ls[0] = R.cfg_line(dict(cfg, guard=False), "c06")
            return ls
        sel = streams["corpus"] + streams["window"]
        sel_out = all_mout[:len(streams["corpus"])]
        off = len(streams["corpus"]) + len(streams["exhaustive"])
        sel_out = sel_out + all_mout[off:off + len(streams["window"])]
        ctx.selftest("window", "RunState", sel, mutant, sel_out)
    ctx.exhaustive = True
    ctx.extra["exhaustive_scope"] = "streams 'exhaustive' and 'window' only; 'random' and 'malformed' are sampled"
    ctx.assumptions = ["uuid4 run ids are canonicalised to allocation ordinals (freshness of uuid4 itself is assumed)",
                       "the interpreter and UOD commands are environment of M1: what the interpreter did in a tick "
                       "is recorded from the real interpreter and given to the model, which decides the gate",
                       "times are multiples of 1/8 s (exact in floating point)"]
    return ctx.finish(search=search)


def search(ctx: Check) -> None:
    """Proof or correspondence broke and no failing input is known: look for one with the oracle."""
    from harness import runstate as R
    for c in [WITNESS] + [R.gen_session(ctx.rng, 40) for _ in range(ctx.n(300, 3000))]:
        c.setdefault("quiet", True)
        _, _, recs = R.execute(c, "c06", dict(guard=True))
        for f in oracle(c, recs):
            ctx.fail(f)
        if ctx.failures:
            return


def replay(obj) -> int:
    from harness import runstate as R
    case = obj.get("case") or (obj.get("disagreements") or [{}])[0].get("case")
    if not case or "ops" not in case:
        print(json.dumps(obj, indent=1)[:2000])
        return 0
    pr = R.probe()
    cfg = dict(pr, guard=True)
    lines, outs, recs = R.execute(case, "c06", cfg)
    mout = drive("RunState", [lines])[0]
    for ln, a, b in zip(lines, outs, mout):
        print(ln.replace("\t", " "))
        print("   impl :", a)
        print("   model:", b, "" if a == b else "   <-- differs")
    fs = oracle(case, recs)
    for f in fs:
        print("ORACLE:", f.key, "-", f.detail)
    if not fs:
        print("ORACLE: no violation of C06 on this case")
    return 1 if fs else 0
