"""C27 Engine messages survive disconnects without loss or duplication.

Proof half: OPM.Properties.C27 over the transition system OPM.Model.Runner (M12): conservation, sequence
numbers, re-send only after failure (all traces); empty buffer when Reconnected (all traces without an orphaned
buffer task); `C27_full` refuted by three concrete traces; `C27_partial` for calm traces.
Tie half: trace validation.  The real EngineRunner runs on a virtual-time asyncio loop against a scripted
transport (harness/runner_sim.py); every logged trace must be accepted by the model's acceptor and end in the
state the real objects are in.  The property oracle (harness/runner_oracle.py) judges what the fake aggregator
received, independently of the model.
"""
from __future__ import annotations

import json
import random

from vp.core import Check, Failure, Infra, ints, load_corpus, drive

META = dict(
    level_text="Lean 4 theorems over all traces of a transition-system model of EngineRunner / "
               "assign_sequence_number: every produced message is in exactly one place (no loss or duplication inside "
               "the runner), one unique sequence number per message kept across re-sends, a re-send only after a "
               "failed attempt, empty buffer in Reconnected unless a buffer task was orphaned; the full property (incl. the "
               "delivery clause: once caught up, every message with evidence of a disconnect has been delivered) is "
               "refuted on the code as it is by machine-checked counterexample traces (stop notification "
               "overtakes buffered run data; failed messages never buffered or cancelled with the state task; messages "
               "stranded in the buffer while "
               "Reconnected) and proved clause by clause for all traces without the respective triggers. The model is tied to the code by "
               "trace validation: the real EngineRunner is run under a deterministic virtual-time event loop with a "
               "scripted fallible transport over systematically enumerated and random schedules, and every logged "
               "trace must be accepted by the model.",
    level_note="Partial by construction: the model's atomic steps are the code between two awaits (asyncio cannot "
               "preempt finer); ticks/timers/the connection handshake are free labels constrained by guards, one guard "
               "embodies a timing assumption (a cancelled task ends before the >= 0.5 s reconnect delay). The tie is "
               "sensitive to refactorings that change the await structure of engine_runner.py (an added await, gather -> "
               "TaskGroup, a different hand-over of _state_task): the token language mirrors it, so such a change shows "
               "up as 'trace not accepted' (VIOLATION ... no-failing-input-found) and the model has to follow; task NAME "
               "strings, log texts, timer constants and message payloads are not looked at (task roles are recognised "
               "by their coroutine's code object). The harness overrides BaseEventLoop._run_once/_scheduled of CPython "
               "3.12 for virtual time. Transport = "
               "ordered channel with ok / ProtocolNetworkException outcomes (other exceptions and shutdown are outside "
               "the property). Delivery/loss are proved for all traces without the recorded defects (a: self-cancelled state "
               "task, f: failed send cancelled with the state task), incl. repeated outages during catch-up; the order clause "
               "additionally excludes, in the model, a fault hitting a catch-up re-send and a stop buffered between batch "
               "take and posts (model-level limits, shown necessary by order_needs_c/d_in_model; on such real traces the "
               "order clause is judged by the oracle only, see evidence traces_vs_partial_theorem_hypotheses); trusted: Lean kernel, the harness (virtual loop, fake dispatcher, "
               "message builder), the oracle.",
    technique="Lean 4 proof (invariants by induction over traces of a labelled transition system) + trace validation of "
              "the real EngineRunner under a virtual-time asyncio loop with enumerated schedules",
)
MODULE = "OPM.Properties.C27"
REQUIRED = ["OPM.C27.conservation", "OPM.C27.delivered_at_most_once", "OPM.C27.resend_only_after_failure",
            "OPM.C27.seq_kept", "OPM.C27.seq_on_every_post", "OPM.C27.seq_unique",
            "OPM.C27.attempts_one_sequence_number",
            "OPM.C27.caught_up_buffer_empty", "OPM.C27.buffered_never_dropped", "OPM.C27.steps_iff_run",
            "OPM.C27.C27_counterexample", "OPM.C27.C27_counterexample_loss", "OPM.C27.C27_counterexample_stranded",
            "OPM.C27.C27_counterexample_delivery", "OPM.C27.C27_delivery_partial", "OPM.C27.C27_order_partial",
            "OPM.C27.C27_partial", "OPM.C27.order_needs_c_in_model", "OPM.C27.order_needs_d_in_model"]

ABBR = {"Started": "St", "Connected": "Co", "Failed": "Fa", "Disconnected": "Di", "Reconnecting": "Rg",
        "CatchingUp": "Cu", "Reconnected": "Rd", "Stopped": "Sp", "ShutdownComplete": "Sc"}
SCRIPTS = [
    [["start"], ["stop"]],
    [["start"], ["notify"], ["stop"]],
    [["start"], ["stop"], ["start"], ["stop"]],
    [["start"], ["block"], ["stop"], ["notify"]],
]
WEIRD = [
    [["stop"], ["start"]],                    # stop without a run is ignored by the harness, then a run that never stops
    [["start"], ["start"], ["stop"]],         # second start while a run is active
    [["notify"], ["block"]],                  # events only, no run
    [],
]


def _tokens(res) -> list[str]:
    t = res.tokens
    return t[1:] if t and t[0] == "TSt" else t


def _summary(res) -> str:
    return ("acc st=" + ABBR[res.final_state] + " buf=" + ints(res.final_buffer) + " infl=" + ints(res.final_inflight)
            + " dlv=" + ints(res.acked) + " ctr=" + str(res.seq_ctr) + " limbo=" + ints(sorted(res.limbo))
            + " lost=" + ints(sorted(res.cancelled + res.rejected)))


def _sim(case: dict):
    from harness.runner_sim import simulate
    return simulate([tuple(e) for e in case["script"]], case["prefix"], mode=case.get("mode", "conn"),
                    ev_window=case.get("ev_window", 12), max_faults=case.get("max_faults", 99),
                    early_events=case.get("early", False), horizon=case.get("horizon", 40.0),
                    min_time=case.get("min_time", 0.0), fault_until=case.get("fault_until", 1e9))


def _judge(ctx: Check, case: dict, res) -> None:
    from harness.runner_oracle import check
    for key, detail in check(res):
        if case.get("mode") == "indep" and key.startswith("stop-overtakes"):
            continue   # the order clause is judged under connection-level failures only (see assumptions)
        ctx.fail(Failure(key, case, detail))
    if res.errors:
        raise Infra(f"harness error {res.errors[:2]} on {case}")


def _count(ctx: Check, res) -> None:
    toks = res.tokens
    ctx.count(f"faults={min(res.faults, 5)}")
    if "TRd" in toks:
        ctx.count("caught-up")
    if any(t[0] == "G" for t in toks):
        ctx.count("with-batch")
    if any(t.startswith("Ab") for t in toks):
        ctx.count("batch-rebuffered")
    if any(t[0] == "Z" for t in toks):
        ctx.count("send-cancelled")
    if any(t[0] == "X" for t in toks):
        ctx.count("rejected-in-started")
    if "U0!" in toks:
        ctx.count("state-task-self-cancel")
    if any(t[0] == "W" and t != "W0" for t in toks):
        ctx.count("handler-waits-for-state-task")
    if "C0" in toks:
        ctx.count("connect-failed")
    st = "St"
    for t in toks:
        if t[0] == "T":
            st = t[1:]
        elif t[0] == "N" and ":s" in t:
            ctx.count("stop-created-in-" + st)


def _nontrivial(case, out) -> bool:
    return case.get("_nontrivial", False)


def run(ctx: Check) -> int:
    from harness.runner_sim import explore, simulate
    from harness.runner_oracle import check
    import time
    import resource

    def cpu():
        c = resource.getrusage(resource.RUSAGE_CHILDREN)
        return time.process_time(), c.ru_utime + c.ru_stime
    t0 = time.time()
    c0 = cpu()
    ctx.prove(MODULE, REQUIRED)
    timing = {"prove": round(time.time() - t0, 1), "prove_cpu_children": round(cpu()[1] - c0[1], 1)}
    c0 = cpu()
    t0 = time.time()
    rng = ctx.rng
    seen: set[str] = set()
    cases: dict[str, list[dict]] = {"corpus": [], "explore": [], "random-conn": [], "random-indep": [],
                                    "large-buffer": [], "weird": []}
    results: dict[int, object] = {}

    def add(stream: str, case: dict, res) -> None:
        key = " ".join(_tokens(res)) + "|" + _summary(res)
        _count(ctx, res)
        _judge(ctx, case, res)
        ctx.evaluations += 1
        if key in seen:
            ctx.count("duplicate-trace")
            return
        seen.add(key)
        case["_nontrivial"] = res.faults > 0 and "TRd" in res.tokens
        results[id(case)] = res
        cases[stream].append(case)

    # 0. corpus (minimised witnesses of the known findings and nasty schedules) first
    for c in load_corpus("C27"):
        case = {k: v for k, v in c.items() if k != "note"}
        add("corpus", case, _sim(case))

    # 1. systematic enumeration of schedules
    base = [("start",), ("stop",)]
    scopes = [dict(faults=2, others=2, total=2, depth=ctx.n(22, 40)),
              dict(faults=3, others=ctx.n(0, 1), total=3, depth=ctx.n(18, 30))]
    complete = True
    for sc in scopes:
        for prefix, res in explore(base, limit=ctx.n(6000, 120000), mode="conn", ev_window=12, **sc):
            add("explore", {"script": [list(e) for e in base], "prefix": prefix, "mode": "conn", "ev_window": 12,
                            "max_faults": sc["faults"]}, res)
        complete = complete and bool(explore.complete)
    ctx.exhaustive = complete
    ctx.extra["explore_scopes"] = scopes

    # 2. random schedules: longer runs, more faults, several scripts, both failure models
    max_f = ctx.n(3, 5)
    for stream, mode, n in (("random-conn", "conn", ctx.n(160, 4000)), ("random-indep", "indep", ctx.n(80, 2200))):
        for _ in range(n):
            script = rng.choice(SCRIPTS)
            r = random.Random(rng.random())
            mf = r.randrange(1, max_f + 1)
            fu = r.choice([3.0, 8.0])
            hz = fu + 30.0
            res = simulate([tuple(e) for e in script], [], mode=mode, rnd=r, max_faults=mf, ev_window=60,
                           horizon=hz, fault_until=fu, min_time=r.choice([0.0, 0.0, 0.0, fu + 7.0]),
                           probs={"send": r.choice([0.02, 0.05, 0.15, 0.3]), "conn": r.choice([0.1, 0.4])})
            add(stream, {"script": script, "prefix": [v for _, _, v in res.choices], "mode": mode, "ev_window": 60,
                         "max_faults": mf, "horizon": hz, "fault_until": fu, "min_time": res.t_end - 0.45}, res)
    # 2b. long outage: >= 100 buffered messages (the `wrap` branch of _send_buffered_batch), further faults
    #     possible while the big batch is in flight
    for _ in range(ctx.n(10, 120)):
        r = random.Random(rng.random())
        nmsg, k = r.randrange(100, ctx.n(131, 221)), r.randrange(3, 14)
        script = [["start"], ["await", "Disconnected"]] + [["notify"]] * nmsg + [["stop"]]
        st = {"c": 0, "done": False}

        def pol(tag, n, i, sim, st=st, k=k):
            if tag == "evd":
                return 0
            if tag == "conn" and not st["done"]:
                return 0
            if tag == "send" and not st["done"] and n == 4:
                st["c"] += 1
                if st["c"] >= k:
                    st["done"] = True
                    return 1
                return 0
            return None
        mf = r.choice([1, 2, 3])
        res = simulate([tuple(e) for e in script], [], mode="conn", rnd=r, policy=pol, max_faults=mf, ev_window=4,
                       horizon=45.0, fault_until=12.0,
                       probs={"send": 0.01, "conn": 0.3, "wait": 0.5, "tags": 0.3, "evd": 0.0})
        if any(t[0] == "G" and int(t[1:]) >= 100 for t in res.tokens):
            ctx.count("batch>=100")
        add("large-buffer", {"script": script, "prefix": [v for _, _, v in res.choices], "mode": "conn", "ev_window": 4,
                             "max_faults": mf, "horizon": 45.0, "fault_until": 12.0,
                             "min_time": res.t_end - 0.45}, res)
    # 3. malformed use: events before the first connection, stop without a run, two starts, no events
    for _ in range(ctx.n(60, 600)):
        script = rng.choice(WEIRD)
        r = random.Random(rng.random())
        res = simulate([tuple(e) for e in script], [], mode="conn", rnd=r, max_faults=2, ev_window=30,
                       early_events=True, horizon=36.0, fault_until=6.0, probs={"send": 0.05, "conn": 0.5})
        add("weird", {"script": script, "prefix": [v for _, _, v in res.choices], "mode": "conn", "ev_window": 30,
                      "max_faults": 2, "early": True, "horizon": 36.0, "fault_until": 6.0,
                      "min_time": res.t_end - 0.45}, res)

    ctx.rule = ("A case = (engine-event script, choice sequence): the real EngineRunner runs on a virtual-time loop; the "
                "choice sequence dictates every send outcome (ok / network error / error after delivery, fast or slow), "
                "every connect outcome, the reconnect wait, whether tag updates exist and at which loop iteration each "
                "engine event (run start/stop, notify, block) arrives. 'explore' = breadth-first enumeration of all "
                "choice sequences that deviate from the fault-free schedule in <= 2 places (any kind) resp. <= 3 "
                "transport faults among the first N choice points; 'random-*' = random schedules with up to 3/5 "
                "faults, 4 scripts, connection-level (conn) or per-message (indep) failures; 'weird' = events before "
                "the first connection, stop without run, double start. Non-trivial = at least one fault and a "
                "completed catch-up (Reconnected reached). Identical traces are checked once.")

    timing["simulate+oracle"] = round(time.time() - t0, 1)
    timing["simulate+oracle_cpu"] = round(cpu()[0] - c0[0], 1)
    t0 = time.time()
    c0 = cpu()
    # correspondence: the logged trace must be accepted by the model and end in the observed state
    def lines(case):
        return ["trace\t" + " ".join(_tokens(results[id(case)]))]

    def impl(case):
        return [_summary(results[id(case)])]

    allc = []
    for stream, cs in cases.items():
        for c in cs:
            c["_stream"] = stream
            allc.append(c)
    n_diffs = len(ctx.diffs)
    _, mout = ctx.correspond("traces", "Runner", allc, lines, impl, nontrivial=_nontrivial)
    ctx.evaluations -= len(allc)  # already counted when simulated
    per = {st: {"cases": len(cs), "disagreements": 0} for st, cs in cases.items()}
    for d in ctx.diffs[n_diffs:]:
        per[d.case.get("_stream", "?")]["disagreements"] += 1
    ctx.extra["traces_per_stream"] = per

    # one more pass of the driver over (a) a mutant model: without "send while CatchingUp" it must reject real
    # traces (self-test); (b) the model's own verdicts (order flag, stuck) and the first step outside the partial
    # theorems' hypotheses, for every sampled trace
    explore_cases = cases["explore"] or allc
    k = min(len(explore_cases), 60)
    step = max(1, len(allc) // ctx.n(300, 6000))
    sample = allc[::step]
    out = drive("Runner", [["mutant\t" + " ".join(_tokens(results[id(c)]))] for c in explore_cases[:k]] +
                [["info\t" + " ".join(_tokens(results[id(c)]))] for c in sample])
    mutant_out, info_out = out[:k], out[k:]
    ref = {id(c): o for c, o in zip(allc, mout)}
    accepted = [i for i in range(k) if (ref.get(id(explore_cases[i])) or [""])[0].startswith("acc")
                and "TCu" in results[id(explore_cases[i])].tokens]      # traces the mutant must reject
    if accepted and all(mutant_out[i] == ref[id(explore_cases[i])] for i in accepted):
        raise Infra("self-test of the trace stream: mutant model indistinguishable — harness is blind")
    if accepted:
        ctx.extra.setdefault("selftests", []).append("traces/mutant-model")
    else:
        ctx.notes.append("self-test skipped: the model accepts none of the sampled traces with a catch-up (correspondence is broken)")
    cls: dict[str, int] = {}
    agree = cd_order_viol = 0
    for c, v in zip(sample, info_out):
        res = results[id(c)]
        keys = {key for key, _ in check(res)}
        o_ov = any(key.startswith("stop-overtakes") for key in keys)
        o_stuck = "failed-send-never-buffered:handler-waits-for-self-cancelled-state-task" in keys
        if not v[0].startswith("ov="):
            cls["rejected"] = cls.get("rejected", 0) + 1
            continue
        m_ov = "ov=1" in v[0]
        m_stuck = "stuck=-" not in v[0]
        kcls = v[0].split("cls=")[1]
        kcls = "calm" if kcls == "calm" else "trigger-" + kcls
        cls[kcls] = cls.get(kcls, 0) + 1
        faild = any((a["outcome"] or "").startswith(("faild", "cancel:faild")) for a in res.attempts)
        if faild:
            agree += 1      # the aggregator saw an attempt the runner counts as failed: receipt order != answer order
        elif (o_ov and not m_ov and c.get("mode") != "indep") or (o_stuck and not m_stuck):
            ctx.notes.append(f"oracle reports {sorted(keys)} but model flags '{v[0]}' on {c['prefix'][:40]}")
        else:
            agree += 1   # the model flags at least what the oracle reports
        if kcls == "calm" and (o_ov and c.get("mode") != "indep" or o_stuck):
            ctx.notes.append(f"oracle reports {sorted(keys)} on a Calm trace {c['prefix'][:40]}")
        if kcls in ("trigger-c", "trigger-d") and c.get("mode") != "indep" and o_ov:
            cd_order_viol += 1
    ctx.extra["oracle_vs_model_flags"] = {"runs": len(sample), "model_covers_oracle": agree}
    # which real traces are inside the hypotheses of the partial theorems (Calm), and which trigger takes the
    # others out: a/b/e/f = the recorded defects, c/d = a fault during catch-up (order clause: oracle only there)
    ctx.extra["traces_vs_partial_theorem_hypotheses"] = dict(
        sampled=len(sample), classes=cls,
        note="trigger-c/d: second outage during catch-up; delivery/stuck/stranded clauses are proved for them "
             "(C27_delivery_partial has no such hypothesis), the order clause is judged there by the oracle only",
        order_violations_on_c_d_traces=cd_order_viol)

    # impossible traces must be rejected: a changed sequence number, a message answered twice
    corrupt = []
    for c in explore_cases:
        toks = _tokens(results[id(c)])
        ks = [i for i, t in enumerate(toks) if t[0] == "K"]
        ss = [i for i, t in enumerate(toks) if t[0] in "SB" and ":" in t]
        if ks and ss:
            i = ks[len(ks) // 2]
            corrupt.append(toks[:i + 1] + [toks[i]] + toks[i + 1:])
            j = ss[len(ss) // 2]
            a, b = toks[j].split(":")
            corrupt.append(toks[:j] + [f"{a}:{int(b) + 1}"] + toks[j + 1:])
        if len(corrupt) >= ctx.n(60, 120):
            break
    ctx.correspond("corrupted-traces", "Runner", corrupt, lambda t: ["verdict\t" + " ".join(t)],
                   lambda t: ["rej"])

    timing["model"] = round(time.time() - t0, 1)
    timing["model_cpu_self+children"] = round(cpu()[0] - c0[0] + cpu()[1] - c0[1], 1)
    ctx.extra["timing_s"] = timing
    ctx.assumptions = [
        "transport = ordered channel (like the websocket RPC: requests handled and answered in send order); a send "
        "either succeeds or raises ProtocolNetworkException, possibly after the aggregator has received the message",
        "the order clause is judged under connection-level failures (once a send fails, later sends fail until the "
        "next successful connect); per-message independent failures are explored for the other clauses only",
        "engine events arrive at loop-iteration boundaries (call_soon_threadsafe); shutdown is not exercised",
        "message payloads do not matter to the runner: a fake message builder produces real engine_messages objects",
    ]
    return ctx.finish(search=_search)


def _search(ctx: Check) -> None:
    from harness.runner_sim import simulate
    rng = ctx.rng
    for _ in range(400):
        r = random.Random(rng.random())
        script = rng.choice(SCRIPTS)
        res = simulate([tuple(e) for e in script], [], mode="conn", rnd=r, max_faults=3, ev_window=60, horizon=38.0,
                       fault_until=8.0)
        _judge(ctx, {"script": script, "prefix": [v for _, _, v in res.choices], "mode": "conn", "ev_window": 60,
                     "max_faults": 3, "horizon": 38.0, "fault_until": 8.0, "min_time": res.t_end - 0.45}, res)
        ctx.evaluations += 1


def replay(obj) -> int:
    from harness.runner_oracle import check
    case = obj.get("case", obj)
    if "script" not in case:
        print(json.dumps(obj, indent=1)[:4000])
        return 0
    res = _sim(case)
    toks = _tokens(res)
    def cut(x: str) -> str:
        return x if len(x) < 1600 else x[:1200] + " ... " + x[-300:]
    print("trace :", cut(" ".join(toks)))
    print("impl  :", cut(_summary(res)))
    out = drive("Runner", [["trace\t" + " ".join(toks)], ["flags\t" + " ".join(toks)]])
    print("model :", cut(out[0][0]))
    print("model == impl:", out[0][0] == _summary(res))
    print("flags :", out[1][0])
    print("received by the fake aggregator (id, first 60):", [r["id"] for r in res.received][:60])
    verdict = check(res)
    for k, d in verdict:
        print("ORACLE:", k, "-", d)
    if not verdict:
        print("ORACLE: property holds on this run")
    return 1 if verdict else 0
