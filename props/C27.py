"""C27 Engine messages survive disconnects without loss or duplication.

Proof half: OPM.Properties.C27 over the transition system OPM.Model.Runner (M12): conservation, sequence
numbers, re-send only after failure (all traces); empty buffer when Reconnected (all traces without an orphaned
buffer task); `C27_full` refuted by three concrete traces; `C27_partial` for calm traces.
Tie half: trace validation.  The real EngineRunner runs on a virtual-time asyncio loop against a scripted
transport (harness/runner_sim.py); every logged trace must be accepted by the model's acceptor and end in the
state the real objects are in.  The property oracle (harness/runner_oracle.py) judges what the fake aggregator
received, independently of the model.
"""
from __future__ import annotations

import json
import random

from vp.core import Check, Failure, Infra, ints, load_corpus, drive

META = dict(
    level_text="Lean 4 theorems over all traces of a transition-system model of EngineRunner / "
               "assign_sequence_number: every produced message is in exactly one place (no loss or duplication inside "
               "the runner), one unique sequence number per message kept across re-sends, a re-send only after a "
               "failed attempt, empty buffer in Reconnected unless a buffer task was orphaned; the full property is "
               "refuted on the code as it is by three machine-checked counterexample traces (stop notification "
               "overtakes buffered run data; failed messages never buffered; messages stranded in the buffer while "
               "Reconnected) and proved for all traces without the three triggers. The model is tied to the code by "
               "trace validation: the real EngineRunner is run under a deterministic virtual-time event loop with a "
               "scripted fallible transport over systematically enumerated and random schedules, and every logged "
               "trace must be accepted by the model.",
    level_note="Partial by construction: the model's atomic steps are the code between two awaits (asyncio cannot "
               "preempt finer); ticks/timers/the connection handshake are free labels constrained by guards, one guard "
               "embodies a timing assumption (a cancelled task ends before the >= 0.5 s reconnect delay). Transport = "
               "ordered channel with ok / ProtocolNetworkException outcomes (other exceptions and shutdown are outside "
               "the property). The order and stranded/loss clauses are proved only for traces without the three "
               "reproduced defects (C27_partial); trusted: Lean kernel, the harness (virtual loop, fake dispatcher, "
               "message builder), the oracle.",
    technique="Lean 4 proof (invariants by induction over traces of a labelled transition system) + trace validation of "
              "the real EngineRunner under a virtual-time asyncio loop with enumerated schedules",
)
MODULE = "OPM.Properties.C27"
REQUIRED = ["OPM.C27.conservation", "OPM.C27.delivered_at_most_once", "OPM.C27.resend_only_after_failure",
            "OPM.C27.seq_kept", "OPM.C27.seq_on_every_post", "OPM.C27.seq_unique",
            "OPM.C27.attempts_one_sequence_number",
            "OPM.C27.caught_up_buffer_empty", "OPM.C27.buffered_never_dropped", "OPM.C27.steps_iff_run",
            "OPM.C27.C27_counterexample", "OPM.C27.C27_counterexample_loss", "OPM.C27.C27_counterexample_stranded",
            "OPM.C27.C27_partial"]

ABBR = {"Started": "St", "Connected": "Co", "Failed": "Fa", "Disconnected": "Di", "Reconnecting": "Rg",
        "CatchingUp": "Cu", "Reconnected": "Rd", "Stopped": "Sp", "ShutdownComplete": "Sc"}
SCRIPTS = [
    [["start"], ["stop"]],
    [["start"], ["notify"], ["stop"]],
    [["start"], ["stop"], ["start"], ["stop"]],
    [["start"], ["block"], ["stop"], ["notify"]],
]
WEIRD = [
    [["stop"], ["start"]],                    # stop without a run is ignored by the harness, then a run that never stops
    [["start"], ["start"], ["stop"]],         # second start while a run is active
    [["notify"], ["block"]],                  # events only, no run
    [],
]


def _tokens(res) -> list[str]:
    t = res.tokens
    return t[1:] if t and t[0] == "TSt" else t


def _summary(res) -> str:
    return ("acc st=" + ABBR[res.final_state] + " buf=" + ints(res.final_buffer) + " infl=" + ints(res.final_inflight)
            + " dlv=" + ints(res.acked) + " ctr=" + str(res.seq_ctr) + " limbo=" + ints(sorted(res.limbo))
            + " lost=" + ints(sorted(res.cancelled + res.rejected)))


def _sim(case: dict):
    from harness.runner_sim import simulate
    return simulate([tuple(e) for e in case["script"]], case["prefix"], mode=case.get("mode", "conn"),
                    ev_window=case.get("ev_window", 12), max_faults=case.get("max_faults", 99),
                    early_events=case.get("early", False), horizon=case.get("horizon", 40.0),
                    min_time=case.get("min_time", 0.0), fault_until=case.get("fault_until", 1e9))


def _judge(ctx: Check, case: dict, res) -> None:
    from harness.runner_oracle import check
    for key, detail in check(res):
        if case.get("mode") == "indep" and key.startswith("stop-overtakes"):
            continue   # the order clause is judged under connection-level failures only (see assumptions)
        ctx.fail(Failure(key, case, detail))
    if res.errors:
        raise Infra(f"harness error {res.errors[:2]} on {case}")


def _count(ctx: Check, res) -> None:
    toks = res.tokens
    ctx.count(f"faults={min(res.faults, 5)}")
    if "TRd" in toks:
        ctx.count("caught-up")
    if any(t[0] == "G" for t in toks):
        ctx.count("with-batch")
    if any(t.startswith("Ab") for t in toks):
        ctx.count("batch-rebuffered")
    if any(t[0] == "Z" for t in toks):
        ctx.count("send-cancelled")
    if any(t[0] == "X" for t in toks):
        ctx.count("rejected-in-started")
    if "U0!" in toks:
        ctx.count("state-task-self-cancel")
    if any(t[0] == "W" and t != "W0" for t in toks):
        ctx.count("handler-waits-for-state-task")
    if "C0" in toks:
        ctx.count("connect-failed")
    st = "St"
    for t in toks:
        if t[0] == "T":
            st = t[1:]
        elif t[0] == "N" and ":s" in t:
            ctx.count("stop-created-in-" + st)


def _nontrivial(case, out) -> bool:
    return case.get("_nontrivial", False)


def run(ctx: Check) -> int:
    from harness.runner_sim import explore, simulate
    import time
    t0 = time.time()
    ctx.prove(MODULE, REQUIRED)
    timing = {"prove": round(time.time() - t0, 1)}
    t0 = time.time()
    rng = ctx.rng
    seen: set[str] = set()
    cases: dict[str, list[dict]] = {"corpus": [], "explore": [], "random-conn": [], "random-indep": [], "weird": []}
    results: dict[int, object] = {}

    def add(stream: str, case: dict, res) -> None:
        key = " ".join(_tokens(res)) + "|" + _summary(res)
        _count(ctx, res)
        _judge(ctx, case, res)
        ctx.evaluations += 1
        if key in seen:
            ctx.count("duplicate-trace")
            return
        seen.add(key)
        case["_nontrivial"] = res.faults > 0 and "TRd" in res.tokens
        results[id(case)] = res
        cases[stream].append(case)

    # 0. corpus (minimised witnesses of the known findings and nasty schedules) first
    for c in load_corpus("C27"):
        case = {k: v for k, v in c.items() if k != "note"}
        add("corpus", case, _sim(case))

    # 1. systematic enumeration of schedules
    base = [("start",), ("stop",)]
    scopes = [dict(faults=2, others=2, total=2, depth=ctx.n(24, 40)),
              dict(faults=3, others=ctx.n(0, 1), total=3, depth=ctx.n(20, 30))]
    complete = True
    for sc in scopes:
        for prefix, res in explore(base, limit=ctx.n(6000, 120000), mode="conn", ev_window=12, **sc):
            add("explore", {"script": [list(e) for e in base], "prefix": prefix, "mode": "conn", "ev_window": 12,
                            "max_faults": sc["faults"]}, res)
        complete = complete and bool(explore.complete)
    ctx.exhaustive = complete
    ctx.extra["explore_scopes"] = scopes

    # 2. random schedules: longer runs, more faults, several scripts, both failure models
    max_f = ctx.n(3, 5)
    for stream, mode, n in (("random-conn", "conn", ctx.n(160, 5000)), ("random-indep", "indep", ctx.n(100, 3000))):
        for _ in range(n):
            script = rng.choice(SCRIPTS)
            r = random.Random(rng.random())
            mf = r.randrange(1, max_f + 1)
            fu = r.choice([3.0, 8.0])
            hz = fu + 30.0
            res = simulate([tuple(e) for e in script], [], mode=mode, rnd=r, max_faults=mf, ev_window=60,
                           horizon=hz, fault_until=fu, min_time=r.choice([0.0, 0.0, 0.0, fu + 7.0]),
                           probs={"send": r.choice([0.02, 0.05, 0.15, 0.3]), "conn": r.choice([0.1, 0.4])})
            add(stream, {"script": script, "prefix": [v for _, _, v in res.choices], "mode": mode, "ev_window": 60,
                         "max_faults": mf, "horizon": hz, "fault_until": fu, "min_time": res.t_end - 0.45}, res)
    # 3. malformed use: events before the first connection, stop without a run, two starts, no events
    for _ in range(ctx.n(60, 800)):
        script = rng.choice(WEIRD)
        r = random.Random(rng.random())
        res = simulate([tuple(e) for e in script], [], mode="conn", rnd=r, max_faults=2, ev_window=30,
                       early_events=True, horizon=36.0, fault_until=6.0, probs={"send": 0.05, "conn": 0.5})
        add("weird", {"script": script, "prefix": [v for _, _, v in res.choices], "mode": "conn", "ev_window": 30,
                      "max_faults": 2, "early": True, "horizon": 36.0, "fault_until": 6.0,
                      "min_time": res.t_end - 0.45}, res)

    ctx.rule = ("A case = (engine-event script, choice sequence): the real EngineRunner runs on a virtual-time loop; the "
                "choice sequence dictates every send outcome (ok / network error / error after delivery, fast or slow), "
                "every connect outcome, the reconnect wait, whether tag updates exist and at which loop iteration each "
                "engine event (run start/stop, notify, block) arrives. 'explore' = breadth-first enumeration of all "
                "choice sequences that deviate from the fault-free schedule in <= 2 places (any kind) resp. <= 3 "
                "transport faults among the first N choice points; 'random-*' = random schedules with up to 3/5 "
                "faults, 4 scripts, connection-level (conn) or per-message (indep) failures; 'weird' = events before "
                "the first connection, stop without run, double start. Non-trivial = at least one fault and a "
                "completed catch-up (Reconnected reached). Identical traces are checked once.")

    timing["simulate+oracle"] = round(time.time() - t0, 1)
    t0 = time.time()
    # correspondence: the logged trace must be accepted by the model and end in the observed state
    def lines(case):
        return ["trace\t" + " ".join(_tokens(results[id(case)]))]

    def impl(case):
        return [_summary(results[id(case)])]

    first_out = None
    first_cases = None
    for stream, cs in cases.items():
        if not cs:
            continue
        _, mout = ctx.correspond(stream, "Runner", cs, lines, impl, nontrivial=_nontrivial)
        if first_out is None and stream == "explore":
            first_out, first_cases = mout, cs
    ctx.evaluations -= sum(len(c) for c in cases.values())  # already counted when simulated

    # self-test: a model without "send while CatchingUp" must reject real traces
    if first_cases and first_out:
        k = min(len(first_cases), 100)
        ctx.selftest("explore", "Runner", first_cases[:k],
                     lambda c: ["mutant\t" + " ".join(_tokens(results[id(c)]))], first_out[:k])
        # impossible traces must be rejected: a changed sequence number, a message answered twice
        corrupt = []
        for c in first_cases:
            toks = _tokens(results[id(c)])
            ks = [i for i, t in enumerate(toks) if t[0] == "K"]
            ss = [i for i, t in enumerate(toks) if t[0] in "SB" and ":" in t]
            if ks and ss:
                i = ks[len(ks) // 2]
                corrupt.append(toks[:i + 1] + [toks[i]] + toks[i + 1:])
                j = ss[len(ss) // 2]
                a, b = toks[j].split(":")
                corrupt.append(toks[:j] + [f"{a}:{int(b) + 1}"] + toks[j + 1:])
            if len(corrupt) >= ctx.n(60, 120):
                break
        ctx.correspond("corrupted-traces", "Runner", corrupt, lambda t: ["verdict\t" + " ".join(t)],
                       lambda t: ["rej"])
        # model-side verdicts on the same traces vs the oracle (diagnostic: both should name the same runs)
        sample = [c for c in first_cases if c["_nontrivial"]][:ctx.n(120, 2000)]
        flags = drive("Runner", [["flags\t" + " ".join(_tokens(results[id(c)]))] for c in sample])
        from harness.runner_oracle import check
        agree = 0
        for c, fl in zip(sample, flags):
            keys = {k for k, _ in check(results[id(c)])}
            m_ov = "ov=1" in fl[0]
            m_stuck = not fl[0].endswith("stuck=-")
            o_ov = any(k.startswith("stop-overtakes") for k in keys)
            o_stuck = "failed-send-never-buffered" in keys
            if not (o_ov and not m_ov) and not (o_stuck and not m_stuck):
                agree += 1   # the model flags at least what the oracle reports
            else:
                ctx.notes.append(f"oracle reports {sorted(keys)} but model flags '{fl[0]}' on {c['prefix']}")
        ctx.extra["oracle_vs_model_flags"] = {"runs": len(sample), "model_covers_oracle": agree}

    timing["model"] = round(time.time() - t0, 1)
    ctx.extra["timing_s"] = timing
    ctx.assumptions = [
        "transport = ordered channel (like the websocket RPC: requests handled and answered in send order); a send "
        "either succeeds or raises ProtocolNetworkException, possibly after the aggregator has received the message",
        "the order clause is judged under connection-level failures (once a send fails, later sends fail until the "
        "next successful connect); per-message independent failures are explored for the other clauses only",
        "engine events arrive at loop-iteration boundaries (call_soon_threadsafe); shutdown is not exercised",
        "message payloads do not matter to the runner: a fake message builder produces real engine_messages objects",
    ]
    return ctx.finish(search=_search)


def _search(ctx: Check) -> None:
    from harness.runner_sim import simulate
    rng = ctx.rng
    for _ in range(400):
        r = random.Random(rng.random())
        script = rng.choice(SCRIPTS)
        res = simulate([tuple(e) for e in script], [], mode="conn", rnd=r, max_faults=3, ev_window=60, horizon=38.0,
                       fault_until=8.0)
        _judge(ctx, {"script": script, "prefix": [v for _, _, v in res.choices], "mode": "conn", "ev_window": 60,
                     "max_faults": 3, "horizon": 38.0, "fault_until": 8.0, "min_time": res.t_end - 0.45}, res)
        ctx.evaluations += 1


def replay(obj) -> int:
    from harness.runner_oracle import check
    case = obj.get("case", obj)
    if "script" not in case:
        print(json.dumps(obj, indent=1)[:4000])
        return 0
    res = _sim(case)
    toks = _tokens(res)
    def cut(x: str) -> str:
        return x if len(x) < 1600 else x[:1200] + " ... " + x[-300:]
    print("trace :", cut(" ".join(toks)))
    print("impl  :", cut(_summary(res)))
    out = drive("Runner", [["trace\t" + " ".join(toks)], ["flags\t" + " ".join(toks)]])
    print("model :", cut(out[0][0]))
    print("model == impl:", out[0][0] == _summary(res))
    print("flags :", out[1][0])
    print("received by the fake aggregator (id, first 60):", [r["id"] for r in res.received][:60])
    verdict = check(res)
    for k, d in verdict:
        print("ORACLE:", k, "-", d)
    if not verdict:
        print("ORACLE: property holds on this run")
    return 1 if verdict else 0
