"""C26 Protocol messages round-trip through JSON.

Proof half: OPM.Properties.C26 over the schemas regenerated from the pydantic `model_fields` of every
`MessageBase` subclass (harness/translators/schemas.py -> lean/OPM/Gen/Schemas.lean).
Tie half: the real `serialize` -> transport (what fastapi_websocket_rpc / json.dumps / httpx do) -> `deserialize`
against the model, on values generated from the declared field types, plus malformed envelopes (every attribute
name of every namespace as `_type`, unknown / non-string namespaces, missing keys, non-dict input) and
type-confused fields.
"""
from __future__ import annotations

import enum
import importlib
import json
import math
import types
import typing

from vp.core import Check, Failure, enc, dec, load_corpus

META = dict(
    level_text="Lean 4 theorems over the message schemas regenerated from the code: for every message class and every "
               "value of the declared field types that contains no non-finite float and no non-string dict key, "
               "deserialize(transport(serialize(m))) = m with the same class, for every iteration order of sets "
               "(C26_partial; generic in the schema table: roundtrip_generic / validate_dump); without any value "
               "hypothesis for the namespace entries whose schema has no float and only str-keyed dicts (listed in the evidence) "
               "(C26_full_for_plain_messages); whatever deserialize accepts names a protocol namespace and a message "
               "class of it (accepted_only_known, unknown_namespace_rejected, unknown_type_rejected). The full "
               "statement is refuted for the unchanged code (C26_counterexample: nan/inf are written as null; "
               "int/float dict keys come back as strings) - both are recorded known findings, replayed on every run.",
    level_note="Partial: the full property fails on /repo for non-finite floats and non-string dict keys (known "
               "findings). Tuples (fixed and variadic) are modelled. A field whose type the model does not cover "
               "(datetime, bytes, Decimal, a union with a tuple/model/enum member ...) is translated to an opaque type: "
               "the theorems do not speak about classes containing one; such classes are exercised against the real "
               "code alone with that field at its default and are listed in the evidence (classes_outside_the_model) - "
               "a new field type by itself is not a violation, unmodelled constructs (validators, aliases, exclude, "
               "model_config) still break the proof half. Trusted: Lean kernel; the model of pydantic's encoder/validator for the field types in use "
               "(validated differentially on every run, incl. lax coercions on type-confused input); exactness of the "
               "float text round trip of pydantic/CPython; strings are valid unicode (no lone surrogates).",
    technique="Lean 4 proof (generic dump/validate inversion by induction over a schema datatype + kernel-evaluated "
              "table facts) + translation of the schemas + differential correspondence with the real transport",
)
MODULE = "OPM.Properties.C26"
REQUIRED = ["OPM.C26.C26_partial", "OPM.C26.C26_counterexample", "OPM.C26.roundtrip_generic",
            "OPM.C26.validate_dump", "OPM.C26.C26_full_for_plain_messages", "OPM.C26.registry_consistent",
            "OPM.C26.schemas_round_trippable", "OPM.C26.accepted_only_known",
            "OPM.C26.unknown_namespace_rejected", "OPM.C26.unknown_type_rejected",
            "OPM.C26.missing_envelope_rejected"]

K_NONFINITE = "nonfinite-float-not-preserved"
K_NUMKEY = "non-string-dict-key-becomes-string"


# ----------------------------------------------------------------------------------------------------
# wire encoding (mirror of Driver/Proto.lean)

def enc_float(x: float) -> str:
    if x != x:
        return "Dnan"
    if x == math.inf:
        return "Dpinf"
    if x == -math.inf:
        return "Dninf"
    n, d = x.as_integer_ratio()
    return f"D{n}/{d.bit_length() - 1}"


def enc_val(v) -> list[str]:
    """Python value inside a message -> value tokens (runtime-type driven)."""
    from pydantic import BaseModel
    if v is None:
        return ["N"]
    if isinstance(v, bool):
        return ["T" if v else "F"]
    if isinstance(v, enum.Enum):
        return ["E" + enc(v.value)]
    if isinstance(v, int):
        return [f"I{v}"]
    if isinstance(v, float):
        return [enc_float(v)]
    if isinstance(v, str):
        return ["S" + enc(v)]
    if isinstance(v, (list, tuple)):
        out = [("U" if isinstance(v, tuple) else "L") + str(len(v))]
        for x in v:
            out += enc_val(x)
        return out
    if isinstance(v, (set, frozenset)) and all(isinstance(x, str) for x in v) and not isinstance(v, frozenset):
        return [f"Z{len(v)}"] + [enc(x) for x in sorted(v)]
    if isinstance(v, dict):
        out = [f"M{len(v)}"]
        for k, x in v.items():
            out += enc_key(k) + enc_val(x)
        return out
    if isinstance(v, BaseModel):
        names = list(type(v).model_fields)
        out = [f"O{len(names)}", enc(type(v).__module__), enc(type(v).__qualname__)]
        for n in names:
            out += [enc(n)] + enc_val(getattr(v, n))
        return out
    # a value of a type outside the model (only in messages that are checked against the real code alone)
    return ["X" + enc(type(v).__name__ + ":" + repr(v))]


def enc_key(k) -> list[str]:
    if isinstance(k, str):
        return ["S" + enc(k)]
    if isinstance(k, bool):
        raise TypeError("bool key")
    if isinstance(k, int):
        return [f"I{k}"]
    if isinstance(k, float):
        return [enc_float(k)]
    raise TypeError("key")


def enc_j(v) -> list[str]:
    """json.loads-style python value -> json tokens."""
    if v is None:
        return ["N"]
    if isinstance(v, bool):
        return ["T" if v else "F"]
    if isinstance(v, int):
        return [f"I{v}"]
    if isinstance(v, float):
        return [enc_float(v)]
    if isinstance(v, str):
        return ["S" + enc(v)]
    if isinstance(v, list):
        out = [f"L{len(v)}"]
        for x in v:
            out += enc_j(x)
        return out
    if isinstance(v, dict):
        out = [f"M{len(v)}"]
        for k, x in v.items():
            out += [enc(k)] + enc_j(x)
        return out
    raise TypeError(f"not json: {type(v).__name__}")


def dec_float(s: str) -> float:
    if s == "nan":
        return math.nan
    if s == "pinf":
        return math.inf
    if s == "ninf":
        return -math.inf
    n, e = s.split("/")
    return int(n) / (1 << int(e)) if int(e) < 1000 else math.ldexp(int(n), -int(e))


def dec_val(toks: list[str], i: int = 0):
    """value tokens -> python value (models are instantiated with model_construct: no validation)."""
    t = toks[i]
    if t == "N":
        return None, i + 1
    if t in ("T", "F"):
        return t == "T", i + 1
    c, rest = t[0], t[1:]
    if c == "I":
        return int(rest), i + 1
    if c == "D":
        return dec_float(rest), i + 1
    if c == "S":
        return dec(rest), i + 1
    if c == "E":
        return ("enum", dec(rest)), i + 1
    if c == "L":
        out, i = [], i + 1
        for _ in range(int(rest)):
            x, i = dec_val(toks, i)
            out.append(x)
        return out, i
    if c == "U":
        out, i = [], i + 1
        for _ in range(int(rest)):
            x, i = dec_val(toks, i)
            out.append(x)
        return tuple(out), i
    if c == "Z":
        n = int(rest)
        return {dec(x) for x in toks[i + 1:i + 1 + n]}, i + 1 + n
    if c == "M":
        out, i = {}, i + 1
        for _ in range(int(rest)):
            k, i = dec_val(toks, i)
            x, i = dec_val(toks, i)
            out[k] = x
        return out, i
    if c == "O":
        mod, name = dec(toks[i + 1]), dec(toks[i + 2])
        cls = getattr(importlib.import_module(mod), name)
        i += 3
        kw = {}
        for _ in range(int(rest)):
            fname = dec(toks[i])
            x, i = dec_val(toks, i + 1)
            kw[fname] = _fix_enums(cls.model_fields[fname].annotation, x)
        return cls.model_construct(**kw), i
    raise ValueError(t)


def _fix_enums(ann, x):
    if isinstance(x, tuple) and len(x) == 2 and x[0] == "enum":
        for a in _flatten(ann):
            if isinstance(a, type) and issubclass(a, enum.Enum):
                return a(x[1])
    return x


def _flatten(ann):
    origin = typing.get_origin(ann)
    if origin in (typing.Union, types.UnionType, typing.Annotated):
        for a in typing.get_args(ann):
            yield from _flatten(a)
    else:
        yield ann


def dec_j(toks: list[str], i: int = 0):
    t = toks[i]
    if t == "N":
        return None, i + 1
    if t in ("T", "F"):
        return t == "T", i + 1
    c, rest = t[0], t[1:]
    if c == "I":
        return int(rest), i + 1
    if c == "D":
        return dec_float(rest), i + 1
    if c == "S":
        return dec(rest), i + 1
    if c == "L":
        out, i = [], i + 1
        for _ in range(int(rest)):
            x, i = dec_j(toks, i)
            out.append(x)
        return out, i
    if c == "M":
        out, i = {}, i + 1
        for _ in range(int(rest)):
            k = dec(toks[i])
            x, i = dec_j(toks, i + 1)
            out[k] = x
        return out, i
    raise ValueError(t)


# ----------------------------------------------------------------------------------------------------
# the transports

def transport_rpc(d: dict):
    """What fastapi_websocket_rpc does with `dispatch_message_async(message_json=d)`."""
    from fastapi_websocket_rpc.schemas import RpcMessage, RpcRequest
    from fastapi_websocket_rpc.utils import pydantic_serialize, pydantic_parse
    text = pydantic_serialize(RpcMessage(request=RpcRequest(method="dispatch_message_async",
                                                            arguments={"message_json": d}, call_id="c")))
    msg = pydantic_parse(RpcMessage, json.loads(text))
    return msg.request.arguments["message_json"]


def transport_reply(d: dict):
    """Replies: `json.dumps(serialize(result))` inside the rpc response, `json.loads` on the other side."""
    from fastapi_websocket_rpc.schemas import RpcMessage, RpcResponse
    from fastapi_websocket_rpc.utils import pydantic_serialize, pydantic_parse
    text = pydantic_serialize(RpcMessage(response=RpcResponse[str](result=json.dumps(d), result_type="str", call_id="c")))
    msg = pydantic_parse(RpcMessage, json.loads(text))
    return json.loads(msg.response.result)


def transport_post(d: dict):
    """Registration: httpx `json=` on the engine, `await request.json()` on the aggregator."""
    import httpx
    req = httpx.Request("POST", "http://x/engine-rest", json=d)
    return json.loads(req.content)


def transports_for(cls) -> list:
    import openpectus.protocol.aggregator_messages as AM
    import openpectus.protocol.engine_messages as EM
    import openpectus.protocol.messages as M
    ts = [transport_rpc]
    if cls.__module__ == M.__name__ or cls is AM.RegisterEngineReplyMsg:
        ts.append(transport_reply)
    if cls is EM.RegisterEngineMsg:
        ts.append(transport_post)
    return ts


def impl_roundtrip(msg):
    """-> ('ok', message) | ('err',) | ('exc', name); all transports of the class must agree."""
    from openpectus.protocol.serialization import serialize, deserialize
    from openpectus.protocol.exceptions import ProtocolDeserializationException
    results = []
    for tr in transports_for(type(msg)):
        try:
            d2 = tr(serialize(msg))
        except Exception as e:  # the message cannot be sent at all
            results.append(("exc", "transport:" + type(e).__name__))
            continue
        try:
            results.append(("ok", deserialize(d2)))
        except ProtocolDeserializationException:
            results.append(("err",))
        except Exception as e:
            results.append(("exc", type(e).__name__))
    first = results[0]
    for r in results[1:]:
        if r[0] != first[0] or (r[0] == "ok" and enc_val(r[1]) != enc_val(first[1])):
            return ("exc", "transports-disagree")
    return first


def show(r) -> list[str]:
    if r[0] == "ok":
        return [" ".join(["ok"] + enc_val(r[1]))]
    if r[0] == "err":
        return ["err"]
    return ["exc:" + r[1]]


# ----------------------------------------------------------------------------------------------------
# strict comparison (the oracle's notion of "unchanged")

def same(a, b) -> bool:
    from pydantic import BaseModel
    if type(a) is not type(b):
        return False
    if isinstance(a, float):
        return (a != a and b != b) or a == b
    if isinstance(a, BaseModel):
        return all(same(getattr(a, n), getattr(b, n)) for n in type(a).model_fields)
    if isinstance(a, (list, tuple)):
        return len(a) == len(b) and all(same(x, y) for x, y in zip(a, b))
    if isinstance(a, (set, frozenset)):
        return sorted(map(repr, a)) == sorted(map(repr, b)) and a == b
    if isinstance(a, dict):
        ka = sorted((type(k).__name__, repr(k)) for k in a)
        kb = sorted((type(k).__name__, repr(k)) for k in b)
        return ka == kb and all(same(a[k], b[k]) for k in a)
    return a == b


def serialize_is_exact(msg) -> bool:
    """serialize(msg) == msg.model_dump() + {_type, _ns}, with the same runtime types (nan == nan)."""
    from openpectus.protocol.serialization import serialize
    d = dict(serialize(msg))
    if d.pop("_type", None) != type(msg).__qualname__ or d.pop("_ns", None) != type(msg).__module__:
        return False
    return same(d, msg.model_dump())


def walk(v):
    from pydantic import BaseModel
    yield v
    if isinstance(v, BaseModel):
        for n in type(v).model_fields:
            yield from walk(getattr(v, n))
    elif isinstance(v, (list, tuple, set, frozenset)):
        for x in v:
            yield from walk(x)
    elif isinstance(v, dict):
        for k, x in v.items():
            yield ("key", k)
            yield from walk(x)


def has_nonfinite(msg) -> bool:
    return any(isinstance(x, float) and not math.isfinite(x) for x in walk(msg))


def has_numkey(msg) -> bool:
    return any(isinstance(x, tuple) and len(x) == 2 and x[0] == "key" and not isinstance(x[1], str) for x in walk(msg))


# ----------------------------------------------------------------------------------------------------
# generators

STRS = ["", "a", "B c", "é€", "\t\n\x00", "1", "1.5", "true", "null", "_type", "-3", "日本", "\U0001F600x", "nan"]
INTS = [0, 1, -1, 7, 2 ** 31, -2 ** 63, 10 ** 25, 2 ** 53 + 1]
FLOATS = [0.0, 1.0, -1.0, 0.125, 2.5, -3.75, 1e22, 0.1, 1e300, 5e-324, 2.0 ** 60, 123456.789, -0.0]


class Unmodelled(TypeError):
    """the generator has no rule for this annotation"""


class Untestable(Exception):
    """a required field of a type outside the model for which no value could be made"""


OPAQUE: dict = {}      # model class -> {field: why}; filled by run() from the translator

_FALLBACKS = [0, 1, "", "a", 0.0, True, None, [], {}, (), "2020-01-01T00:00:00", "2020-01-01", "00:00:01", b"x", "1.5",
              [0], [0, 0], ["a"], {"a": "b"}]


def fallback_value(ann):
    """some value pydantic accepts for an annotation the generator knows nothing about"""
    from pydantic import TypeAdapter
    try:
        ta = TypeAdapter(ann)
    except Exception as e:
        raise Untestable(f"{ann!r}: {type(e).__name__}")
    for x in _FALLBACKS:
        try:
            return ta.validate_python(x)
        except Exception:
            continue
    raise Untestable(repr(ann))


class Gen:
    def __init__(self, rng, flavor: str):
        self.rng = rng
        self.flavor = flavor      # safe | nonfinite | numkeys
        self.float_slots = 0

    def s(self) -> str:
        r = self.rng
        if r.random() < 0.6:
            return r.choice(STRS)
        n = r.randrange(0, 6)
        return "".join(chr(r.choice([r.randrange(32, 127), r.randrange(0xA0, 0xD7FF), r.randrange(0xE000, 0xFFFD),
                                     r.randrange(0x10000, 0x10FFFF)])) for _ in range(n))

    def f(self) -> float:
        r = self.rng
        self.float_slots += 1
        if self.flavor == "nonfinite" and r.random() < 0.5:
            return r.choice([math.nan, math.inf, -math.inf])
        if r.random() < 0.5:
            return r.choice(FLOATS)
        return r.randrange(-10 ** 6, 10 ** 6) / 8

    def i(self) -> int:
        r = self.rng
        return r.choice(INTS) if r.random() < 0.5 else r.randrange(-1000, 1000)

    def value(self, ann, metadata=(), depth=0):
        from pydantic import BaseModel
        r = self.rng
        origin, args = typing.get_origin(ann), typing.get_args(ann)
        if origin is typing.Annotated:
            return self.value(args[0], tuple(args[1:]) + tuple(metadata), depth)
        if ann is int:
            return abs(self.i()) if metadata else self.i()
        if ann is str:
            return self.s()
        if ann is bool:
            return r.random() < 0.5
        if ann is float:
            return self.f()
        if ann is type(None):
            return None
        if origin is typing.Literal:
            return r.choice(args)
        if origin in (typing.Union, types.UnionType):
            return self.value(r.choice(args), (), depth)
        if origin is list:
            return [self.value(args[0], (), depth + 1) for _ in range(r.randrange(0, 3 if depth else 4))]
        if origin is set and args == (str,):
            return {self.s() for _ in range(r.randrange(0, 5))}
        if origin is tuple and args:
            if len(args) == 2 and args[1] is Ellipsis:
                return tuple(self.value(args[0], (), depth + 1) for _ in range(r.randrange(0, 4)))
            if Ellipsis not in args:
                return tuple(self.value(a, (), depth + 1) for a in args)
        if origin is dict:
            out = {}
            for _ in range(r.randrange(0, 4)):
                out[self.key(args[0])] = self.value(args[1], (), depth + 1)
            return out
        if isinstance(ann, type) and issubclass(ann, enum.Enum):
            return r.choice(list(ann))
        if isinstance(ann, type) and issubclass(ann, BaseModel):
            return self.model(ann, depth + 1)
        raise Unmodelled(f"no generator for {ann!r}")

    def key(self, ann):
        r = self.rng
        members = [a for a in _flatten(ann)]
        if self.flavor == "numkeys" and len(members) > 1:
            m = r.choice(members)
        else:
            m = str
        if m is int:
            return r.choice([0, 1, -5, 42, 10 ** 20])
        if m is float:
            return r.choice([0.5, 2.5, 3.0, -0.125, 100.25, 1024.0])
        return self.s()

    def model(self, cls, depth=0):
        kw = {}
        for name, f in cls.model_fields.items():
            if not f.is_required() and self.rng.random() < 0.3:
                continue
            opaque = name in OPAQUE.get(cls, {})
            if not opaque:
                try:
                    kw[name] = self.value(f.annotation, tuple(f.metadata), depth)
                    continue
                except Unmodelled:
                    pass
            # a type outside the model: the field stays at its default; a required one gets any value pydantic accepts
            if f.is_required():
                kw[name] = fallback_value(f.annotation)
        return cls(**kw)


def gen_messages(ctx: Check, classes, flavor: str, per_class: int):
    out = []
    for cls in classes:
        got, tries = 0, 0
        while got < per_class and tries < per_class * 20:
            tries += 1
            g = Gen(ctx.rng, flavor)
            try:
                m = g.model(cls)
            except Untestable as e:
                note = f"{cls.__qualname__}: no value could be generated for a required field of unmodelled type ({e}); class not exercised"
                if note not in ctx.notes:
                    ctx.notes.append(note)
                break
            if flavor == "nonfinite" and not has_nonfinite(m):
                if g.float_slots == 0 and tries > 30:
                    break
                continue
            if flavor == "numkeys" and not has_numkey(m):
                if tries > 60 and got == 0:
                    break
                continue
            out.append(m)
            got += 1
    return out


CONFUSED = [None, True, False, 0, 1, 2, -3, 7, 0.0, 1.0, 2.5, -3.0, "", "abc", "Zq", "12", "-3", "0", "1",
            "input", "navigate", "run_start", [], [1], ["a", "a", "b"], {}, {"a": "b"}, {"x": 1}]


def gen_envelopes(ctx: Check, classes) -> list[dict]:
    """Malformed and type-confused inputs of `deserialize` (as json.loads would deliver them)."""
    import openpectus.protocol.serialization as S
    from openpectus.protocol.serialization import serialize
    from pydantic import BaseModel
    rng = ctx.rng
    cases: list[dict] = []
    base = {}
    for cls in classes:
        base[cls] = transport_rpc(serialize(Gen(rng, "safe").model(cls)))
    from harness.translators import schemas as _schemas
    ns_mods = _schemas.namespaces()
    names = [m.__name__ for m in ns_mods]
    # every attribute name of every namespace, under every namespace
    all_attrs = sorted({a for ns in ns_mods for a in dir(ns)})
    some = base[classes[0]]
    for ns in names:
        for a in all_attrs:
            cases.append({"kind": "attr-as-type", "j": {**some, "_type": a, "_ns": ns}})
    # attributes with the fields of a real message of that name where there is one
    for cls, d in base.items():
        for ns in names:
            cases.append({"kind": "class-under-ns", "j": {**d, "_ns": ns}})
    bad_ns = ["", "openpectus.protocol", "openpectus.protocol.models", "openpectus.aggregator.models",
              "openpectus.protocol.engine_messages ", "Openpectus.protocol.messages", "builtins", "os",
              "openpectus.protocol.serialization", None, 5, 1.5, True, [], ["openpectus.protocol.messages"],
              {"a": "b"}]
    bad_ty = ["", "pingmsg", "PingMsg ", "Ping", "Msg", "Mdl", "BaseModel", "__class__", "__dict__", "__name__",
              "openpectus.protocol.engine_messages.PingMsg", "dict", "object", None, 0, 1.5, False, [], ["PingMsg"],
              {"PingMsg": "x"}]
    for cls, d in base.items():
        for _ in range(ctx.n(3, 12)):
            cases.append({"kind": "bad-ns", "j": {**d, "_ns": rng.choice(bad_ns)}})
            cases.append({"kind": "bad-type", "j": {**d, "_type": rng.choice(bad_ty)}})
        cases.append({"kind": "missing-type", "j": {k: v for k, v in d.items() if k != "_type"}})
        cases.append({"kind": "missing-ns", "j": {k: v for k, v in d.items() if k != "_ns"}})
        cases.append({"kind": "envelope-only", "j": {"_type": d["_type"], "_ns": d["_ns"]}})
        cases.append({"kind": "valid", "j": d})
    # modules outside the three namespaces (every loaded openpectus module; any that exposes a message class gets
    # that class name as _type)
    import sys
    import openpectus.protocol.messages as M
    for modname in sorted(m for m in sys.modules if m.startswith("openpectus") and m not in names):
        mod = sys.modules[modname]
        hits = [a for a in dir(mod) if isinstance(getattr(mod, a, None), type) and issubclass(getattr(mod, a), M.MessageBase)]
        for a in (hits or ["PingMsg"])[:3]:
            cases.append({"kind": "foreign-module", "j": {**some, "_type": a, "_ns": modname}})
    for x in [None, 5, "PingMsg", [], [{"_type": "PingMsg", "_ns": names[0]}], {}, True, 1.5]:
        cases.append({"kind": "not-a-message-dict", "j": x})

    # type confusion inside a valid envelope
    def paths(d, prefix=()):
        for k, v in d.items():
            if k in ("_type", "_ns") and not prefix:
                continue
            yield prefix + (k,)
            if isinstance(v, dict):
                yield from paths(v, prefix + (k,))
            elif isinstance(v, list):
                for i, x in enumerate(v[:2]):
                    if isinstance(x, dict):
                        yield from paths(x, prefix + (k, i))

    def dynamic_default(cls, path) -> bool:
        # deleting a field whose default_factory yields a non-constant is outside the model ("unmodelled")
        cur = cls
        for p in path:
            if isinstance(p, int):
                continue
            f = cur.model_fields.get(p) if isinstance(cur, type) and issubclass(cur, BaseModel) else None
            if f is None:
                return False
            if p == path[-1]:
                fac = f.default_factory
                return fac is not None and not (fac in (list, dict) or (isinstance(fac, type) and issubclass(fac, BaseModel)))
            nxt = [a for a in _flatten(f.annotation)]
            cur = None
            for a in nxt:
                for b in ([a] + list(typing.get_args(a))):
                    if isinstance(b, type) and issubclass(b, BaseModel):
                        cur = b
            if cur is None:
                return False
        return False

    def mutate(d, path, fn):
        d = json.loads(json.dumps(d))
        cur = d
        for p in path[:-1]:
            cur = cur[p]
        fn(cur, path[-1])
        return d

    for cls in classes:
        for _ in range(ctx.n(12, 400)):
            d = transport_rpc(serialize(Gen(rng, "safe").model(cls)))
            ps = list(paths(d))
            if not ps:
                continue
            p = rng.choice(ps)
            roll = rng.random()
            if roll < 0.7:
                v = rng.choice(CONFUSED)
                cases.append({"kind": "confused-field", "j": mutate(d, p, lambda c, k: c.__setitem__(k, v))})
            elif roll < 0.9:
                if dynamic_default(cls, p):
                    continue
                cases.append({"kind": "deleted-field", "j": mutate(d, p, lambda c, k: c.pop(k))})
            else:
                cases.append({"kind": "extra-key", "j": mutate(d, p, lambda c, k: c.__setitem__(k + "_x", 1))})
    return cases


# ----------------------------------------------------------------------------------------------------

def expected_rejection(j) -> str | None:
    """Why the property demands a protocol error for this input (None: it does not)."""
    import openpectus.protocol.serialization as S
    import openpectus.protocol.messages as M
    if not isinstance(j, dict):
        return "not a dict"
    if "_type" not in j or "_ns" not in j:
        return "envelope key missing"
    ns, ty = j["_ns"], j["_type"]
    from harness.translators import schemas as _schemas
    ns_by_name = {m.__name__: m for m in _schemas.namespaces()}
    if not isinstance(ns, str) or ns not in ns_by_name:
        return "unknown namespace"
    mod = ns_by_name[ns]
    cls = getattr(mod, ty, None) if isinstance(ty, str) else None
    if not (isinstance(cls, type) and issubclass(cls, M.MessageBase)):
        return "unknown message type"
    return None


def impl_deserialize(j):
    from openpectus.protocol.serialization import deserialize
    from openpectus.protocol.exceptions import ProtocolDeserializationException
    try:
        return ("ok", deserialize(j))
    except ProtocolDeserializationException:
        return ("err",)
    except BaseException as e:  # noqa
        return ("exc", type(e).__name__)


def msg_case(m, flavor) -> dict:
    c = {"cls": f"{type(m).__module__}:{type(m).__qualname__}", "flavor": flavor, "wire": " ".join(enc_val(m))}
    if type(m) in OPAQUE:
        try:
            c["json"] = json.loads(m.model_dump_json())      # for replay: the wire form cannot rebuild unmodelled types
        except Exception:
            pass
    return c


def run(ctx: Check) -> int:
    from harness.translators import schemas
    schemas.generate()
    ctx.prove(MODULE, REQUIRED)
    all_classes = schemas.message_classes()
    OPAQUE.clear()
    OPAQUE.update(schemas.opaque_fields())
    outside = [c for c in all_classes if c in OPAQUE]       # contain a field (possibly nested) of a type outside the model
    classes = [c for c in all_classes if c not in OPAQUE]
    ctx.extra["message_classes"] = len(all_classes)
    ctx.rule = ("round-trip streams: for every message class reachable through the three namespaces, values generated "
                "from the declared field types (edge strings incl. unicode/control/astral, big ints, dyadic and "
                "non-dyadic finite floats, every union member, every literal/enum member, nested lists/dicts/sets, "
                "defaults used or overridden); separate streams inject nan/inf and int/float dict keys. Non-trivial = "
                "the message has a nested model, a union member other than None, a set or a float. Envelope stream: "
                "every attribute name of every namespace as _type under every namespace (exhaustive), unknown / "
                "non-string namespaces and types, missing keys, non-dict input, and type-confused / deleted / extra "
                "fields inside a valid envelope.")

    corpus = load_corpus("C26")
    per = ctx.n(40, 4000)
    safe = gen_messages(ctx, classes, "safe", per)
    nonfin = gen_messages(ctx, classes, "nonfinite", ctx.n(6, 150))
    numk = gen_messages(ctx, classes, "numkeys", ctx.n(20, 1000))
    by_wire = {}

    def mk(ms, flavor):
        cs = []
        for m in ms:
            c = msg_case(m, flavor)
            by_wire[c["wire"]] = m
            cs.append(c)
            ctx.count(f"{flavor}:{type(m).__qualname__}")
        return cs

    def nontrivial(c, out):
        w = c["wire"]
        return " O" in w or " Z" in w or " D" in w or " E" in w

    def impl_rt(c):
        return show(impl_roundtrip(by_wire[c["wire"]]))

    streams = []
    for flavor, ms in (("safe", safe), ("nonfinite", nonfin), ("numkeys", numk)):
        cs = []
        for c in corpus:       # minimised nasty cases first
            if "wire" in c and c.get("flavor") == flavor:
                by_wire[c["wire"]] = dec_val(c["wire"].split(" "))[0]
                cs.append(c)
        cs += mk(ms, flavor)
        streams.append((flavor, cs))
    # set iteration order must not matter (model side), checked on the messages that have a set
    with_sets = [dict(c, op="rtrev") for c in streams[0][1] if " Z" in c["wire"]][:ctx.n(60, 600)]
    # malformed envelopes and type-confused fields
    env = [c for c in corpus if "j" in c] + gen_envelopes(ctx, classes)

    def names_outside_class(j) -> bool:
        # the model answers `unmodelled` for a class with a field type it does not cover
        import openpectus.protocol.serialization as S
        if not isinstance(j, dict) or not isinstance(j.get("_ns"), str) or not isinstance(j.get("_type"), str):
            return False
        ns_by_name = {m.__name__: m for m in schemas.namespaces()}
        if j["_ns"] not in ns_by_name:
            return False
        mod = ns_by_name[j["_ns"]]
        obj = getattr(mod, j["_type"], None)
        return isinstance(obj, type) and obj in OPAQUE
    env = [c for c in env if not names_outside_class(c["j"])]
    for c in env:
        ctx.count("envelope:" + c["kind"])

    def all_lines(c):
        if "j" in c:
            return ["de\t" + " ".join(enc_j(c["j"]))]
        return [c.get("op", "rt") + "\t" + c["wire"]]

    def all_impl(c):
        return show(impl_deserialize(c["j"])) if "j" in c else impl_rt(c)

    def all_nontrivial(c, out):
        return c["kind"] != "valid" if "j" in c else nontrivial(c, out)

    # one driver session for all streams (interpreter start-up dominates on a busy machine)
    everything = [c for _, cs in streams for c in cs] + with_sets + env
    _, mo_all = ctx.correspond("roundtrip(safe,nonfinite,numkeys,reversed-sets)+envelopes", "Proto", everything,
                               all_lines, all_impl, all_nontrivial)
    ctx.count("reversed-set-order", len(with_sets))
    # self-test: a model that confuses 1.0 with 1 must be caught by the generated cases
    if mo_all:
        sel = [k for k, c in enumerate(streams[0][1]) if " D" in c["wire"]][:400]
        ctx.selftest("roundtrip-safe", "Proto", [everything[k] for k in sel], lambda c: ["rtmut\t" + c["wire"]],
                     [mo_all[k] for k in sel])

    # property oracle (independent of the model): unchanged and same type
    for flavor, cs in streams:
        for c in cs:
            m = by_wire[c["wire"]]
            r = impl_roundtrip(m)
            ok = r[0] == "ok" and type(r[1]) is type(m) and same(r[1], m)
            if ok:
                continue
            what = ("rejected on arrival" if r[0] == "err" else
                    f"raised {r[1]}" if r[0] == "exc" else
                    "came back with another type" if type(r[1]) is not type(m) else "came back changed")
            if has_nonfinite(m) or has_numkey(m):
                # site of the loss: the recorded findings lose the value in the JSON transport; serialize() itself
                # must still hand over exactly model_dump() + envelope
                key = K_NONFINITE if has_nonfinite(m) else K_NUMKEY
                if not serialize_is_exact(m):
                    key += ":already-in-serialize"
                    what += " (serialize() had already changed the value before any transport)"
            else:
                key = f"roundtrip-mismatch:{type(m).__qualname__}"
            ctx.fail(Failure(key, c, f"{type(m).__qualname__} {what}: sent {m!r:.300}"))

    # classes with a field of a type the model does not cover: the theorems are silent about them (no value of an
    # opaque type is wellTyped); they are exercised against the real code alone, the field at its default
    outside_report = {}
    for cls in outside:
        ms = gen_messages(ctx, [cls], "safe", ctx.n(40, 1000))
        bad = 0
        for m in ms:
            r = impl_roundtrip(m)
            ctx.evaluations += 1
            ctx.count(f"outside-model:{cls.__qualname__}")
            if not (r[0] == "ok" and type(r[1]) is type(m) and same(r[1], m)):
                bad += 1
                what = ("rejected on arrival" if r[0] == "err" else f"raised {r[1]}" if r[0] == "exc" else "came back changed")
                ctx.fail(Failure(f"roundtrip-mismatch:{cls.__qualname__}", msg_case(m, "safe"),
                                 f"{cls.__qualname__} {what}: sent {m!r:.300}"))
        why = {f"{k.__qualname__}.{n}": w for k, d in OPAQUE.items() for n, w in d.items()
               if k is cls or any(k.__qualname__ in x for x in OPAQUE.get(cls, {}).values())}
        outside_report[cls.__qualname__] = {"fields_outside_the_model": OPAQUE.get(cls, {}), "round_trips": len(ms),
                                            "failed": bad}
        ctx.notes.append(f"{cls.__qualname__}: field type outside the Lean model ({'; '.join(f'{n}: {w}' for n, w in OPAQUE[cls].items())[:300]}) - "
                         f"the theorems do not speak about this class; {len(ms)} round trips of the real code with that "
                         f"field at its default: {bad} failed")
    ctx.extra["classes_outside_the_model"] = outside_report

    # envelopes: the property demands a protocol error for unknown namespaces / types
    for c in env:
        why = expected_rejection(c["j"])
        if why is None:
            continue
        r = impl_deserialize(c["j"])
        if r[0] == "ok":
            ctx.fail(Failure("unknown-envelope-accepted", c, f"{why}, but deserialize returned {r[1]!r:.200}"))
        elif r[0] == "exc":
            ctx.fail(Failure("unknown-envelope-wrong-exception", c, f"{why}: raised {r[1]} instead of the protocol error"))
    if ctx.tier == "thorough":
        from vp.core import drive
        info = drive("Proto", [["info\tplain", "info\tnonstr-keys"]])[0]
        ctx.extra["entries_with_unconditional_roundtrip_theorem"] = info[0].split(",")
        ctx.extra["entries_with_non_string_dict_keys"] = info[1].split(",")
    ctx.exhaustive = False
    ctx.assumptions = ["strings are valid unicode (no lone surrogates; such a message cannot be sent at all)",
                       "-0.0 and 0.0 are identified",
                       "pydantic's float text encoding and CPython's float parsing are mutually exact on finite doubles "
                       "(checked differentially on dyadic, decimal, huge and denormal values)",
                       "the transport is fastapi_websocket_rpc's RpcMessage.model_dump_json / json.loads (requests), "
                       "json.dumps inside the rpc response (replies), httpx json= (registration); they are run side by "
                       "side and must agree"]
    return ctx.finish(search=_search)


def _search(ctx: Check) -> None:
    """Proof or correspondence broke: look for a failing round trip with fresh values of every class."""
    from harness.translators import schemas
    classes = schemas.message_classes()
    OPAQUE.clear()
    OPAQUE.update(schemas.opaque_fields())
    for m in gen_messages(ctx, classes, "safe", ctx.n(150, 1500)):
        r = impl_roundtrip(m)
        if not (r[0] == "ok" and type(r[1]) is type(m) and same(r[1], m)):
            ctx.fail(Failure(f"roundtrip-mismatch:{type(m).__qualname__}", msg_case(m, "safe"),
                             f"{type(m).__qualname__} did not survive the round trip: {m!r:.300}"))
            return


def replay(obj) -> int:
    c = obj.get("case", {})
    if "wire" in c:
        if "json" in c:
            mod, name = c["cls"].split(":")
            m = getattr(importlib.import_module(mod), name)(**c["json"])
        else:
            m, _ = dec_val(c["wire"].split(" "))
        r = impl_roundtrip(m)
        print("sent     :", repr(m)[:1500])
        print("received :", (repr(r[1]) if r[0] == "ok" else r)[:1500] if r[0] == "ok" else r)
        ok = r[0] == "ok" and type(r[1]) is type(m) and same(r[1], m)
        print("unchanged and same type:", ok)
        print("serialize(msg) == model_dump() + envelope (loss, if any, is in the transport):", serialize_is_exact(m))
        return 0 if ok else 1
    if "j" in c:
        r = impl_deserialize(c["j"])
        why = expected_rejection(c["j"])
        print("input    :", json.dumps(c["j"])[:1500])
        print("result   :", r if r[0] != "ok" else ("ok", repr(r[1])[:800]))
        print("property demands a protocol error:", why)
        return 1 if (why is not None and r[0] != "err") else 0
    print(json.dumps(obj, indent=1)[:3000])
    return 0
