"""C35 Error-log aggregation loses nothing and counts repeats.

Proof half: OPM.Properties.C35 — the aggregated log is, for every input and every batching, exactly one entry per
maximal run of consecutive entries with equal (message, severity), carrying the run's latest time and the number
of strictly-later deliveries; consequences: order kept, no entry lost, accounting, redelivery idempotent.
Tie half: `AggregatedErrorLog.aggregate_with` / `clear` (direct) and `handle_ErrorLogMsg` + run stop/start + disconnect/register (through
the aggregator's message handlers) against the Lean model, op by op, on exhaustive small scopes and generated
engine-like histories (bursts, equal times, redelivered batches / suffixes, interleavings, earlier times).
"""
from __future__ import annotations

import itertools
from fractions import Fraction

from vp.core import Check, Failure, dec, enc, load_corpus

META = dict(
    level_text="Lean 4 theorems over all entry lists and all batchings: the aggregated error log equals, in order, one "
               "entry per maximal run of consecutive entries with equal (message, severity); a run with strictly "
               "increasing times gets occurrences = run length and the last time; equal times are not counted "
               "(occurrences = number of distinct times for non-decreasing runs); every delivered entry is represented "
               "(key and a time not earlier); occurrences + uncounted redeliveries = input length; redelivering an entry "
               "or a single-key batch changes nothing. The model is tied to AggregatedErrorLog.aggregate_with/clear and to "
               "the ErrorLogMsg handler by differential execution (exhaustive over 9 entry symbols up to length 4/5, plus "
               "generated histories).",
    level_note="Trusted: Lean kernel (+ propext/Classical.choice/Quot.sound), the correspondence harness. created_time is a "
               "finite float (modelled as a rational; NaN/inf excluded). Not claimed (and not the case, see the last "
               "example of the Lean file): a redelivered batch that interleaves two different (message, severity) keys is "
               "appended again rather than recognised — the property text speaks about consecutive entries only. An entry "
               "with the key of the latest one and an *earlier* time is treated like a duplicate (not counted). Scope: the "
               "aggregation law within one lifetime of the log (one EngineData, from empty / cleared to the next clear). That a "
               "run start/stop clears the log (EngineData.reset_run) and that an engine reconnect starts with an empty log "
               "(engine_disconnected deletes the EngineData; _try_restore_reconnected_engine_data restores run id and "
               "contributors, not error_log — so the RecentRunErrorLog of a run that saw a reconnect lacks the entries "
               "aggregated before it) are modelled and compared in the handler stream but are not demanded by the oracle: "
               "the property text does not speak about them (the loss at a reconnect belongs to C28, run survives reconnects).",
    technique="Lean 4 proof (fold = per-run summary, induction over the entry list) + differential correspondence",
)
MODULE = "OPM.Properties.C35"
REQUIRED = ["OPM.C35.batches_concat", "OPM.C35.aggregateAll_eq", "OPM.C35.groups_spec", "OPM.C35.aggregate_eq_groups",
            "OPM.C35.order_kept", "OPM.C35.merged_increasing", "OPM.C35.duplicates_not_counted",
            "OPM.C35.summary_general", "OPM.C35.no_entry_lost", "OPM.C35.accounting",
            "OPM.C35.immediate_redelivery", "OPM.C35.batch_redelivery"]

SYMBOLS = [(m, s, t) for (m, s) in (("a", 1), ("a", 2), ("b", 1)) for t in (8, 16, 24)]   # t in 1/8 s
MESSAGES = ["a", "b", "Hardware error", "", "é€\t|;,", "a "]


# ------------------------------------------------------------------------------------------------
# case format: {"ops": [["agg", [[msg, sev, t8], ...]], ["clear"], ...]}

def _entry_wire(e) -> str:
    return f"{enc(e[0])}|{int(e[1])}|{int(e[2])}"


def lines_of(case, op_name="agg") -> list[str]:
    out = []
    for op in case["ops"]:
        if op[0] == "agg":
            out.append(f"{op_name}\t" + (";".join(_entry_wire(e) for e in op[1]) if op[1] else "-"))
        else:
            out.append(op[0])          # clear | reconnect
    return out


def _show_time(t: float) -> str:
    u = Fraction(t) * 8
    return str(u.numerator) if u.denominator == 1 else f"{u.numerator}/{u.denominator}"


def _show_log(entries) -> str:
    if not entries:
        return "-"
    return ";".join(f"{enc(a.message)}|{a.severity}|{_show_time(a.created_time)}|{a.occurrences}" for a in entries)


def impl_direct(case) -> list[str]:
    import openpectus.aggregator.models as AM
    import openpectus.protocol.models as PM
    log = AM.AggregatedErrorLog.empty()
    out = []
    for op in case["ops"]:
        if op[0] == "agg":
            log.aggregate_with(PM.ErrorLog(entries=[PM.ErrorLogEntry(message=m, severity=s, created_time=t / 8)
                                                    for (m, s, t) in op[1]]))
        elif op[0] == "clear":
            log.clear()
        else:                       # reconnect: the new EngineData gets a new, empty log
            log = AM.AggregatedErrorLog.empty()
        out.append(_show_log(log.entries))
    return out


dropped_at_reconnect = [0]     # observation (outside C35's statement): aggregated entries gone with the old EngineData


def impl_handlers(case) -> list[str]:
    """the same history through the aggregator: the engine is registered and in a run; `clear` = the run stops and the
    next one starts (EngineData.reset_run clears the log both times); `reconnect` = connection lost + re-registration"""
    from harness.agg_common import AggHarness
    h = AggHarness()
    h.register()
    k = 0
    h.run_started(f"run{k}")
    out = []
    for op in case["ops"]:
        if op[0] == "agg":
            h.error_log([(m, s, t / 8) for (m, s, t) in op[1]])
        elif op[0] == "clear":
            h.run_stopped(f"run{k}")
            k += 1
            h.run_started(f"run{k}")
        else:
            before = len(h.engine_data().error_log.entries)
            h.disconnect()
            h.register()
            dropped_at_reconnect[0] += 1 if before > len(h.engine_data().error_log.entries) else 0
        out.append(_show_log(h.engine_data().error_log.entries))
    return out


# ------------------------------------------------------------------------------------------------
# property oracle over the implementation's output (independent of the Lean model)

def _parse_log(s: str):
    if s == "-":
        return []
    res = []
    for part in s.split(";"):
        if part.count("|") != 3:        # not a log line (time-out / harness exception marker): nothing to parse
            return []
        m, sev, t, occ = part.split("|")
        res.append((m, int(sev), Fraction(t), int(occ)))
    return res


def oracle(case, impl_out: list[str]) -> list[Failure]:
    """The aggregation law over one lifetime of the log.  At a `clear` / `reconnect` the oracle demands nothing
    (the property text does not say that a run stop or a reconnect empties the log): it takes whatever log the
    implementation shows afterwards as the carried-over state and judges the aggregation from there."""
    fails: list[Failure] = []
    # items delivered into the current log: [message, severity, time, weight]; weight = 1 for a delivered entry,
    # = occurrences for an aggregated entry carried over a clear / reconnect
    seg: list = []
    for op, shown in zip(case["ops"], impl_out):
        if shown != "-" and any(part.count("|") != 3 for part in shown.split(";")):
            return fails            # the harness could not drive this case (time-out marker): nothing to judge
        if op[0] != "agg":
            seg = [[dec(m), sev, t, occ] for (m, sev, t, occ) in _parse_log(shown)]
            continue
        seg = seg + [[e[0], e[1], Fraction(e[2]), 1] for e in op[1]]
        runs = [list(g) for _, g in itertools.groupby(seg, key=lambda e: (e[0], e[1]))]
        out = _parse_log(shown)
        want_keys = [enc(r[0][0]) + "|" + str(r[0][1]) for r in runs]
        got_keys = [m + "|" + str(sev) for (m, sev, _, _) in out]
        if want_keys != got_keys:
            fails.append(Failure("entry-lost-or-reordered", case,
                                 f"(message, severity) sequence of the log {got_keys} != runs of the input {want_keys}"))
            return fails
        for r, (m, sev, t, occ) in zip(runs, out):
            times = [Fraction(e[2]) for e in r]
            total = sum(e[3] for e in r)
            carried = any(e[3] != 1 for e in r)
            inc = all(a < b for a, b in zip(times, times[1:]))
            nondec = all(a <= b for a, b in zip(times, times[1:]))
            if inc:
                if occ != total:
                    fails.append(Failure("increasing-run-miscounted", case, f"run {r}: occurrences {occ} != {total}"))
                if t != times[-1]:
                    fails.append(Failure("increasing-run-wrong-time", case, f"run {r}: time {t} != latest {times[-1]}"))
            elif nondec and not carried:
                if occ != len(set(times)):
                    fails.append(Failure("equal-time-redelivery-miscounted", case,
                                         f"run {r}: occurrences {occ} != distinct times {len(set(times))}"))
                if t != times[-1]:
                    fails.append(Failure("nondecreasing-run-wrong-time", case, f"run {r}: time {t} != latest {times[-1]}"))
            elif not (1 <= occ <= total):
                fails.append(Failure("occurrences-out-of-range", case, f"run {r}: occurrences {occ}"))
    return fails


# ------------------------------------------------------------------------------------------------
# generators

def _split(rng, entries: list) -> list:
    """cut a flat entry list into batches at random places"""
    ops, cur = [], []
    for e in entries:
        cur.append(e)
        if rng.random() < 0.4:
            ops.append(["agg", cur])
            cur = []
    if cur or not ops:
        ops.append(["agg", cur])
    return ops


def gen_exhaustive(ctx: Check) -> list[dict]:
    maxlen = ctx.n(3, 4)
    cases = []
    for k in range(0, maxlen + 1):
        for seq in itertools.product(SYMBOLS, repeat=k):
            cases.append({"ops": _split(ctx.rng, [list(e) for e in seq])})
    extra = ctx.n(1500, 12000)      # the next length, sampled
    for _ in range(extra):
        seq = [list(ctx.rng.choice(SYMBOLS)) for _ in range(maxlen + 1)]
        cases.append({"ops": _split(ctx.rng, seq)})
    return cases


def gen_history(ctx: Check, malformed: bool) -> dict:
    """an engine-like history: a clock that mostly advances, bursts of one message, equal-time repeats,
    redelivery of the previous batch or of a suffix of it, interleaved messages, occasional clear"""
    rng = ctx.rng
    pool = [(rng.choice(MESSAGES), rng.choice([0, 1, 2, 40])) for _ in range(rng.randrange(1, 4))]
    if malformed:
        pool += [("", -1), ("a" * rng.randrange(1, 40), 2 ** 40), (chr(rng.randrange(0x20, 0x2FFF)) * 2, -2 ** 31)]
    clock = rng.choice([0, 8, 1_000_000 * 8]) if not malformed else rng.choice([-80, 0, 2 ** 45])
    ops: list = []
    prev: list = []
    for _ in range(rng.randrange(1, ctx.n(7, 12))):
        r = rng.random()
        if r < 0.08:
            ops.append(["clear"])
            ctx.count("op:clear")
            prev = []
            continue
        if r < 0.13:
            ops.append(["reconnect"])
            ctx.count("op:reconnect")
            prev = []
            continue
        if r < 0.33 and prev:
            cut = rng.randrange(0, len(prev))
            batch = [list(e) for e in prev[cut:]]        # redelivery of the previous batch or a suffix of it
            ctx.count("batch:redelivered")
        else:
            batch = []
            key = rng.choice(pool)
            for _ in range(rng.randrange(0, 6)):
                q = rng.random()
                if q < 0.25:
                    key = rng.choice(pool)
                q = rng.random()
                if q < 0.60:
                    clock += rng.choice([1, 8, 8, 80])
                    ctx.count("entry:later")
                elif q < 0.88:
                    ctx.count("entry:same-time")
                else:
                    clock -= rng.choice([1, 8])
                    ctx.count("entry:earlier")
                batch.append([key[0], key[1], clock])
            ctx.count("batch:fresh" if batch else "batch:empty")
        ops.append(["agg", batch])
        if batch:
            prev = batch
    return {"ops": ops}


def nontrivial(case, out) -> bool:
    """some aggregated entry merged at least two deliveries, or a redelivery was dropped"""
    n_in = 0
    for op, shown in zip(case["ops"], out):
        n_in = 0 if op[0] != "agg" else n_in + len(op[1])
        log = _parse_log(shown)
        if any(occ > 1 for (_, _, _, occ) in log) or sum(occ for (_, _, _, occ) in log) < n_in:
            return True
    return False


def run(ctx: Check) -> int:
    ctx.prove(MODULE, REQUIRED)
    from harness.agg_common import warm_up
    warm_up()
    ctx.rule = ("cases = sequences of aggregate_with(batch) / clear / reconnect (a new, empty log) calls. Exhaustive: every entry sequence up to length "
                "3 (quick) / 4 (thorough) over 9 symbols = 3 (message, severity) keys x 3 times, cut into batches at random "
                "places, plus samples of the next length. Generated: engine-like histories (advancing clock, bursts, "
                "equal-time repeats, redelivered batches and suffixes, interleaved keys, earlier times, clear, reconnect), 15 % with "
                "boundary values (empty / long / unicode messages, negative and 2^40 severities, negative and 2^45 times). "
                "Non-trivial = some entry merged >= 2 deliveries or a delivery was dropped as duplicate.")
    corpus = load_corpus(ctx.id)
    ex = gen_exhaustive(ctx)
    hist = []
    for _ in range(ctx.n(1500, 20000)):
        mal = ctx.rng.random() < 0.15
        ctx.count("history:boundary-values" if mal else "history:plain")
        hist.append(gen_history(ctx, mal))
    direct = corpus + ex + hist
    out, mout = ctx.correspond("aggregate_with-direct", "ErrorLog", direct, lines_of, impl_direct, nontrivial=nontrivial)
    ctx.selftest("aggregate_with-direct", "ErrorLog", direct, lambda c: lines_of(c, "aggm"), mout)

    via = corpus + hist[:ctx.n(300, 3000)]
    out2, _ = ctx.correspond("ErrorLogMsg-handler", "ErrorLog", via, lines_of, impl_handlers, nontrivial=nontrivial)

    for c, o in list(zip(direct, out)) + list(zip(via, out2)):
        for f in oracle(c, o):
            ctx.fail(f)
    ctx.extra["outside_scope_observed"] = (f"{dropped_at_reconnect[0]} reconnects in the handler stream dropped aggregated "
                                           f"entries: the re-registration creates a new EngineData whose error log starts empty")
    ctx.exhaustive = True
    ctx.extra["exhaustive_scope"] = (f"all entry sequences of length <= {ctx.n(3, 4)} over 9 symbols (correspondence "
                                     f"and oracle); everything longer is sampled")
    ctx.assumptions = ["created_time values are finite floats (model: rationals); the harness feeds multiples of 1/8 s",
                       "pydantic validation of ErrorLogEntry happens before aggregate_with (str / int / float fields)"]
    return ctx.finish()


def replay(obj) -> int:
    from vp.core import drive
    case = obj.get("case", obj)
    if "ops" not in case:
        print(obj)
        return 0
    out = impl_direct(case)
    model = drive("ErrorLog", [lines_of(case)])[0]
    for op, a, b in zip(case["ops"], out, model):
        print(f"{op}\n   impl : {a}\n   model: {b}")
    fails = oracle(case, out)
    for f in fails:
        print(f"ORACLE: {f.key}: {f.detail}")
    return 1 if fails or out != model else 0
