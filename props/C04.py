"""C04 Watch runs once after its condition holds; Alarm re-arms.

Proof half: OPM.Properties.C04 — guard theorems over every micro-step of every generator of the
interpreter model (all programs, all states, hence all schedules): `activated` flips only through
_try_activate_node (not cancelled; forced or condition true on this tick's tag values) and that step
ends the sub-tick; a Watch/Alarm body starts only at its invocation point and only if the node was
activated before the sub-tick began; a cancelled, not yet activated node is never activated; cancel
sticks except across the resets; the generator registered for a Watch/Alarm starts the body at most
once (methods without Call macro); the Alarm re-arm counts the run, clears the flags and registers a
fresh generator; no instruction inside an ended block is entered; End block aborts the block's
interrupts and a tick drops unregistered generators.
Tie half: correspondence of the real PInterpreter with OPM.Model.Interp on Watch/Alarm-heavy generated
methods x schedules with cancel/force aimed at Watch/Alarm nodes, a malformed stream, and an exhaustive
small scope.  Oracle: the property stated over the real Engine (run log, node flags, Mark tag).
"""
from __future__ import annotations

import collections
import json
from pathlib import Path

from vp.core import Check, Failure, Infra, drive

META = dict(
    level_text="Lean 4 theorems over the interpreter model (frame-stack machine of pinterpreter.py), for every method, "
               "every state and every micro-step of every generator, hence every schedule of ticks, tag trajectories, "
               "cancel/force requests and End block(s): (1) `activated` becomes true only through _try_activate_node at "
               "the node's await point - not cancelled, and forced or condition true on this tick's tags - and that step "
               "ends the sub-tick; cancel/force/complete requests and the interpreter never set it otherwise; the "
               "interpreter never sets `forced`/`cancelled`. (2) a Watch/Alarm body-start event is emitted only at the "
               "node's invocation point, exactly one, and a generator's sub-tick starts a body only if the node was "
               "activated before that sub-tick began. (3) a cancel is accepted only before activation; a cancelled, "
               "non-activated node is never activated by any micro-step; `cancelled` survives every micro-step except a "
               "covering reset. (4) the generator registered for a Watch/Alarm starts its body at most once under every "
               "environment (methods without Call macro). (5) the Alarm re-arm step increments run_count, clears "
               "activated/cancelled/forced/started and registers a fresh generator; run_count changes nowhere else. "
               "(6) a node is entered only by its parent's children loop and never when a Block above it has ended; End "
               "block marks and unregisters every interrupt inside the block; a tick keeps only registered generators. "
               "(7) lifted to whole ticks and runs (inductive over all schedules of ticks that reach their EndTicks, any "
               "tag values, cancel/force/complete/inject requests): in every reachable state every generator is quiet; a "
               "tick starts the body of a Watch/Alarm only if it was activated before the tick, or forced before the tick, "
               "or its condition holds on that tick's tag values (all methods); a Watch outside every Alarm in a method "
               "without Call macro that is cancelled while not activated stays cancelled and never starts its body in "
               "any continuation; for EVERY method and Watch or Alarm: after an accepted cancel no tick starts the body in any "
               "continuation for as long as the cancelled flag stays set (it is cleared only by a covering reset). "
               "(8) End blocks marks, unregisters and removes from the interrupt map every registered Watch/Alarm below "
               "EVERY block it ends; a block outside every Alarm (no Call macro) that has ended stays ended in every "
               "continuation and no node below it is entered by any generator. (9) a Watch outside every Alarm and "
               "every Block (no Call macro) is registered at most once over a whole run (registration budget never "
               "grows), so at most one generator is ever created for it and that one starts the body at most once. "
               "The model is tied to the real PInterpreter by differential execution (per-tick flags, events incl. "
               "scope_activate = body start, interrupt map).",
    level_note="PARTIAL where stated: 'at most once' is proved per registration (per interrupt generator) under the decidable "
               "hypotheses noCalls (no Call macro) and ordered (tree numbering); the literal reading 'a Watch body starts at "
               "most once per run' is kept as C04_full and refuted by a Watch inside an Alarm (every Alarm run declares the "
               "Watch anew; by design) - C04_counterexample. The whole-run 'never after cancel' theorem needs `stable` (no Call "
               "macro, Watch not inside an Alarm: no reset can clear the flag); for the other nodes only the per-step guards "
               "(cancelled_blocks_activation, cancelled_sticks with the two reset exceptions) are proved. The block-end clause is "
               "proved at the level of body instructions (no node below an ended stable block is ever entered again); at "
               "node level it is FALSE of the code as it is - C04_blockend_full / C04_blockend_counterexample, known finding "
               "'registered-again-around-block-end': a Watch/Alarm whose handler is still served in the tick its block ends "
               "registers itself again (handlers are served from a per-tick snapshot), is activated and reported "
               "Started/Completed after the block ended although no instruction of its body runs; the oracle reports it under "
               "that key only when a generator was registered for the node within [end-2, end+1] ticks, anything else is a "
               "violation. Registered-at-most-once needs noBlockAbove for the same reason (the witness registers twice). Not "
               "proved: that no generator other than the registered one starts a Watch's body (whole-run `bodyStarts <= 1` "
               "even for a top-level Watch needs the global visited-once invariant), and 'never after cancel' for a cancelled "
               "Alarm beyond 'until reset' (its own re-arm is the reset). 'Body runs' is read as: an "
               "instruction of the body starts. A Watch whose generator re-registers itself in the tick its block is ended "
               "still gets a 'Started'/'Completed' run-log entry afterwards although no instruction of its body runs "
               "(observed, reported, not counted as a violation). Trusted: Lean kernel, the correspondence harness, the "
               "model's inputs (clock tags, condition tags as integers, command completion).",
    technique="Lean 4 proof (per-micro-step guard lemmas by exhaustive case split of the step function, lifted through "
              "stepGen/runGen; stack-shape invariant for once-per-generator) + differential correspondence + engine oracle",
)
MODULE = "OPM.Properties.C04"
REQUIRED = [
    "OPM.C04.activation_guard", "OPM.C04.requests_do_not_activate", "OPM.C04.forced_and_cancelled_only_by_request",
    "OPM.C04.body_start_only_at_invocation", "OPM.C04.body_starts_only_if_activated_before",
    "OPM.C04.cancel_accepted_only_before_activation", "OPM.C04.cancelled_blocks_activation", "OPM.C04.cancelled_sticks",
    "OPM.C04.cancelled_body_never_starts", "OPM.C04.C04_partial_once_per_registration", "OPM.C04.alarm_rearms",
    "OPM.C04.run_count_changes_only_at_rearm", "OPM.C04.no_entry_into_ended_block",
    "OPM.C04.endBlock_aborts_interrupts", "OPM.C04.tick_keeps_only_registered", "OPM.C04.C04_counterexample",
    "OPM.C04.scope_activate_matches_body_start", "OPM.C04.reachable_allQuiet",
    "OPM.C04.tick_starts_body_only_if_condition_or_force", "OPM.C04.tick_cancelled_never_starts",
    "OPM.C04.cancelled_watch_never_runs",
    "OPM.C04.endBlocks_aborts_interrupts", "OPM.C04.ended_block_stays_closed",
    "OPM.C04.cancelled_never_runs_until_reset", "OPM.C04.watch_registered_at_most_once",
    "OPM.C04.C04_blockend_counterexample",
]
COND_OPS = {"<": lambda a, b: a < b, "<=": lambda a, b: a <= b, "=": lambda a, b: a == b, "==": lambda a, b: a == b,
            "!=": lambda a, b: a != b, ">": lambda a, b: a > b, ">=": lambda a, b: a >= b}


# ----------------------------------------------------------------------------------------
# property oracle over the real Engine

def _cond_true(arg: str, tags: dict) -> bool | None:
    """Evaluate `T0 > 1` on the tag values the tick saw; None if not of the generated shape."""
    parts = arg.split()
    if len(parts) != 3 or parts[0] not in tags or parts[1] not in COND_OPS:
        return None
    try:
        return COND_OPS[parts[1]](float(tags[parts[0]]), float(parts[2]))
    except (TypeError, ValueError):
        return None


STATS: collections.Counter = collections.Counter()


def oracle_case(case: dict) -> Failure | list[Failure] | None:  # noqa: C901
    """case = {"pcode", "ticks", "plan": [[["tag", name, v] | ["cancel", j] | ["force", j]] per tick]}.
    `j` selects the j-th Watch/Alarm of the method (request sent before the tick)."""
    from harness.engine_run import EngineRun
    pcode = case["pcode"]
    run = EngineRun(pcode)
    try:
        nodes0 = run.snapshot()["nodes"]
        by_id = {n["id"]: n for n in nodes0}

        def ancestors(nid):
            out = []
            n = by_id[nid]
            while n["parent"] is not None:
                n = by_id[n["parent"]]
                out.append(n)
            return out
        conds = [n for n in nodes0 if n["cls"] in ("WatchNode", "AlarmNode")]
        if not conds:
            return None
        # Nodes whose flags can be reset from outside (inside an Alarm or a Macro body): their orphaned generators
        # keep running over the reset flags, so "armed since" is not observable from outside; for them the oracle
        # only demands that the condition was true on some earlier-or-same tick (or the node was forced).
        resettable = {n["id"] for n in nodes0
                      if any(a["cls"] in ("AlarmNode", "MacroNode") for a in ancestors(n["id"]))}
        has_calls = False   # (a Call macro only runs the macro body, whose nodes are `resettable` already)
        # the body of w: the instructions under it whose nearest enclosing Watch/Alarm is w (a nested Watch/Alarm is
        # declared by w's body but runs its own body as an interrupt of its own)
        def nearest_cond(nid):
            return next((a["id"] for a in ancestors(nid) if a["cls"] in ("WatchNode", "AlarmNode")), None)
        body = {w["id"]: [n for n in nodes0 if nearest_cond(n["id"]) == w["id"]] for w in conds}
        blocks_above = {w["id"]: [a for a in ancestors(w["id"]) if a["cls"] == "BlockNode"] for w in conds}
        st = {w["id"]: dict(starts=0, true_since=False, forced_seen=False, cancelled_at=None, prev_states=0,
                            completions=0, first_reg=None, rearm_ticks=[]) for w in conds}
        block_ended_at: dict[str, int] = {}
        known_hits: list[Failure] = []
        prev = {n["id"]: n for n in nodes0}
        prev_mark = ""
        ri = lambda: run.engine.interpreter.runtimeinfo  # noqa: E731

        def record_of(nid):
            return ri().get_record_by_node(nid)

        for t in range(case["ticks"]):
            accepted_cancel = []
            accepted_force = []
            for op in (case["plan"][t] if t < len(case["plan"]) else []):
                if op[0] == "tag":
                    run.set_tag(op[1], op[2])
                elif op[0] in ("cancelall", "cancelitems"):
                    # exactly what the frontend can do: a cancel request for a run-log item id.  Tried on every item
                    # (`cancelall`) or every item of the j-th Watch/Alarm (`cancelitems`), offered as cancellable or not.
                    try:
                        items = list(run.engine.tracking.get_runlog().items)
                    except Exception:
                        items = []
                    only = conds[op[1] % len(conds)]["id"] if op[0] == "cancelitems" else None
                    for it in reversed(items):
                        rec = run.engine.tracking.get_record_by_instance_id(it.id)
                        nid = rec.node_id if rec is not None else None
                        if only is not None and nid != only:
                            continue
                        r = run.cancel(it.id)
                        STATS["runlog_item_cancel_" + ("accepted" if r == "ok" else "rejected")] += 1
                        if r == "ok" and nid in st:
                            accepted_cancel.append(nid)
                            if not it.cancellable:
                                STATS["accepted_cancel_on_item_not_offered"] += 1
                else:
                    w = conds[op[1] % len(conds)]
                    rec = record_of(w["id"])
                    if rec is None or not rec.states:
                        continue
                    iid = getattr(rec, "last_instance_id", None) or rec.states[-1].instance_id
                    r = run.cancel(iid) if op[0] == "cancel" else run.force(iid)
                    STATS[op[0] + "_" + ("accepted" if r == "ok" else "rejected")] += 1
                    if r == "ok" and op[0] == "cancel":
                        accepted_cancel.append(w["id"])
                    if r == "ok" and op[0] == "force" and \
                            next(x for x in run.program_nodes() if x.id == w["id"]).forced:
                        accepted_force.append(w["id"])
            snap = run.tick()
            STATS["ticks"] += 1
            if snap["raised"]:
                return None   # C13's business
            now = {n["id"]: n for n in snap["nodes"]}
            tags = snap["tags"]
            mark = str(tags.get("Mark") or "")
            new_marks = mark[len(prev_mark):].replace(";", " ").split() if mark.startswith(prev_mark) else []
            for b in [n for n in snap["nodes"] if n["cls"] == "BlockNode"]:
                if b["ended"] and b["id"] not in block_ended_at:
                    block_ended_at[b["id"]] = t
                    STATS["blocks_ended"] += 1
            for w in conds:
                wid = w["id"]
                s = st[wid]
                n, pn = now[wid], prev[wid]
                rec = record_of(wid)
                states = [str(x.state_name) for x in rec.states] if rec is not None else []
                new_states = states[s["prev_states"]:]
                s["prev_states"] = len(states)
                started_now = new_states.count("started")
                if (wid in resettable or has_calls) and _cond_true(w["arg"], tags):
                    # orphaned generators of a node inside an Alarm/Macro can activate and start it within one tick
                    s["true_since"] = True
                fixed = wid not in resettable and not has_calls   # no reset from outside can clear this node's flags
                # A force counts once: for a node that nothing resets from outside, one accepted force request pays for
                # one body run (the flag itself is not trusted: it must not survive the re-arm).  Nodes inside an
                # Alarm / Macro: the flag, sticky.
                if wid in accepted_force or (not fixed and n["forced"]):
                    s["forced_seen"] = True
                if wid in accepted_cancel and s["cancelled_at"] is None:
                    s["cancelled_at"] = t             # accepted before tick t ran
                if not fixed and s["cancelled_at"] is not None and not n["cancelled"] and not pn["cancelled"]:
                    s["cancelled_at"] = None      # the flag was reset (node inside an Alarm / Macro)
                # -- (a) a body starts only after a tick in which the condition was true, or after force
                if started_now:
                    s["starts"] += started_now
                    STATS["body_starts"] += started_now
                    if s["starts"] > 1:
                        STATS["repeated_starts(alarm or nested)"] += 1
                    if not s["true_since"] and not s["forced_seen"] and not (pn["forced"] and not fixed):
                        return Failure("body-started-without-true-condition", case,
                                       f"tick {t}: {w['name']}: {w['arg']} (line {w['line']}) started its body (run "
                                       f"{s['starts']}) but its condition was not true on any tick since it was armed, and no "
                                       f"force request was accepted for it since then: body runs exceed the number of times "
                                       f"the condition became true plus the number of accepted force requests")
                    # -- (c) not after it was cancelled
                    # An accepted cancel (the request returned without error; the run log shows Cancelled) is final for a
                    # node that nothing resets: no body start in the tick after the request or in any later one.
                    # (Nodes inside an Alarm / Macro: no claim — a covering reset clears the flag while orphaned
                    # generators go on; the Lean theorem has the same hypothesis, `stable`.)
                    if s["cancelled_at"] is not None and fixed and s["cancelled_at"] <= t:
                        return Failure("body-started-after-accepted-cancel", case,
                                       f"tick {t}: {w['name']}: {w['arg']} (line {w['line']}) started its body although a "
                                       f"cancel for it was accepted before tick {s['cancelled_at']}")
                    # -- (b) Watch at most once; Alarm once per activation
                    if w["cls"] == "WatchNode" and wid not in resettable and not has_calls and s["starts"] > 1:
                        return Failure("watch-body-started-twice", case,
                                       f"tick {t}: Watch: {w['arg']} (line {w['line']}) started its body a second time")
                    if started_now > 1 and wid not in resettable and not has_calls:
                        return Failure("body-started-twice-in-one-tick", case,
                                       f"tick {t}: {w['name']}: {w['arg']} (line {w['line']}) started {started_now}x")
                    if w["cls"] == "AlarmNode" and wid not in resettable and not has_calls \
                            and s["starts"] > (n["run_count"] or 0) + 1:
                        return Failure("alarm-started-again-before-completing", case,
                                       f"tick {t}: Alarm: {w['arg']} (line {w['line']}) has {s['starts']} starts but "
                                       f"run_count {n['run_count']}")
                    if wid not in resettable and not has_calls:
                        s["true_since"] = False       # one body run per activation
                        s["forced_seen"] = False
                # the condition as this tick saw it.  Counted only after the start check (a body never starts
                # in the tick that activates it) and only while the node was registered before this tick
                # (a generator evaluates the condition two ticks after its registration at the earliest).
                c = _cond_true(w["arg"], tags)
                if c is None:
                    s["true_since"] = True        # not a generated condition shape: no claim
                elif c and ((n["interrupt_registered"] and pn["interrupt_registered"]) or wid in resettable or has_calls):
                    s["true_since"] = True
                # the Alarm completed a run: it must be armed again
                if w["cls"] == "AlarmNode" and (n["run_count"] or 0) > (pn["run_count"] or 0):
                    if wid not in resettable and not has_calls:
                        s["true_since"] = False
                        s["forced_seen"] = False
                    in_ended = any(now[b["id"]]["ended"] for b in blocks_above[wid])
                    if wid not in resettable and not has_calls and not in_ended:
                        if n["activated"] or not n["interrupt_registered"] or wid not in snap["interrupts"]:
                            return Failure("alarm-not-rearmed-after-run", case,
                                           f"tick {t}: Alarm: {w['arg']} (line {w['line']}) completed run {n['run_count']} "
                                           f"but activated={n['activated']} registered={n['interrupt_registered']}")
                # -- (d0) the Watch/Alarm itself is not activated and not reported Started after a block around it ended
                if (n["interrupt_registered"] and not pn["interrupt_registered"]) or \
                        (n["run_count"] or 0) > (pn["run_count"] or 0):
                    s["rearm_ticks"].append(t)    # ticks in which a (new) generator was registered for the node
                if fixed and (started_now or (n["activated"] and not pn["activated"])):
                    for b in blocks_above[wid]:
                        te = block_ended_at.get(b["id"])
                        if te is None or te >= t or b["id"] in resettable or not prev[b["id"]]["ended"]:
                            continue
                        what = "was reported Started" if started_now else "was activated"
                        # Known defect (findings.d/C04.json): interrupt handlers are served from a per-tick snapshot, so a
                        # Watch/Alarm that still runs in the tick of the End block — at its first dispatch, or an Alarm at
                        # its re-arm — registers itself again after `_abort_block_interrupts`; likewise a Watch that the main
                        # flow had already entered registers one tick after the block ended.
                        # A generator registered at tick r makes its first dispatch at r+1 (registered by the main flow) or
                        # r+2 (registered by an interrupt handler, e.g. the Alarm's own re-arm): window r in [te-2, te+1].
                        race = any(te - 2 <= r <= te + 1 for r in s["rearm_ticks"])
                        key = "registered-again-around-block-end" if race else "watch-or-alarm-active-after-block-ended"
                        STATS[key] += 1
                        f = Failure(key, case,
                                    f"tick {t}: {w['name']}: {w['arg']} (line {w['line']}) {what} although block {b['arg']} "
                                    f"around it ended at tick {te} (generators registered for it at ticks {s['rearm_ticks']})")
                        if not race:
                            return f
                        if not known_hits:
                            known_hits.append(f)     # recorded finding; the other clauses are still judged
                        break
                # -- (c') / (d): no instruction of the body starts after cancel / after the block ended
                for d in body[wid]:
                    dn, dp = now[d["id"]], prev[d["id"]]
                    # (a nested Watch/Alarm sets its own `started` again from its own generator when it re-arms)
                    fresh = dn["started"] and not dp["started"] and d["cls"] not in ("WatchNode", "AlarmNode")
                    effect = d["cls"] == "MarkNode" and d["arg"] in new_marks
                    if not (fresh or effect):
                        continue
                    if s["cancelled_at"] is not None and s["cancelled_at"] <= t and fixed:
                        return Failure("body-instruction-started-after-accepted-cancel", case,
                                       f"tick {t}: line {d['line']} ({d['name']} {d['arg']}) in the body of "
                                       f"{w['name']}: {w['arg']} started although a cancel for the {w['name']} was accepted "
                                       f"before tick {s['cancelled_at']}")
                    for b in blocks_above[wid]:
                        te = block_ended_at.get(b["id"])
                        if te is not None and te < t and b["id"] not in resettable and not has_calls \
                                and prev[b["id"]]["ended"]:
                            return Failure("body-instruction-ran-after-block-ended", case,
                                           f"tick {t}: line {d['line']} ({d['name']} {d['arg']}) in the body of "
                                           f"{w['name']}: {w['arg']} started, block {b['arg']} ended at tick {te}")
            prev = now
            prev_mark = mark
        if "min_starts" in case and st[conds[0]["id"]]["starts"] < case["min_starts"]:
            return Failure("alarm-did-not-run-again", case,
                           f"{conds[0]['name']}: {conds[0]['arg']} started {st[conds[0]['id']]['starts']}x in {case['ticks']} "
                           f"ticks with its condition constantly true; expected >= {case['min_starts']}")
        # every Mark of a Watch body that cannot be reset was set at most once
        final = str(run.snapshot()["tags"].get("Mark") or "").replace(";", " ").split()
        for w in conds:
            if w["cls"] == "WatchNode" and w["id"] not in resettable and not has_calls:
                for d in body[w["id"]]:
                    if d["cls"] == "MarkNode" and final.count(d["arg"]) > 1 and d["id"] not in resettable:
                        return Failure("watch-body-mark-set-twice", case,
                                       f"Mark {d['arg']} (line {d['line']}) of Watch: {w['arg']} appears "
                                       f"{final.count(d['arg'])}x in the Mark tag")
        return known_hits or None
    finally:
        run.close()


def gen_oracle_cases(ctx: Check, n: int) -> list[dict]:
    from harness.interp_c04 import gen_c04_program
    rng = ctx.rng
    out = []
    for i in range(n):
        pcode, stats = gen_c04_program(rng, nested=(i % 5 == 4), max_lines=12, macros=(i % 6 == 5),
                                       alarm_nesting=(i % 4 == 3), malformed=(i % 7 == 6), bad_conditions=(i % 7 == 6))
        if not pcode.startswith("Base"):
            pcode = "Base: s\n" + pcode
        ticks = rng.randrange(30, 70)
        plan = []
        for _ in range(ticks):
            ops = []
            if rng.random() < 0.4:
                ops.append(["tag", f"T{rng.randrange(3)}", rng.randrange(4)])
            x = rng.random()
            if x < 0.03:
                ops.append(["cancelitems", rng.randrange(8)])
            elif x < 0.10:
                ops.append(["cancel", rng.randrange(8)])
            elif x < 0.17:
                ops.append(["force", rng.randrange(8)])
            plan.append(ops)
        out.append({"pcode": pcode, "ticks": ticks, "plan": plan})
        for k, v in stats.items():
            ctx.count("oracle-instr:" + k, v)
    return out


HAND_CASES = [
    # nested blocks, a Watch / Alarm registered in the OUTER block, `End blocks` from the inner block (main flow / a Watch)
    {"pcode": "Block: B1\n    Watch: T0 > 0\n        Mark: x\n        Wait: 1s\n        Mark: y\n    Block: B2\n"
              "        Wait: 1s\n        End blocks\nMark: after\nWait: 5s\n", "ticks": 60, "vary": ("T0", 1, range(2, 40)), "pre": []},
    {"pcode": "Block: B1\n    Alarm: T1 > 0\n        Mark: x\n    Watch: T2 > 0\n        Mark: z\n    Block: B2\n"
              "        Watch: T0 > 0\n            End blocks\n        Wait: 5s\nMark: after\nWait: 5s\n", "ticks": 60,
     "vary": ("T0", 1, range(4, 30)), "pre": [["tag", "T1", 1]], "post": (8, [["tag", "T2", 1]])},
    {"pcode": "Block: B1\n    Watch: T0 > 0\n        Mark: x\n    Block: B2\n        Watch: T0 > 0\n            Mark: y\n"
              "        Block: B3\n            Watch: T0 > 0\n                Mark: z\n            Wait: 0.5s\n"
              "            End blocks\nMark: after\nWait: 5s\n", "ticks": 60, "vary": ("T0", 1, range(2, 40)), "pre": []},
    # a Watch / Alarm declared inside a Watch body: two levels below the block that is ended
    {"pcode": "Block: B\n    Watch: T2 > 0\n        Watch: T0 > 0\n            Mark: x\n        Alarm: T0 > 0\n"
              "            Mark: z\n        Wait: 3s\n    Wait: 1s\n    End block\nMark: after\nWait: 5s\n", "ticks": 60,
     "vary": ("T0", 1, range(6, 40)), "pre": [["tag", "T2", 1]]},
    # a second Watch ends the block while the first one waits / runs, at every offset
    {"pcode": "Base: s\nBlock: B\n    Watch: T0 > 0\n        End block\n    2.0 Watch: T1 > 0\n        Mark: x\n"
              "        Mark: y\n    Wait: 5s\nMark: after\n", "ticks": 60, "vary": ("T0", 1, range(14, 30)), "pre": [["tag", "T1", 1]]},
    {"pcode": "Block: B\n    Watch: T1 > 0\n        Mark: x\n        Wait: 1s\n        Mark: y\n    Watch: T0 > 0\n"
              "        End block\n    Wait: 5s\nMark: after\n", "ticks": 50, "vary": ("T0", 1, range(6, 24)), "pre": [["tag", "T1", 1]]},
    {"pcode": "Block: B\n    Alarm: T1 > 0\n        Mark: x\n        Mark: y\n    Watch: T0 > 0\n"
              "        End blocks\n    Wait: 5s\nMark: after\n", "ticks": 50, "vary": ("T0", 1, range(6, 24)), "pre": [["tag", "T1", 1]]},
]


def hand_cases() -> list[dict]:
    out = []
    for h in HAND_CASES:
        name, v, rng_ = h["vary"]
        for t0 in rng_:
            plan = [[] for _ in range(h["ticks"])]
            plan[1] = list(h["pre"])
            plan[t0] = plan[t0] + [["tag", name, v]]
            if "post" in h:
                plan[t0 + h["post"][0]] = plan[t0 + h["post"][0]] + h["post"][1]
            out.append({"pcode": h["pcode"], "ticks": h["ticks"], "plan": plan})
    # an Alarm whose condition stays true runs again and again (re-armed after each completed run)
    out.append({"pcode": "Base: s\nAlarm: T0 > 0\n    Mark: a\nMark: c\n", "ticks": 40, "plan": [[["tag", "T0", 1]]],
                "min_starts": 4})
    out.append({"pcode": "Base: s\nBlock: B\n    Alarm: T0 > 0\n        Mark: a\n    Wait: 10s\nMark: c\n", "ticks": 40,
                "plan": [[["tag", "T0", 1]]], "min_starts": 4})
    # a cancel request for every run-log item id at every tick from before registration to after the body completed
    for body_ in ("Watch: T0 > 0\n    Mark: a\n    Wait: 0.5s\n    Mark: b\nMark: c\n",
                  "Alarm: T0 > 0\n    Mark: a\n    Wait: 0.5s\n    Mark: b\nMark: c\n",
                  "Block: B\n    Watch: T0 > 0\n        Mark: a\n        Mark: b\n    Wait: 3s\n    End block\nMark: c\n",
                  "1.0 Watch: T0 > 0\n    Mark: a\n    Mark: b\nMark: c\n",
                  "Alarm: T0 > 0\n    Watch: T1 > 0\n        Mark: a\n    Mark: b\n"):
        for t_true in (0, 7):
            for t0 in range(1, 32):
                plan = [[] for _ in range(48)]
                plan[t_true] = [["tag", "T0", 1], ["tag", "T1", 1]]
                plan[t0] = plan[t0] + [["cancelall"]]
                out.append({"pcode": "Base: s\n" + body_, "ticks": 48, "plan": plan})
    # force an awaiting Alarm / Watch whose condition stays FALSE, then keep ticking over several re-arm cycles:
    # exactly one body run per accepted force request
    for pcode in ("Alarm: T0 > 0\n    Mark: a\nMark: c\n", "Alarm: T0 > 0\n    Mark: a\n    Wait: 0.5s\n    Mark: b\nMark: c\n",
                  "Block: B\n    Alarm: T0 > 0\n        Mark: a\n    Wait: 8s\nMark: c\n", "1.0 Alarm: T0 > 0\n    Mark: a\nMark: c\n",
                  "Watch: T0 > 0\n    Mark: a\nMark: c\n", "Alarm: T0 > 0\n    Mark: a\nAlarm: T1 > 0\n    Mark: b\n"):
        for t0 in range(2, 14, 2):
            for again in (None, 25):
                plan = [[] for _ in range(70)]
                plan[t0] = [["force", 0]]
                if again:
                    plan[t0 + again] = [["force", 0], ["force", 1]]
                out.append({"pcode": "Base: s\n" + pcode, "ticks": 70, "plan": plan})
    # cancel / force a waiting Watch and Alarm at every offset, condition true afterwards
    for pcode in ("Watch: T0 > 0\n    Mark: a\n    Mark: b\nMark: c\n", "Alarm: T0 > 0\n    Mark: a\nMark: c\n",
                  "1.0 Watch: T0 > 0\n    Mark: a\nMark: c\n"):
        for req in ("cancel", "force"):
            for t0 in range(1, 10):
                plan = [[] for _ in range(30)]
                plan[t0] = [[req, 0]]
                plan[12] = [["tag", "T0", 1]]
                out.append({"pcode": "Base: s\n" + pcode, "ticks": 30, "plan": plan})
    return out


# ----------------------------------------------------------------------------------------

def _m3(ctx: Check, stream: str, cases: list[dict], count_prefix: str):
    from harness.interp_c04 import run_case
    cache: dict[int, tuple[list[str], list[str]]] = {}

    def both(c):
        if id(c) not in cache:
            try:
                cache[id(c)] = run_case(c)
            except Exception as e:  # the harness could not drive the implementation on this input
                cache[id(c)] = ([], [f"harness-exception:{type(e).__name__}:{e}"])
        return cache[id(c)]

    def nontrivial(c, out):
        return any(" sa:" in o or "|ev=sa:" in o for o in out) or any(o in ("ok", "rejected") and False for o in out)

    impl_out, model_out = ctx.correspond(stream, "Interp", cases, lambda c: both(c)[0], lambda c: both(c)[1],
                                         nontrivial=nontrivial, impl_timeout=60)
    for c, o in zip(cases, impl_out):
        lines = both(c)[0]
        ctx.count(count_prefix + "ticks", sum(1 for x in o if x.startswith("err=")))
        ctx.count(count_prefix + "body_starts", sum(x.count("sa:") for x in o))
        for ln, x in zip(lines, o):
            if ln.startswith(("cancel\t", "force\t")):
                ctx.count(count_prefix + ln.split("\t")[0] + "_" + x)
        if any("imap=" in x and "|imap=|" not in x for x in o):
            ctx.count(count_prefix + "runs_with_interrupt")
        if any(x.startswith("err=1") for x in o):
            ctx.count(count_prefix + "runs_with_interpreter_error")
    return [both(c)[0] for c in cases], impl_out, model_out


def _selftest(ctx: Check, stream: str, all_lines: list[list[str]], model_out: list[list[str]]):
    """A model that loses every cancel/force request must be told apart by the tick observations."""
    from harness.interp_c04 import lost_cancel_lines
    if not model_out:
        return
    mo = drive("Interp", [lost_cancel_lines(ls) for ls in all_lines])
    ticks = lambda out: [x for x in out if x.startswith("err=")]  # noqa: E731
    differing = sum(1 for a, b in zip(model_out, mo) if ticks(a) != ticks(b))
    if differing == 0:
        raise Infra(f"self-test of stream {stream}: a model that loses cancel/force is indistinguishable — harness is blind")
    ctx.extra.setdefault("selftests", []).append(f"{stream}: lost-request mutant differs on {differing} cases")


def run(ctx: Check) -> int:
    from harness.interp_c04 import exhaustive_cases, gen_c04_program, gen_c04_schedule
    ctx.prove(MODULE, REQUIRED)
    rng = ctx.rng
    ctx.rule = ("Streams against the shared M3 driver: (1) Watch/Alarm-heavy generated methods (nesting depth<=3, <=14 lines, "
                "blocks with End block(s), thresholds, waits, UOD commands; every 3rd with macros) x schedules of 15-45 ticks "
                "whose condition tags change on 45% of the ticks, with cancel/force requests aimed at Watch/Alarm nodes "
                "(22%/tick), command completions, and a few requests on arbitrary nodes; every 4th method is a nest of 2-3 Blocks "
                "with Watches/Alarms registered in the outer Blocks (also inside Watch bodies) and End blocks / End block "
                "issued from the innermost one, from the main flow or from a Watch; (2) the same with malformed lines "
                "(bad conditions, unknown tags, bad indentation); (3) exhaustive: 6 fixed methods (Watch; Alarm; two Watches "
                "in a Block, one ending it; Alarm in a Block ended by the main thread; nested Blocks with a Watch in the outer one "
                "and End blocks in the inner one; a Watch declared inside a Watch body inside a Block) x all sequences of length L over "
                "{tick T0/T1 in 00,10,01; cancel; force}. Non-trivial = some Watch/Alarm body started. Oracle stream: "
                "generated and hand-made methods on the real Engine, 30-70 ticks, requests through "
                "Engine.cancel_instruction/force_instruction.")
    cases = [json.loads(p.read_text()) for p in sorted((Path(__file__).parent.parent / "corpus" / "C04").glob("m3-*.json"))]
    for i in range(ctx.n(120, 3000)):
        pcode, stats = gen_c04_program(rng, nested=(i % 4 == 3), macros=(i % 3 == 2))
        cases.append({"pcode": pcode, "ops": gen_c04_schedule(rng, rng.randrange(15, 45))})
        for k, v in stats.items():
            ctx.count("instr:" + k, v)
    lines, _, mo = _m3(ctx, "interp-m3-c04", cases, "")
    _selftest(ctx, "interp-m3-c04", lines, mo)
    bad = []
    for i in range(ctx.n(25, 500)):
        pcode, _ = gen_c04_program(rng, malformed=True, macros=(i % 3 == 2))
        bad.append({"pcode": pcode, "ops": gen_c04_schedule(rng, rng.randrange(10, 30))})
    _m3(ctx, "interp-m3-c04-malformed", bad, "malformed:")
    length = ctx.n(3, 5)
    ex = exhaustive_cases(length, warmup=4)
    ex_lines, _, ex_mo = _m3(ctx, f"interp-m3-c04-exhaustive-len{length}", ex, "exhaustive:")
    _selftest(ctx, f"interp-m3-c04-exhaustive-len{length}", ex_lines, ex_mo)
    ctx.exhaustive = True
    ctx.extra["exhaustive_scope"] = (f"6 methods x all {5 ** length} sequences of length {length} over "
                                     "{tick(T0,T1)=00|10|01, cancel, force} after 4 warm-up ticks, 5 trailing ticks")
    # property oracle on the real engine
    ocases = [json.loads(p.read_text()) for p in sorted((Path(__file__).parent.parent / "corpus" / "C04").glob("oracle-*.json"))]
    ocases += hand_cases()
    ocases += gen_oracle_cases(ctx, ctx.n(60, 4000))
    ctx.monitor(ocases, oracle_case, impl_timeout=60)
    for k, v in STATS.items():
        ctx.count("oracle:" + k, v)
    ctx.assumptions = ["clock tags, condition tags (integers) and command completion are inputs of the model",
                       "ticks run to their EndTicks within the model's micro-step budget (the driver reports `diverged` otherwise)",
                       "once-per-registration: methods without Call macro, nodes numbered in tree order (parser numbering)"]
    return ctx.finish(search=lambda c: c.monitor(gen_oracle_cases(c, c.n(150, 1500)), oracle_case, impl_timeout=60))


def replay(obj) -> int:
    c = obj.get("case", {})
    if "plan" in c:
        f = oracle_case(c)
        fs = f if isinstance(f, list) else ([f] if f else [])
        print(c["pcode"])
        for x in fs:
            print("oracle:", x.key, "|", x.detail)
        if not fs:
            print("oracle: no failure")
        return 1 if fs else 0
    if "ops" in c:
        from harness.interp_c04 import run_case
        lines, outs = run_case(c)
        mo = drive("Interp", [lines])[0]
        print(c["pcode"])
        for ln, a, b in zip(lines, outs, mo):
            if a != b:
                print("op   ", ln)
                print("impl ", a)
                print("model", b)
                return 1
        print("implementation and model agree on", len(lines), "lines")
        return 0
    print(obj)
    return 0
