"""C31 Method saves use optimistic concurrency without lost updates.

Proof half: OPM.Properties.C31 — transition system of `FromFrontend.save_method` at await granularity, in two
variants: without a lock the statement is false (decided two-save witness), with a per-engine lock held from the
version check across the engine round trip to the commit it holds for every schedule of any number of saves
(invariant + induction over reachability).  `OPM.Gen.SaveLock` (regenerated from the source on every run by
harness/translators/save_lock.py) says which variant the code is; `code_holds_lock` is re-checked against it.

Tie half (trace validation): the real route function `routers.process_unit.save_method` -> `FromFrontend.save_method`
runs on an asyncio loop the harness steps by hand, against a dispatcher whose `rpc_call` suspends until the schedule
answers it.  Every interleaving of 2 and 3 concurrent saves (all base versions around the current one, ok / error
answers) is enumerated; after every event the observable state (method version, whose content is stored, pending
round trips, blocked requests, accepted saves, messages the engine got, results) is compared with the model.
"""
from __future__ import annotations

import asyncio
import itertools
import json
from typing import Any
from unittest.mock import AsyncMock, MagicMock

from vp.core import Check, Failure

META = dict(
    level_text="Lean 4 theorems over the transition system of save_method at await granularity: with the per-engine "
               "lock held from the version check across the engine round trip to the commit, for every interleaving of "
               "any number of save requests and engine answers, accepted saves have pairwise distinct base versions, "
               "each was based on the version current when it was accepted and raises the version by exactly one; "
               "without the lock the statement is refuted by a decided two-save schedule. Which system the code is: AST "
               "translator (lock around check, rpc and commit) + trace validation of the real handler under all "
               "interleavings of 2-3 saves on a hand-stepped asyncio loop.",
    level_note="Partial in granularity: atomic steps are the await points of the handler (asyncio cannot preempt "
               "elsewhere); one engine id; the engine's answer is ok/error as scheduled. Trusted: Lean kernel, the "
               "harness (fake dispatcher, manual loop stepping), asyncio.Lock FIFO hand-over (validated differentially).",
    technique="Lean 4 proof (invariant over reachable states, decided counter-schedule for the unlocked system) + "
              "AST lock table + exhaustive-interleaving trace validation",
)
MODULE = "OPM.Properties.C31"
REQUIRED = ["OPM.C31.locked_holds", "OPM.C31.unlocked_violates", "OPM.C31.code_holds_lock", "OPM.C31.c31"]
EID = "pc_uod"
ERR_KINDS = ("internal", "caller", "raise")


# ------------------------------------------------------------------------------------------------
# the real handler on a hand-stepped loop

class SaveHarness:
    """One aggregator with one registered engine whose method is at version v0; a dispatcher whose rpc_call
    suspends on a future until `reply` resolves it."""

    def __init__(self, v0: int):
        import openpectus.aggregator.models as Mdl
        from openpectus.aggregator.aggregator import Aggregator
        self.loop = asyncio.new_event_loop()
        asyncio.set_event_loop(self.loop)
        self.calls: list[tuple[int, int, asyncio.Future]] = []   # (save id, version sent, future)
        h = self

        class Dispatcher:
            async def rpc_call(self, engine_id, message):
                sid = int(message.method.lines[0].content.split()[1])
                fut = h.loop.create_future()
                h.calls.append((sid, message.method.version, fut))
                return await fut

        publisher = MagicMock()
        publisher.publish_method_changed = AsyncMock()
        webpush = MagicMock()
        webpush.publish_message = AsyncMock()
        self.agg = Aggregator(Dispatcher(), publisher, webpush)  # type: ignore[arg-type]
        ed = Mdl.EngineData(engine_id=EID, computer_name="pc", engine_version="0", uod_name="uod", uod_author_name="",
                            uod_author_email="", uod_filename="", location="")
        ed.method = Mdl.Method(lines=[], version=v0, last_author="")
        self.agg._engine_data_map[EID] = ed
        self.started: list[tuple[int, int]] = []                  # (id, base) in start order
        self.results: list[tuple[int, str]] = []                  # (id, outcome) in completion order
        self.tasks: list[asyncio.Task] = []

    def close(self):
        for t in self.tasks:
            t.cancel()
        self._spin(3)
        self.loop.close()

    def _spin(self, n: int):
        async def s():
            for _ in range(n):
                await asyncio.sleep(0)
        self.loop.run_until_complete(s())

    def settle(self):
        self._spin(6 + 3 * len(self.started))

    async def _runner(self, sid: int, base: int):
        import openpectus.aggregator.routers.dto as Dto
        from openpectus.aggregator.routers import process_unit
        try:
            r = await process_unit.save_method(
                user_name=f"u{sid}", user_id=f"id{sid}", user_roles=set(), unit_id=EID,
                method_dto=Dto.Method(lines=[Dto.MethodLine(id="l1", content=f"save {sid}")], version=base,
                                      last_author=""),
                agg=self.agg)
            self.results.append((sid, f"ok{r.version}"))
        except asyncio.CancelledError:
            raise
        except Exception:
            # rejected = refused before anything was sent to the engine; err = the round trip failed
            sent = any(c[0] == sid for c in self.calls)
            self.results.append((sid, "err" if sent else "rej"))

    def start(self, sid: int, base: int):
        self.started.append((sid, base))
        self.tasks.append(self.loop.create_task(self._runner(sid, base)))
        self.settle()

    def pending(self) -> list[int]:
        return [c[0] for c in self.calls if not c[2].done()]

    def reply(self, sid: int, kind: str):
        import openpectus.protocol.aggregator_messages as AM
        import openpectus.protocol.messages as M
        from openpectus.protocol.exceptions import ProtocolException
        fut = next(c[2] for c in self.calls if c[0] == sid and not c[2].done())
        if kind == "ok":
            fut.set_result(AM.SuccessMessage())
        elif kind == "internal":
            fut.set_result(M.ErrorMessage(message="engine failed"))
        elif kind == "caller":
            fut.set_result(M.ErrorMessage(message="bad method", caller_error=True))
        else:
            fut.set_exception(ProtocolException("Error in rpc call"))
        self.settle()

    # -- observation
    def version(self) -> int:
        return self.agg._engine_data_map[EID].method.version

    def observe(self) -> str:
        m = self.agg._engine_data_map[EID].method
        owner = "-"
        if m.lines and m.lines[0].content.startswith("save "):
            owner = m.lines[0].content.split()[1]
        done = {r[0] for r in self.results}
        pend = self.pending()
        blocked = [i for (i, _) in self.started if i not in done and i not in pend]
        base = dict(self.started)
        acc = [f"{i}:{base[i]}" for (i, o) in self.results if o.startswith("ok")]

        def nl(xs):
            return ",".join(str(x) for x in xs) if xs else "-"

        def sl(xs):
            return ";".join(xs) if xs else "-"
        return (f"v={m.version} owner={owner} await={nl(pend)} wait={nl(blocked)} acc={sl(acc)} "
                f"eng={nl([c[1] for c in self.calls])} res={sl([f'{i}:{o}' for (i, o) in self.results])}")


def run_case(case: dict) -> tuple[list[str], list[dict]]:
    """Execute one schedule on the real handler. Returns (canonical lines, per-event facts for the oracle)."""
    h = SaveHarness(case["v0"])
    try:
        out = [h.observe()]
        facts = []
        for ev in case["events"]:
            v_before, n_before = h.version(), len(h.results)
            if ev[0] == "start" and ev[1] not in {i for (i, _) in h.started}:
                h.start(ev[1], ev[2])
            elif ev[0] == "reply" and ev[1] in h.pending():
                h.reply(ev[1], ev[2])
            else:                      # the event is not enabled here (e.g. answer to a request that is still blocked)
                out.append("bad-op")
                continue
            out.append(h.observe())
            facts.append({"ev": ev, "v_before": v_before, "v_after": h.version(), "new": h.results[n_before:]})
        return out, facts
    finally:
        h.close()


def case_lines(case: dict, mutant: bool = False) -> list[str]:
    ls = [f"{'initm' if mutant else 'init'}\t{case['v0']}"]
    for ev in case["events"]:
        if ev[0] == "start":
            ls.append(f"start\t{ev[1]}\t{ev[2]}")
        else:
            ls.append(f"reply\t{ev[1]}\t{1 if ev[2] == 'ok' else 0}")
    return ls


# ------------------------------------------------------------------------------------------------
# schedules

def enumerate_schedules(v0: int, bases: list[int], rng, outcomes=("ok", "err")) -> list[dict]:
    """All maximal schedules of the saves (id i has base bases[i]): DFS over the events the *implementation* has
    enabled (start of a request not yet started; answer to a pending round trip)."""
    leaves: list[dict] = []

    def enabled(events):
        h = SaveHarness(v0)
        try:
            for ev in events:
                (h.start(ev[1], ev[2]) if ev[0] == "start" else h.reply(ev[1], ev[2]))
            started = {i for (i, _) in h.started}
            return [i for i in range(len(bases)) if i not in started], h.pending()
        finally:
            h.close()

    def dfs(events):
        unstarted, pend = enabled(events)
        if not unstarted and not pend:
            leaves.append({"v0": v0, "events": events})
            return
        for i in unstarted:
            dfs(events + [["start", i, bases[i]]])
        for i in pend:
            for o in outcomes:
                kind = "ok" if o == "ok" else rng.choice(ERR_KINDS)
                dfs(events + [["reply", i, kind]])
    dfs([])
    return leaves


def random_schedule(rng, n: int, v0: int) -> dict:
    """Longer random schedule; a request is mostly based on the version current when it enters."""
    h = SaveHarness(v0)
    events = []
    try:
        nxt = 0
        while True:
            pend = h.pending()
            choices = []
            if nxt < n:
                choices += ["start"] * 2
            if pend:
                choices += ["reply"] * 3
            if not choices:
                break
            if rng.choice(choices) == "start":
                cur = h.version()
                base = cur if rng.random() < 0.7 else max(0, cur + rng.choice([-2, -1, 1]))
                ev = ["start", nxt, base]
                h.start(nxt, base)
                nxt += 1
            else:
                i = rng.choice(pend)
                kind = "ok" if rng.random() < 0.75 else rng.choice(ERR_KINDS)
                ev = ["reply", i, kind]
                h.reply(i, kind)
            events.append(ev)
        return {"v0": v0, "events": events}
    finally:
        h.close()


# ------------------------------------------------------------------------------------------------
# property oracle (over what the implementation did; independent of the model)

def oracle(case: dict, facts: list[dict]) -> list[Failure]:
    fails: list[Failure] = []
    base = {ev[1]: ev[2] for ev in case["events"] if ev[0] == "start"}
    accepted: list[tuple[int, int]] = []  # (id, base)
    for f in facts:
        v = f["v_before"]
        oks = [(i, o) for (i, o) in f["new"] if o.startswith("ok")]
        for (i, o) in oks:
            # accepted only if based on the current version …
            if base[i] != v:
                fails.append(Failure("save-accepted-on-stale-version", case,
                                     f"save {i} based on version {base[i]} was accepted when the method version was {v}"))
            # … and each accepted save increases the version by exactly one
            if f["v_after"] != v + 1 or len(oks) > 1:
                fails.append(Failure("accepted-save-did-not-increase-version-by-one", case,
                                     f"save {i} accepted: version {v} -> {f['v_after']}"))
            accepted.append((i, base[i]))
            v = f["v_after"]
        if not oks and f["v_after"] != f["v_before"]:
            fails.append(Failure("version-changed-without-accepted-save", case,
                                 f"event {f['ev']}: version {f['v_before']} -> {f['v_after']}"))
    by_base: dict[int, list[int]] = {}
    for (i, b) in accepted:
        by_base.setdefault(b, []).append(i)
    for b, ids in sorted(by_base.items()):
        if len(ids) > 1:
            fails.append(Failure("two-saves-on-same-version-both-accepted", case,
                                 f"saves {ids} were all based on version {b} and all accepted"))
    # report the most telling signature first
    fails.sort(key=lambda x: 0 if x.key == "two-saves-on-same-version-both-accepted" else 1)
    return fails


WITNESS = {"v0": 0, "events": [["start", 0, 0], ["start", 1, 0], ["reply", 0, "ok"], ["reply", 1, "ok"]]}


def run(ctx: Check) -> int:
    from harness.translators import save_lock
    from vp.core import load_corpus
    table = save_lock.generate()
    ctx.extra["lock_table"] = table
    ctx.prove(MODULE, REQUIRED)
    rng = ctx.rng

    cases: list[dict] = [WITNESS] + [c for c in load_corpus("C31") if "events" in c]
    v0 = 3
    around = [v0 - 1, v0, v0 + 1]
    for bases in itertools.product(around, repeat=2):                      # all 2-save interleavings
        cases += enumerate_schedules(v0, list(bases), rng)
    for bases in itertools.product(around, repeat=3):                      # all 3-save interleavings
        cases += enumerate_schedules(v0, list(bases), rng)
    if ctx.tier == "thorough":                                              # 4 saves, engine always answers ok
        for bases in [(v0, v0, v0, v0), (v0, v0, v0 + 1, v0 + 1), (v0, v0 + 1, v0, v0 + 2)]:
            cases += enumerate_schedules(v0, list(bases), rng, outcomes=("ok",))
    n_exh = len(cases)
    for _ in range(ctx.n(150, 3000)):                                       # longer random schedules
        cases.append(random_schedule(rng, rng.randrange(2, 7), rng.randrange(0, 5)))
    ctx.extra["schedules"] = {"exhaustive_small_scopes": n_exh, "random_longer": len(cases) - n_exh}
    ctx.rule = ("schedules = event lists over {start(id, base), reply(id, ok|internal error|caller error|exception)}; "
                "every maximal interleaving of 2 saves (bases in {v-1,v,v+1}^2) and of 3 saves (bases in {v-1,v,v+1}^3; "
                "thorough: also 4 saves on three base vectors with ok answers), enumerated over the events the real "
                "handler has enabled; plus random schedules of 2-6 saves mostly based on the then-current version. "
                "Non-trivial = at least two saves overlap (a save enters while another one is in its round trip).")

    facts_of: dict[int, list[dict]] = {}

    def impl(c):
        out, facts = run_case(c)
        facts_of[id(c)] = facts
        return out

    def overlap(c, out):
        return any(" await=" in ln and "await=-" not in ln and ev[0] == "start"
                   for ln, ev in zip(out, c["events"]))

    impl_out, model_out = ctx.correspond("save-schedules", "SaveConc", cases, case_lines, impl, nontrivial=overlap)
    if model_out:
        ctx.selftest("save-schedules", "SaveConc", cases, lambda c: case_lines(c, mutant=True), model_out)
    for c, out in zip(cases, impl_out):
        n = sum(1 for e in c["events"] if e[0] == "start")
        ctx.count(f"saves={n}")
        ctx.count("overlapping" if overlap(c, out) else "sequential")
        for e in c["events"]:
            if e[0] == "reply":
                ctx.count("reply=" + e[2])
        last = next((ln for ln in reversed(out) if " acc=" in ln), "")
        acc = last.split(" acc=")[1].split(" ")[0] if last else "-"
        ctx.count("accepted=" + str(0 if acc == "-" else acc.count(":")))

    # property oracle on every executed schedule
    for c in cases:
        for f in oracle(c, facts_of.get(id(c), []))[:1]:
            ctx.fail(f)
    ctx.exhaustive = True
    ctx.assumptions = ["atomic steps are the await points of save_method (asyncio does not preempt elsewhere)",
                       "one engine id; the engine's answer is what the schedule says (ok / ErrorMessage / exception)",
                       "exhaustive for 2 and 3 saves with bases within one of the current version; longer schedules are sampled"]
    return ctx.finish()


def replay(obj) -> int:
    case = obj.get("case", obj)
    out, facts = run_case(case)
    for ln, ev in zip(out, [["init", case["v0"]]] + case["events"]):
        print(f"{ev!s:32} {ln}")
    fs = oracle(case, facts)
    for f in fs:
        print("ORACLE:", f.key, "-", f.detail)
    print(json.dumps({"violates": bool(fs)}))
    return 1 if fs else 0
