"""C31 Method saves use optimistic concurrency without lost updates.

Proof half: OPM.Properties.C31 — transition system of `FromFrontend.save_method` at await granularity together with
engine disconnect / re-registration, in variants (lock across the round trip or not; method version reset to 0 on
re-registration or continued): the statement holds for every schedule of any number of saves, engine answers,
disconnects and re-registrations in the variant (locked, version continues) — invariant + induction over
reachability — and is refuted by a decided schedule for each of the two defects.  `OPM.Gen.SaveLock` (regenerated
from the source on every run by harness/translators/save_lock.py) says whether one lock spans a version check, the
round trip and the commit; `code_holds_lock` is re-checked against it.

Tie half (trace validation): the real route function `routers.process_unit.save_method` -> `FromFrontend.save_method`
and the real `AggregatorMessageHandlers` (registration, disconnect) run on an asyncio loop the harness steps by hand,
against a dispatcher whose `rpc_call` suspends until the schedule answers it.  Which variant the code is, is
*measured* by three probes on the real handlers (so a refactoring the AST translator does not understand cannot make the
model diverge from correct code).  Every interleaving of 2 and 3 concurrent saves (all base versions around the
current one, ok / error answers), and of 2 saves with an engine disconnect + re-registration at every point, is
enumerated; after every event the observable state (registered, method version, whose content is stored, pending round
trips, blocked requests, accepted saves, messages the engine got, results) is compared with the model.
"""
from __future__ import annotations

import asyncio
import itertools
import json
from unittest.mock import AsyncMock, MagicMock

from vp.core import Check, Failure

META = dict(
    level_text="Lean 4 theorems over the transition system of save_method at await granularity with engine disconnect "
               "and re-registration: with the per-engine lock held from the version check across the engine round trip "
               "to the commit and a method version that continues across re-registration, for every interleaving of any "
               "number of save requests, engine answers, disconnects and re-registrations, accepted saves have pairwise "
               "distinct base versions, each was based on the version current when it was accepted and raises the "
               "version by exactly one, and the version never falls; without the lock, or with the version reset to 0 "
               "on re-registration, the statement is refuted by a decided schedule. Which system the code is: three "
               "behavioural probes + AST translator (lock around a check, the rpc and the commit) + trace validation of "
               "the real handlers under all interleavings of 2-3 saves (and 2 saves with a reconnect) on a hand-stepped "
               "asyncio loop.",
    level_note="Partial in granularity: atomic steps are the await points of the handler (asyncio cannot preempt "
               "elsewhere); the arrival of the engine's answer and the commit are one step (a disconnect squeezed in "
               "between — `engine_data is None` at the commit: the save is answered as accepted and nothing is stored — "
               "is not modelled); a round trip in flight when the connection drops can only fail afterwards; one "
               "engine id; one aggregator process (a restarted aggregator starts every method at version 0 again); the "
               "engine's MethodMsg after re-registration replaces the lines without changing the version and is covered "
               "by the version step of the re-registration itself. Trusted: Lean kernel, the harness (fake dispatcher, "
               "manual loop stepping), asyncio.Lock FIFO hand-over (validated differentially).",
    technique="Lean 4 proof (invariant over reachable states, decided counter-schedules for the two defective systems) "
              "+ behavioural probes + AST lock table + exhaustive-interleaving trace validation",
)
MODULE = "OPM.Properties.C31"
REQUIRED = ["OPM.C31.locked_holds", "OPM.C31.unlocked_violates", "OPM.C31.version_reset_violates",
            "OPM.C31.code_holds_lock", "OPM.C31.c31"]
ERR_KINDS = ("internal", "caller", "raise")
_db_ready = False


# ------------------------------------------------------------------------------------------------
# the real handlers on a hand-stepped loop

class SaveHarness:
    """One aggregator with one engine, registered through the real message handlers, whose method is at version v0; a
    dispatcher whose rpc_call suspends on a future until `reply` resolves it."""

    def __init__(self, v0: int):
        global _db_ready
        import openpectus.aggregator.data.models as DMdl
        import openpectus.aggregator.models as Mdl
        from openpectus.aggregator.aggregator import Aggregator
        from openpectus.aggregator.aggregator_message_handlers import AggregatorMessageHandlers
        from openpectus.aggregator.data import database
        if not _db_ready:                       # engine_disconnected stores a RecentEngines row
            database.configure_db("sqlite:///:memory:")
            DMdl.DBModel.metadata.create_all(database._engine)  # type: ignore[arg-type]
            _db_ready = True
        self.loop = asyncio.new_event_loop()
        asyncio.set_event_loop(self.loop)
        self.calls: list[tuple[int, int, asyncio.Future]] = []   # (save id, version sent, future)
        self.doomed: set[int] = set()                             # round trips in flight when the connection dropped
        h = self

        class Dispatcher:
            async def rpc_call(self, engine_id, message):
                sid = int(message.method.last_author[1:])      # the save is identified by its author "u<id>"
                fut = h.loop.create_future()
                h.calls.append((sid, message.method.version, fut))
                return await fut

            def has_connected_engine_id(self, engine_id):
                return False

            def __getattr__(self, name):        # set_*_handler of the real dispatcher
                if name.startswith("set_"):
                    return lambda *a, **k: None
                raise AttributeError(name)

        publisher = MagicMock()
        for name in ("publish_method_changed", "publish_control_state_changed", "publish_process_units_changed"):
            setattr(publisher, name, AsyncMock())
        webpush = MagicMock()
        webpush.publish_message = AsyncMock()
        self.agg = Aggregator(Dispatcher(), publisher, webpush)  # type: ignore[arg-type]
        self.handlers = AggregatorMessageHandlers(self.agg)
        self.eid = self.agg.create_engine_id(self._register_msg())
        self.started: list[tuple[int, int]] = []                  # (id, base) in start order
        self.results: list[tuple[int, str]] = []                  # (id, outcome) in completion order
        self.tasks: list[asyncio.Task] = []
        self.register()
        self.agg._engine_data_map[self.eid].method = Mdl.Method(
            lines=[Mdl.MethodLine(id="l1", content="content 0")], version=v0, last_author="")

    def _register_msg(self):
        import openpectus.protocol.engine_messages as EM
        from openpectus import __version__
        return EM.RegisterEngineMsg(computer_name="pc", uod_name="uod", uod_author_name="", uod_author_email="",
                                    uod_filename="", location="", engine_version=__version__)

    def close(self):
        for t in self.tasks:
            t.cancel()
        self._spin(3)
        self.loop.close()

    def _spin(self, n: int):
        async def s():
            for _ in range(n):
                await asyncio.sleep(0)
        self.loop.run_until_complete(s())

    def settle(self):
        self._spin(6 + 3 * len(self.started))

    def registered(self) -> bool:
        return self.agg.get_registered_engine_data(self.eid) is not None

    def register(self):
        rep = self.loop.run_until_complete(self.handlers.handle_RegisterEngineMsg(self._register_msg()))
        assert rep.success
        self.settle()

    def disconnect(self):
        self.doomed |= set(self.pending())
        self.loop.run_until_complete(self.handlers.handle_EngineDisconnected(self.eid))
        self.settle()

    async def _runner(self, sid: int, base: int, content: int = 0):
        import openpectus.aggregator.routers.dto as Dto
        from openpectus.aggregator.routers import process_unit
        try:
            r = await process_unit.save_method(
                user_name=f"u{sid}", user_id=f"id{sid}", user_roles=set(), unit_id=self.eid,
                method_dto=Dto.Method(lines=[Dto.MethodLine(id="l1", content=f"content {content}")], version=base,
                                      last_author=""),
                agg=self.agg)
            self.results.append((sid, f"ok{r.version}"))
        except asyncio.CancelledError:
            raise
        except Exception:
            # rejected = refused before anything was sent to the engine; err = the round trip failed
            sent = any(c[0] == sid for c in self.calls)
            self.results.append((sid, "err" if sent else "rej"))

    def start(self, sid: int, base: int, content: int = 0):
        self.started.append((sid, base))
        self.tasks.append(self.loop.create_task(self._runner(sid, base, content)))
        self.settle()

    def pending(self) -> list[int]:
        return [c[0] for c in self.calls if not c[2].done()]

    def reply(self, sid: int, kind: str):
        import openpectus.protocol.aggregator_messages as AM
        import openpectus.protocol.messages as M
        from openpectus.protocol.exceptions import ProtocolException
        fut = next(c[2] for c in self.calls if c[0] == sid and not c[2].done())
        if kind == "ok":
            fut.set_result(AM.SuccessMessage())
        elif kind == "internal":
            fut.set_result(M.ErrorMessage(message="engine failed"))
        elif kind == "caller":
            fut.set_result(M.ErrorMessage(message="bad method", caller_error=True))
        else:
            fut.set_exception(ProtocolException("Error in rpc call"))
        self.doomed.discard(sid)
        self.settle()

    def engine_method(self, v: int, content: int):
        """EM.MethodMsg: the engine sends the method it holds (its catch-up after a reconnect)."""
        import openpectus.protocol.engine_messages as EM
        import openpectus.protocol.models as PM
        m = PM.Method(version=v, lines=[PM.MethodLine(id="l1", content=f"content {content}"),
                                        PM.MethodLine(id="l2", content="")])
        self.loop.run_until_complete(self.handlers.handle_MethodMsg(EM.MethodMsg(engine_id=self.eid, method=m)))
        self.settle()

    def read(self) -> int | None:
        """A client reads the method through the route; the version number it is handed."""
        from openpectus.aggregator.routers import process_unit
        try:
            return process_unit.get_method(user_roles=set(), unit_id=self.eid, agg=self.agg).version
        except Exception:
            return None

    def enabled(self, ev: list) -> bool:
        if ev[0] == "start":
            return ev[1] not in {i for (i, _) in self.started}
        if ev[0] == "reply":
            # a round trip that was in flight when the connection dropped cannot succeed any more
            return ev[1] in self.pending() and not (ev[2] == "ok" and (ev[1] in self.doomed or not self.registered()))
        if ev[0] == "disconnect":
            return self.registered()
        if ev[0] == "register":
            return not self.registered()
        if ev[0] == "emethod":
            return self.registered()
        if ev[0] == "read":
            return True
        return False

    def apply(self, ev: list) -> None:
        if ev[0] == "start":
            self.start(ev[1], ev[2], ev[3] if len(ev) > 3 else 0)
        elif ev[0] == "reply":
            self.reply(ev[1], ev[2])
        elif ev[0] == "disconnect":
            self.disconnect()
        elif ev[0] == "emethod":
            self.engine_method(ev[1], ev[2])
        elif ev[0] == "read":
            self.read()
        else:
            self.register()

    # -- observation
    def version(self) -> int | None:
        ed = self.agg.get_registered_engine_data(self.eid)
        return None if ed is None else ed.method.version

    def observe(self) -> str:
        ed = self.agg.get_registered_engine_data(self.eid)
        owner, content = "-", "-"
        if ed is not None and ed.method.last_author.startswith("u"):
            owner = ed.method.last_author[1:]
        if ed is not None and ed.method.lines and ed.method.lines[0].content.startswith("content "):
            content = ed.method.lines[0].content.split()[1]
        done = {r[0] for r in self.results}
        pend = self.pending()
        blocked = [i for (i, _) in self.started if i not in done and i not in pend]
        base = dict(self.started)
        acc = [f"{i}:{base[i]}" for (i, o) in self.results if o.startswith("ok")]

        def nl(xs):
            return ",".join(str(x) for x in xs) if xs else "-"

        def sl(xs):
            return ";".join(xs) if xs else "-"
        return (f"v={'-' if ed is None else ed.method.version} owner={owner} c={content} await={nl(pend)} wait={nl(blocked)} "
                f"acc={sl(acc)} eng={nl([c[1] for c in self.calls])} res={sl([f'{i}:{o}' for (i, o) in self.results])}")


def probe() -> tuple[bool, bool, bool, bool]:
    """Measure which system the code is: (a second save entering during the first one's round trip is held back,
    the method version after a disconnect + re-registration is 0 again, a save on a stale version entering during a
    round trip is refused at once instead of waiting for the lock, the engine's MethodMsg changes the version)."""
    h = SaveHarness(3)
    try:
        h.start(0, 3, 1)
        h.start(1, 3, 2)
        locked = 1 not in h.pending() and not any(i == 1 for (i, _) in h.results)
        h.start(2, 2, 3)
        precheck = locked and any(i == 2 for (i, _) in h.results)
    finally:
        h.close()
    h = SaveHarness(3)
    try:
        h.start(0, 3, 1)
        if 0 in h.pending():
            h.reply(0, "ok")
        h.disconnect()
        h.register()
        reset = h.version() == 0
        before = h.version()
        h.engine_method(1, 1)                 # the engine's catch-up message with an old version number
        msgver = h.version() != before
    finally:
        h.close()
    return locked, reset, precheck, msgver


def run_case(case: dict) -> tuple[list[str], list[dict]]:
    """Execute one schedule on the real handlers. Returns (canonical lines, per-event facts for the oracle)."""
    h = SaveHarness(case["v0"])
    try:
        out = [h.observe()]
        facts = []
        for ev in case["events"]:
            v_before, n_before = h.version(), len(h.results)
            if not h.enabled(ev):          # e.g. answer to a request that is still blocked
                out.append("bad-op")
                continue
            handed = h.read() if ev[0] == "read" else None
            if ev[0] != "read":
                h.apply(ev)
            out.append(h.observe())
            facts.append({"ev": ev, "v_before": v_before, "v_after": h.version(), "new": h.results[n_before:],
                          "handed": handed})
        return out, facts
    finally:
        h.close()


def case_lines(case: dict, cfg: tuple[bool, bool, bool, bool], mutant: bool = False) -> list[str]:
    ls = [f"{'initm' if mutant else 'init'}\t{case['v0']}\t{int(cfg[0])}\t{int(cfg[1])}\t{int(cfg[2])}\t{int(cfg[3])}"]
    for ev in case["events"]:
        if ev[0] == "start":
            ls.append(f"start\t{ev[1]}\t{ev[2]}\t{ev[3] if len(ev) > 3 else 0}")
        elif ev[0] == "reply":
            ls.append(f"reply\t{ev[1]}\t{1 if ev[2] == 'ok' else 0}")
        elif ev[0] == "emethod":
            ls.append(f"emethod\t{ev[1]}\t{ev[2]}")
        else:
            ls.append(ev[0])           # disconnect / register / read
    return ls


# ------------------------------------------------------------------------------------------------
# schedules

def enumerate_schedules(v0: int, bases: list[int], rng, outcomes=("ok", "err"), reconnects: int = 0,
                        contents: list[int] | None = None) -> list[dict]:
    """All maximal schedules of the saves (id i has base bases[i]) with up to `reconnects` disconnect +
    re-registration cycles: DFS over the events the *implementation* has enabled (start of a request not yet
    started; answer to a pending round trip; disconnect while registered; register while not)."""
    leaves: list[dict] = []
    contents = contents if contents is not None else [i + 1 for i in range(len(bases))]   # default: all different

    def enabled(events):
        h = SaveHarness(v0)
        try:
            for ev in events:
                h.apply(ev)
            started = {i for (i, _) in h.started}
            return ([i for i in range(len(bases)) if i not in started], h.pending(), set(h.doomed), h.registered())
        finally:
            h.close()

    def dfs(events):
        unstarted, pend, doomed, reg = enabled(events)
        used = sum(1 for e in events if e[0] == "disconnect")
        if not unstarted and not pend and reg:
            leaves.append({"v0": v0, "events": events})
            if used >= reconnects:
                return
        for i in unstarted:
            dfs(events + [["start", i, bases[i], contents[i]]])
        for i in pend:
            for o in outcomes:
                if o == "ok" and (i in doomed or not reg):
                    continue
                kind = "ok" if o == "ok" else rng.choice(ERR_KINDS)
                dfs(events + [["reply", i, kind]])
        if reg and used < reconnects and (unstarted or pend or events):
            dfs(events + [["disconnect"]])
        if not reg:
            dfs(events + [["register"]])
    dfs([])
    return leaves


def catchup_schedules(v0: int = 0) -> list[dict]:
    """The engine reconnects and then sends the method it holds (with the version *it* holds, which does not count the
    re-registration); two clients read the method and save what they read.  All 140 interleavings of
    [engine's MethodMsg] with [read C, save C, answer C] and [read D, save D, answer D] after
    `save 0 accepted, disconnect, register`; a save is based on the version number its client was handed."""
    seqs = {"E": ["emethod"], "C": ["read", "start", "reply"], "D": ["read", "start", "reply"]}
    orders = set()

    def gen(prefix, left):
        if not any(left.values()):
            orders.add(tuple(prefix))
            return
        for k in left:
            if left[k]:
                gen(prefix + [(k, left[k][0])], {**left, k: left[k][1:]})
    gen([], seqs)
    out = []
    for order in sorted(orders):
        h = SaveHarness(v0)
        events: list[list] = []
        try:
            def do(ev):
                if h.enabled(ev):
                    h.apply(ev)
                    events.append(ev)
            do(["start", 0, v0, 1])
            do(["reply", 0, "ok"])
            do(["disconnect"])
            do(["register"])
            handed: dict[str, int | None] = {}
            ids = {"C": 1, "D": 2}
            for (who, what) in order:
                if what == "emethod":
                    do(["emethod", v0 + 1, 1])          # what the engine holds: the method of save 0
                elif what == "read":
                    handed[who] = h.read()
                    events.append(["read", ids[who]])
                elif what == "start":
                    if handed.get(who) is not None:
                        do(["start", ids[who], handed[who], ids[who] + 1, ids[who]])
                else:
                    do(["reply", ids[who], "ok"])
            while h.pending():                             # answers that were not deliverable where the order had them
                do(["reply", h.pending()[0], "ok"])
        finally:
            h.close()
        out.append({"v0": v0, "events": events})
    return out


def random_schedule(rng, n: int, v0: int) -> dict:
    """Longer random schedule; a request is mostly based on the version current when it enters; the engine drops and
    comes back now and then."""
    h = SaveHarness(v0)
    events = []
    try:
        nxt = 0
        last_version = v0
        while True:
            pend = h.pending()
            reg = h.registered()
            choices = []
            if nxt < n:
                choices += ["start"] * 3
            if pend:
                choices += ["reply"] * 4
            if reg and (nxt < n or pend):
                choices += ["disconnect"]
            if not reg:
                choices += ["register"] * 3
            if reg and events and events[-1][0] in ("register", "emethod") and len(events) < 40:
                choices += ["emethod"] * 2
            if not choices:
                break
            c = rng.choice(choices)
            if c == "start":
                cur = h.version()
                cur = last_version if cur is None else cur
                base = cur if rng.random() < 0.6 else max(0, cur + rng.choice([-2, -1, 1, 0 - cur]))
                # what the save says: mostly an edit, now and then exactly what the method says already
                same = h.agg.get_registered_engine_data(h.eid)
                cur_c = 0
                if same is not None and same.method.lines and same.method.lines[0].content.startswith("content "):
                    cur_c = int(same.method.lines[0].content.split()[1])
                ev = ["start", nxt, base, cur_c if rng.random() < 0.3 else rng.randrange(0, 4)]
                nxt += 1
            elif c == "reply":
                i = rng.choice(pend)
                ok = rng.random() < 0.75 and i not in h.doomed and reg
                ev = ["reply", i, "ok" if ok else rng.choice(ERR_KINDS)]
            elif c == "emethod":
                ev = ["emethod", max(0, last_version - rng.randrange(0, 3)), rng.randrange(0, 4)]
            else:
                ev = [c]
            h.apply(ev)
            if h.version() is not None:
                last_version = h.version()
            events.append(ev)
        return {"v0": v0, "events": events}
    finally:
        h.close()


# ------------------------------------------------------------------------------------------------
# property oracle (over what the implementation did; independent of the model)

def oracle(case: dict, facts: list[dict]) -> list[Failure]:
    fails: list[Failure] = []
    base = {ev[1]: ev[2] for ev in case["events"] if ev[0] == "start"}
    accepted: list[tuple[int, int]] = []  # (id, base)
    reader_of = {ev[1]: ev[4] for ev in case["events"] if ev[0] == "start" and len(ev) > 4 and ev[4] is not None}
    incarnation = 0                       # the oracle's own count of "the current version number changed"
    handed: dict[int, tuple[int | None, int]] = {}      # reader -> (version number it was handed, incarnation then)
    for f in facts:
        if f["ev"][0] == "read":
            handed[f["ev"][1]] = (f.get("handed"), incarnation)
        for (i, o) in f["new"]:
            # a save made by a client that read the method is acceptable only while the version it was handed is
            # still the current one — the same number coming round again later is a different version
            if o.startswith("ok") and i in reader_of and reader_of[i] in handed \
                    and handed[reader_of[i]][1] != incarnation:
                fails.append(Failure("save-accepted-although-the-version-it-read-was-superseded", case,
                                     f"save {i} was based on version {handed[reader_of[i]][0]} as handed to its client; "
                                     f"the current version changed {incarnation - handed[reader_of[i]][1]} time(s) "
                                     f"since, yet the save was accepted"))
        if f["v_after"] != f["v_before"]:
            incarnation += 1
        v = f["v_before"]
        oks = [(i, o) for (i, o) in f["new"] if o.startswith("ok")]
        for (i, o) in oks:
            # accepted only if based on the current version …
            if base[i] != v:
                fails.append(Failure("save-accepted-on-stale-version", case,
                                     f"save {i} based on version {base[i]} was accepted when the method version was {v}"))
            # … and each accepted save increases the version by exactly one
            if v is None or f["v_after"] != v + 1 or len(oks) > 1:
                fails.append(Failure("accepted-save-did-not-increase-version-by-one", case,
                                     f"save {i} accepted: version {v} -> {f['v_after']}"))
            accepted.append((i, base[i]))
            v = f["v_after"]
        if not oks and f["ev"][0] in ("start", "reply") and f["v_after"] != f["v_before"]:
            fails.append(Failure("version-changed-without-accepted-save", case,
                                 f"event {f['ev']}: version {f['v_before']} -> {f['v_after']}"))
    # of any set of saves based on the same version at most one is accepted — also across an engine reconnect
    by_base: dict[int, list[int]] = {}
    for (i, b) in accepted:
        by_base.setdefault(b, []).append(i)
    for b, ids in sorted(by_base.items()):
        if len(ids) > 1:
            across = any(e[0] == "register" for e in case["events"])
            key = "two-saves-on-same-version-both-accepted" + ("-across-reconnect" if across and _separated(case, ids) else "")
            fails.append(Failure(key, case, f"saves {ids} were all based on version {b} and all accepted"))
    fails.sort(key=lambda x: 0 if x.key.startswith("two-saves-on-same-version-both-accepted") else
               1 if x.key.startswith("save-accepted-although") else 2)
    return fails


def _separated(case: dict, ids: list[int]) -> bool:
    """a re-registration lies between the starts of the first two of these saves"""
    pos = {e[1]: k for k, e in enumerate(case["events"]) if e[0] == "start"}
    a, b = sorted(pos[i] for i in ids[:2])
    return any(e[0] == "register" for e in case["events"][a:b])


WITNESS = {"v0": 0, "events": [["start", 0, 0, 1], ["start", 1, 0, 2], ["reply", 0, "ok"], ["reply", 1, "ok"]]}
RECONNECT_WITNESS = {"v0": 0, "events": [["start", 0, 0, 1], ["reply", 0, "ok"], ["disconnect"], ["register"],
                                         ["start", 1, 0, 2], ["reply", 1, "ok"]]}
# a save that changes nothing (content 0 = what the method says) and an edit, both based on the same version
SAME_CONTENT_WITNESS = {"v0": 3, "events": [["start", 0, 3, 0], ["reply", 0, "ok"], ["start", 1, 3, 2],
                                            ["reply", 1, "ok"]]}


def run(ctx: Check) -> int:
    from harness.translators import save_lock
    from vp.core import load_corpus
    # the regenerated table is shared by every run in this tree: re-check it after the build (a concurrent run on
    # another source tree may have rewritten it) and repeat if it was replaced
    for attempt in range(4):
        table = save_lock.generate()
        expected = save_lock.OUT.read_text()
        ctx.proof_broken.clear()
        ctx.prove(MODULE, REQUIRED)
        if save_lock.OUT.read_text() == expected:
            break
        ctx.notes.append(f"lock table was rewritten by a concurrent run during the build (attempt {attempt + 1})")
    ctx.extra["lock_table"] = table
    cfg = probe()
    ctx.extra["measured_system"] = {"second_save_waits_for_the_first_round_trip": cfg[0],
                                    "version_reset_to_0_on_reregistration": cfg[1],
                                    "stale_save_refused_in_front_of_the_lock": cfg[2],
                                    "engine_method_message_changes_the_version": cfg[3]}
    rng = ctx.rng

    cases: list[dict] = [WITNESS, RECONNECT_WITNESS, SAME_CONTENT_WITNESS] + [c for c in load_corpus("C31") if "events" in c]
    v0 = 3
    around = [v0 - 1, v0, v0 + 1]
    for bases in itertools.product(around, repeat=2):                      # all 2-save interleavings
        cases += enumerate_schedules(v0, list(bases), rng)
    three = list(itertools.product(around, repeat=3)) if ctx.tier == "thorough" else \
        list(itertools.product([v0, v0 + 1], repeat=3)) + [(v0, v0, v0 - 1), (v0 - 1, v0, v0), (v0 - 1, v0 + 1, v0)]
    for bases in three:                                                     # all 3-save interleavings
        cases += enumerate_schedules(v0, list(bases), rng)
    # what the saves say: identical to the current method (0 at the start), identical to each other, different
    n_c0 = len(cases)
    for bases in [(v0, v0), (v0, v0 + 1)]:
        for contents in [(0, 1), (1, 0), (0, 0), (1, 1)]:
            cases += enumerate_schedules(v0, list(bases), rng, contents=list(contents))
    for bases, contents in [((v0, v0 + 1, v0 + 1), (1, 1, 2)), ((v0, v0, v0), (0, 0, 1)), ((v0, v0 + 1, v0 + 1), (0, 0, 0))]:
        cases += enumerate_schedules(v0, list(bases), rng, outcomes=("ok",), contents=list(contents))
    n_content = len(cases) - n_c0
    # 2 saves with one engine disconnect + re-registration at every point; version 0 so that a reset is visible
    rec_bases = list(itertools.product([0, 1, 2], repeat=2)) if ctx.tier == "thorough" else \
        [(0, 0), (0, 1), (0, 2), (1, 0), (1, 2)]
    n_before = len(cases)
    for bases in rec_bases:
        cases += enumerate_schedules(0, list(bases), rng, reconnects=1)
    n_rec = len(cases) - n_before
    n_before = len(cases)
    cases += catchup_schedules(0)             # reconnect, the engine's catch-up MethodMsg, two clients read and save
    n_catchup = len(cases) - n_before
    if ctx.tier == "thorough":                                              # 4 saves, engine always answers ok
        for bases in [(v0, v0, v0, v0), (v0, v0, v0 + 1, v0 + 1), (v0, v0 + 1, v0, v0 + 2)]:
            cases += enumerate_schedules(v0, list(bases), rng, outcomes=("ok",))
        for bases in [(0, 0, 1), (0, 1, 2)]:                                # 3 saves with a reconnect, answers ok
            cases += enumerate_schedules(0, list(bases), rng, outcomes=("ok",), reconnects=1)
    n_exh = len(cases)
    for _ in range(ctx.n(150, 3000)):                                       # longer random schedules
        cases.append(random_schedule(rng, rng.randrange(2, 7), rng.randrange(0, 5)))
    ctx.extra["schedules"] = {"exhaustive_small_scopes": n_exh, "of_which_with_reconnect": n_rec,
                              "of_which_with_unchanged_or_equal_contents": n_content,
                              "of_which_reconnect_catchup_with_readers": n_catchup,
                              "random_longer": len(cases) - n_exh}
    ctx.rule = ("schedules = event lists over {start(id, base, content), reply(id, ok|internal error|caller error|exception), "
                "disconnect, register, engine MethodMsg(version the engine holds, content), read}; all 140 interleavings "
                "of the engine's catch-up MethodMsg after a reconnect with two clients that read the method and save "
                "what they read; every maximal interleaving of 2 saves (bases in {v-1,v,v+1}^2) and of 3 saves "
                "(quick: bases in {v,v+1}^3 and three stale mixes; thorough: {v-1,v,v+1}^3); every interleaving of 2 saves (bases in {0,1,2}, quick: 5 base vectors) with "
                "one engine disconnect + re-registration at every point (thorough: also 4 saves and 3 saves with a "
                "reconnect on selected base vectors with ok answers), enumerated over the events the real handlers have "
                "enabled; saves say different things by default, and for selected base vectors every combination of "
                "'unchanged', 'equal to the other save' and 'different'; plus random schedules of 2-6 saves mostly based on the then-current version with random "
                "reconnects. Non-trivial = at least two saves overlap, or a save is made after a re-registration.")

    facts_of: dict[int, list[dict]] = {}

    def impl(c):
        out, facts = run_case(c)
        facts_of[id(c)] = facts
        return out

    def overlap(c, out):
        return any(" await=" in ln and "await=-" not in ln and ev[0] == "start"
                   for ln, ev in zip(out, c["events"]))

    def after_reconnect(c):
        evs = [e[0] for e in c["events"]]
        return "register" in evs and "start" in evs[evs.index("register"):]

    impl_out, model_out = ctx.correspond("save-schedules", "SaveConc", cases, lambda c: case_lines(c, cfg), impl,
                                         nontrivial=lambda c, o: overlap(c, o) or after_reconnect(c))
    if model_out:
        ctx.selftest("save-schedules", "SaveConc", cases, lambda c: case_lines(c, cfg, mutant=True), model_out)
    for c, out in zip(cases, impl_out):
        n = sum(1 for e in c["events"] if e[0] == "start")
        ctx.count(f"saves={n}")
        ctx.count("overlapping" if overlap(c, out) else "sequential")
        if after_reconnect(c):
            ctx.count("save-after-reconnect")
        if any(e[0] == "start" and len(e) > 3 and f" c={e[3]} " in ln for ln, e in zip(out, c["events"])):
            ctx.count("save-with-unchanged-content")
        for e in c["events"]:
            if e[0] == "reply":
                ctx.count("reply=" + e[2])
            elif e[0] == "disconnect":
                ctx.count("disconnect")
            elif e[0] == "emethod":
                ctx.count("engine-method-message")
        last = next((ln for ln in reversed(out) if " acc=" in ln), "")
        acc = last.split(" acc=")[1].split(" ")[0] if last else "-"
        ctx.count("accepted=" + str(0 if acc == "-" else acc.count(":")))

    # property oracle on every executed schedule
    for c in cases:
        for f in oracle(c, facts_of.get(id(c), []))[:1]:
            ctx.fail(f)
    ctx.exhaustive = True
    ctx.assumptions = ["atomic steps are the await points of save_method (asyncio does not preempt elsewhere); the "
                       "arrival of the engine's answer and the commit are one step",
                       "a round trip that was in flight when the engine's connection dropped ends with an error",
                       "one engine id; one aggregator process; the engine's answer is what the schedule says",
                       "exhaustive for 2 and 3 saves with bases within one of the current version and for 2 saves with "
                       "one reconnect; longer schedules are sampled"]
    return ctx.finish()


def replay(obj) -> int:
    case = obj.get("case", obj)
    out, facts = run_case(case)
    for ln, ev in zip(out, [["init", case["v0"]]] + case["events"]):
        print(f"{ev!s:32} {ln}")
    fs = oracle(case, facts)
    for f in fs:
        print("ORACLE:", f.key, "-", f.detail)
    print(json.dumps({"violates": bool(fs)}))
    return 1 if fs else 0
