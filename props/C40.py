"""C40 Requests from the aggregator apply atomically between ticks.

Proof half: OPM.Properties.C40 — two-thread lock machine over arbitrary state transformers: mutual exclusion of the
tick's critical section and a locked request body in every reachable state; every complete interleaving of a tick
with a locked request equals a serial order (request before tick / tick before request) provided the body commutes
with the tick's unlocked segments; a decided counter-interleaving for an unlocked body; and, over the table
regenerated from engine.py / engine_message_handlers.py by harness/translators/lock_table.py: the execute phase of
`Engine.tick` is under `Engine._lock`, and every request entry point runs its whole body under that lock.

Tie half (trace validation): the real Engine with two real threads (ticking thread, request thread) under a
cooperative scheduler (harness/engine_coop.py: call-boundary wrappers around the sub-calls of `Engine.tick` and of
the request entry points, a scheduler-aware replacement for `engine._lock`; no source edits).  For every schedule
the real trace of (thread, yield label) — including where each thread takes the lock — is compared with the trace
the model predicts from the table, and the final observation is compared with the serial order the model names.
"""
from __future__ import annotations

import json
from typing import Any

from vp.core import Check, Failure, load_corpus

META = dict(
    level_text="Lean 4 theorems over a two-thread lock machine with arbitrary state transformers as segments: mutual "
               "exclusion in all reachable states; every interleaving (at the yield points) of a tick with a request "
               "whose body is a critical section of the tick's lock ends in the state of a serial order, so the "
               "request is neither lost nor torn; decided counter-interleaving for an unlocked request. The lock table "
               "(which sub-calls of Engine.tick and which request entry points run under Engine._lock) is regenerated "
               "from the source on every run and checked with `decide`. Tied to the code by trace validation: real "
               "Engine, two real threads, cooperative scheduler, all interleavings of one or two requests "
               "(edit, inject, control command, cancel, force) with a tick.",
    level_note="Partial: thread switches only at the instrumented yield points (call boundaries of the sub-calls of "
               "Engine.tick and of the request entry points, hardware read/write, every UOD exec function, every "
               "interpreter sub-tick, the sub-steps of a merge; CPython may switch elsewhere); the theorem is for one "
               "tick and one request and assumes the request body commutes with the tick's unlocked prologue "
               "(hardware tick, reading the process image and its error path set_error_state, which the translator "
               "reports as touching attributes the requests touch: not discharged from the source) — two requests and "
               "that assumption are validated by the trace validation only, including ticks whose hardware read fails; tag time stamps are not part of the compared observation.",
    technique="Lean 4 proof (invariant over reachable states of a lock machine) + AST lock table + trace validation "
              "under a deterministic cooperative scheduler",
)
MODULE = "OPM.Properties.C40"
REQUIRED = ["OPM.C40.mutual_exclusion", "OPM.C40.locked_request_serializes", "OPM.C40.unlocked_request_not_serial",
            "OPM.C40.tick_execute_phase_under_lock", "OPM.C40.command_and_write_phase_under_lock",
            "OPM.C40.nested_yield_points", "OPM.C40.every_entry_point_locked", "OPM.C40.c40"]

PROGRAMS = {
    "cmds": "Mark: A\nCmdA\nMark: B\nCmdB\nMark: C\n",
    "stop": "Mark: A\nStop\nMark: B\n",
    "pause": "Mark: A\nPause: 0.5s\nMark: B\nCmdA\n",
    "watch": "Watch: T0 > 0\n    Mark: W\n    CmdA\nMark: A\nWait: 1s\nMark: B\n",
    "block": "Block: B1\n    Mark: A\n    CmdC\n    End block\nMark: B\n",
    "restart": "Mark: A\nRestart\nMark: B\n",
    "long": "CmdC\nWait: 2s\nMark: A\n",     # CmdC executes for 6 ticks: requests can arrive inside its exec function
    # runs on the UOD with two output registers (safe value 0, active value 5): the timed Pause applies the safe values,
    # cancelling it restores the active ones — a request that changes what the write phase writes
    "outputs": "Mark: A\nPause: 60s\nMark: B\n",
}
OUTPUT_PROGRAMS = {"outputs"}
REQUESTS: dict[str, list] = {
    "edit": ["edit", "Mark: Z\n"],            # live edit: the method with one line appended
    "inject-mark": ["inject", "Mark: I\n"],
    "inject-cmd": ["inject", "CmdA\n"],
    "pause": ["user", "Pause"],
    "hold": ["user", "Hold"],
    "stop": ["user", "Stop"],
    "cmdb": ["user", "CmdB"],
    "cancel": ["cancel", "Cmd"],              # the latest run-log item whose name starts with Cmd
    "force": ["force", "Wait"],
    "cancel-pause": ["cancel", "Pause"],      # the run-log item of the method's timed Pause
}
ENTRY = {"edit": "set_method", "inject": "inject_code", "user": "execute_control_command_from_user",
         "cancel": "cancel_instruction", "force": "force_instruction"}
POST_TICKS = 4


# ------------------------------------------------------------------------------------------------
# running one scenario on the real engine

def _observe(run, results: list[str], raised: list[str]) -> dict[str, Any]:
    e = run.engine
    nodes = [[n.position.line, type(n).__name__, n.started, n.completed, n.cancelled, n.forced, n.failed]
             for n in run.program_nodes()]
    tags = {k: e.tags[k].get_value() for k in ("System State", "Method Status", "Mark", "Block", "Run Counter")}
    cm = e._command_manager
    try:
        rl: Any = [[it.name, str(it.state), it.cancelled, it.forced, it.failed] for it in e.tracking.get_runlog().items]
    except Exception as ex:  # the run log itself is the subject of C15
        rl = "err:" + type(ex).__name__
    return dict(results=results, raised=raised,
                flags=[e._runstate_started, e._runstate_paused, e._runstate_holding, e._runstate_stopping],
                tags=tags, nodes=nodes, exec=[list(x) for x in run.exec_log],
                queue=[r.name for r in list(cm.cmd_queue.queue)], executing=[r.name for r in cm.cmd_executing],
                instances=sorted(run.uod.command_instances.keys()),
                method=[ln.content for ln in e.method_manager._method.lines],
                interrupts=len(e.interpreter.interrupts), runlog=rl,
                one_tracking=(cm.tracking is e.tracking),
                # every process image written to the hardware from the concurrent tick on (output UOD only)
                images=[dict(im) for im in getattr(run, "verif_images", [])[getattr(run, "verif_images_from", 0):]])


def _resolve(run, pcode: str, req: list) -> list:
    """Fix the request's argument before the concurrent phase (the aggregator sends an exec id it got from an earlier
    run-log message; it does not look it up while the engine ticks)."""
    k = req[0]
    if k == "edit":
        return ["edit", pcode + req[1]]
    if k in ("cancel", "force"):
        iid = "no-such-instance"
        try:
            for it in run.engine.tracking.get_runlog().items:
                if it.name.startswith(req[1]):
                    iid = it.id
        except Exception:
            pass
        return [k, iid]
    return req


def _apply(run, req: list) -> str:
    k = req[0]
    if k == "edit":
        return run.edit(req[1])
    if k == "inject":
        return run.inject(req[1])
    if k == "user":
        return run.user(req[1])
    return run.cancel(req[1]) if k == "cancel" else run.force(req[1])


def run_scenario(case: dict, serial: str | None = None) -> dict[str, Any]:
    """case = {prog, warm, reqs:[request names], choices}.  `serial` = arrangement string over {b,a} (request j
    before / after the tick, all on the harness thread) instead of the two-thread run.
    Returns {obs, trace, made, enabled}."""
    from harness import engine_coop as EC
    from harness.engine_run import EngineRun
    EC.install()
    pcode = PROGRAMS[case["prog"]]
    reqs = [REQUESTS[r] for r in case["reqs"]]
    if case["prog"] in OUTPUT_PROGRAMS:
        import harness.engine_run as ER
        images: list = []
        orig = ER.make_uod
        ER.make_uod = lambda log, *a, **k: EC.make_output_uod(log, images)   # harness module attribute only
        try:
            run = EngineRun(pcode)
        finally:
            ER.make_uod = orig
        run.verif_images = images
    else:
        run = EngineRun(pcode)
    try:
        coop = EC.Coop()
        EC.instrument_engine(run.engine, coop)
        for k in range(case["warm"]):
            run.tick()
            if k == 0 and case["prog"] in OUTPUT_PROGRAMS:      # the outputs are active while the method runs
                run.set_tag("V1", 5)
                run.set_tag("V2", 5)
        run.verif_images_from = len(getattr(run, "verif_images", []))
        reqs = [_resolve(run, pcode, r) for r in reqs]
        if case.get("fail"):                    # the hardware read of the concurrent tick fails
            run.uod.hwl._verif_fail_reads = 1
        results: list[str] = []
        raised: list[str] = []

        def tick():
            run.clock.now += run.dt
            try:
                run.engine.tick(run.clock.now, run.dt)
            except BaseException as e:  # noqa: BLE001
                raised.append(type(e).__name__)

        def do(rs):
            for r in rs:
                results.append(_apply(run, r))
        made, enabled = None, None
        if serial is not None:
            do([r for r, a in zip(reqs, serial) if a == "b"])
            tick()
            do([r for r, a in zip(reqs, serial) if a == "a"])
        else:
            made, enabled = EC.run_schedule(coop, case["choices"], {"T": tick, "R": lambda: do(reqs)})
        for _ in range(POST_TICKS):
            run.tick()
        return {"obs": _observe(run, results, raised), "trace": list(coop.trace), "made": made, "enabled": enabled}
    finally:
        run.close()


def arrangements(n: int) -> list[str]:
    return ["b" * (n - k) + "a" * k for k in range(n + 1)]


def real_positions(trace: list[tuple[str, str]], n_reqs: int, read_fails: bool = False) -> list[str]:
    """Where each request's effect ran relative to the tick's critical section, read off the *real* trace: the effect
    of a request = its segments from the lock acquisition on if it takes the lock, else from its entry on."""
    t_idx = [i for i, (w, _) in enumerate(trace) if w == "T"]
    t_acq = next((i for i, (w, lab) in enumerate(trace) if w == "T" and lab == "acq"), None)
    t_read = next((i for i, (w, lab) in enumerate(trace) if w == "T" and lab == "hwl.read_batch"), None)
    groups: list[list[tuple[int, str]]] = []
    for i, (w, lab) in enumerate(trace):
        if w != "R":
            continue
        if lab.startswith("enter:"):
            groups.append([])
        if groups:
            groups[-1].append((i, lab))
    out = []
    for g in groups[:n_reqs]:
        acq = next((k for k, (_, lab) in enumerate(g) if lab == "acq"), None)
        eff = [i for (i, _) in (g[acq:] if acq is not None else g)]
        if t_acq is None or not t_idx:
            out.append("b" if not eff else "t")
        elif all(i < t_acq for i in eff):
            # after a failed hardware read the engine is in its error state before the tick has taken the lock
            out.append("p" if read_fails and t_read is not None and any(i > t_read for i in eff) else "b")
        elif all(i > t_idx[-1] for i in eff):
            out.append("a")
        else:
            out.append("t")
    return out


class Combo:
    """One (program, warm-up, requests): its serial outcomes and everything needed to print a schedule's line."""

    def __init__(self, prog: str, warm: int, reqs: list[str], fail: bool = False):
        self.base = {"prog": prog, "warm": warm, "reqs": reqs}
        if fail:
            self.base["fail"] = True
        self.arrs = arrangements(len(reqs))
        self.serial = [run_scenario(self.base, serial=a)["obs"] for a in self.arrs]
        ids: list[int] = []
        distinct: list[dict] = []
        for o in self.serial:
            if o not in distinct:
                distinct.append(o)
            ids.append(distinct.index(o))
        self.cls_ids = ids

    def case(self, choices: str) -> dict:
        return {**self.base, "choices": choices}

    def execute(self, choices: str) -> dict:
        r = run_scenario(self.case(choices))
        trace = r["trace"]
        pos = real_positions(trace, len(self.base["reqs"]), bool(self.base.get("fail")))
        obs = r["obs"]
        k = next((i for i, s in enumerate(self.serial) if s == obs), None)
        cls = "-" if ("t" in pos or "p" in pos) else ("none" if k is None else str(self.cls_ids[k]))
        # the op line for the model: the labels each thread showed (without <start>/acq), the choices, the class ids
        t_labels = [lab for (w, lab) in trace if w == "T" and lab not in ("<start>", "acq")]
        rq: list[str] = []
        for (w, lab) in trace:
            if w != "R" or lab in ("<start>", "acq"):
                continue
            if lab.startswith("enter:"):
                rq.append(lab[len("enter:"):] + "=")
            elif rq:
                rq[-1] += ("" if rq[-1].endswith("=") else "|") + lab
        rq = [x + "-" if x.endswith("=") else x for x in rq]
        line = "\t".join([",".join(t_labels) or "-", ";".join(rq) or "-", r["made"], ",".join(map(str, self.cls_ids)),
                          "1" if self.base.get("fail") else "0"])
        out = f"trace={','.join(w + ':' + lab for (w, lab) in trace)} pos={','.join(pos)} cls={cls}"
        return {"case": self.case(r["made"]), "line": line, "out": out, "obs": obs, "pos": pos,
                "serial_match": k, "trace": trace, "enabled": r["enabled"], "made": r["made"]}


def failure_of(combo: Combo, rec: dict) -> Failure | None:
    """Property oracle: the final observation must be that of a serial order (each request entirely before or entirely
    after the tick, requests in their order)."""
    if rec["serial_match"] is not None:
        return None
    trace = rec["trace"]
    # signature: entry point of the first request whose effect did not run on one side, and the tick sub-call it followed
    j = next((i for i, p in enumerate(rec["pos"]) if p == "t"), 0)
    kind = ENTRY[REQUESTS[combo.base["reqs"][j]][0]]
    after = "-"
    seen = -1
    for i, (w, lab) in enumerate(trace):
        if w == "R" and lab.startswith("enter:"):
            seen += 1
            if seen == j:
                after = next((trace[k][1] for k in range(i - 1, -1, -1) if trace[k][0] == "T"), "-")
                break
    differs = [k for k in rec["obs"] if all(rec["obs"][k] != s[k] for s in combo.serial)]
    # every process image written to the hardware must be one that some serial order writes in that tick — never a mix
    serial_images = [s["images"] for s in combo.serial]
    torn = [(n, im) for n, im in enumerate(rec["obs"]["images"])
            if all(n >= len(si) or si[n] != im for si in serial_images)]
    if torn:
        return Failure(f"{kind}-torn-process-image-written", rec["case"],
                       f"request {combo.base['reqs'][j]} ran while the tick was in its write phase: image {torn[0][1]} "
                       f"was written to the hardware in tick {torn[0][0]} after the request arrived; serial orders write "
                       f"{[si[torn[0][0]] if torn[0][0] < len(si) else None for si in serial_images]}")
    return Failure(f"{kind}-not-atomic-inside-tick", rec["case"],
                   f"request {combo.base['reqs'][j]} interleaved with the tick (its entry followed the tick's "
                   f"'{after}' segment; positions {rec['pos']}): the final observation equals no serial order; "
                   f"fields differing from every serial order: {differs}")


# ------------------------------------------------------------------------------------------------

def run(ctx: Check) -> int:
    from harness import engine_coop as EC
    from harness.translators import lock_table
    # The regenerated table is a file shared by every run in this tree; another run (on another source tree) may
    # rewrite it between our regeneration and the Lean build.  Re-check after the build and repeat if it was replaced.
    for attempt in range(4):
        table = lock_table.generate()
        expected = lock_table.OUT.read_text()
        ctx.proof_broken.clear()
        ctx.prove(MODULE, REQUIRED)
        if lock_table.OUT.read_text() == expected:
            break
        ctx.notes.append(f"lock table was rewritten by a concurrent run during the build (attempt {attempt + 1})")
    ctx.extra["commutation_hypothesis"] = {
        "discharged_from_source": not table["prologue_shared"],
        "attributes_shared_by_unlocked_tick_prologue_and_requests": table["prologue_shared"],
        "note": "the part of Engine.tick outside the lock (hardware tick, read_process_image and its error path "
                "set_error_state) touches these attributes that request bodies touch too; the theorem assumes they "
                "commute; schedules in which the hardware read of the concurrent tick fails are part of the trace "
                "validation"}
    ctx.extra["lock_table"] = {"locks": table["locks"], "tick": table["tick"], "nested": table["nested"],
                               "entries": [[n, lk, t] for (n, lk, t) in table["entries"]]}
    rng = ctx.rng
    thorough = ctx.tier == "thorough"

    records: dict[str, dict] = {}
    combos: dict[str, Combo] = {}
    cases: list[dict] = []

    def key(c: dict) -> str:
        return json.dumps(c, sort_keys=True)

    def combo_for(prog, warm, reqs, fail=False) -> Combo:
        k = json.dumps([prog, warm, reqs, fail])
        if k not in combos:
            combos[k] = Combo(prog, warm, reqs, fail)
        return combos[k]

    def add(combo: Combo, choices: str) -> dict:
        rec = combo.execute(choices)
        k = key(rec["case"])
        if k not in records:
            records[k] = rec
            rec["combo"] = combo
            cases.append(rec["case"])
        return rec

    # corpus first
    for c in load_corpus("C40"):
        if "choices" in c:
            add(combo_for(c["prog"], c["warm"], c["reqs"], bool(c.get("fail"))), c["choices"])
    # (a) every request kind x program x warm-up, the request as a whole at every yield point of the tick
    warms = range(0, 7) if thorough else (5,)
    n_atomic = 0
    few = ("edit", "pause", "cancel", "inject-cmd")       # quick tier: fewer requests for three of the methods
    for prog in PROGRAMS:
        if prog in OUTPUT_PROGRAMS:
            continue
        for warm in warms:
            for rq in REQUESTS:
                if rq == "cancel-pause":
                    continue
                if not thorough and prog in ("stop", "watch", "restart") and rq not in few:
                    continue
                combo = combo_for(prog, warm, [rq])
                n_t = add(combo, "tr")["made"].count("T")      # the tick alone first: how many segments it has here
                n_atomic += 1
                for p in range(0, n_t):
                    add(combo, "T" * p + "r")
                    n_atomic += 1
    # (a'') a request that changes the output values (cancel of the timed Pause restores them) at every yield point of
    # the tick, including between the two output registers while the write phase assembles the image
    for warm in ((6, 7, 9) if thorough else (6,)):
        for rq in ("cancel-pause", "edit", "stop"):
            combo = combo_for("outputs", warm, [rq])
            n_t = add(combo, "tr")["made"].count("T")
            for p in range(0, n_t):
                add(combo, "T" * p + "r")
                n_atomic += 1
    # (a') the same with a tick whose hardware read fails (set_error_state runs in the tick's unlocked prologue)
    n_fail = 0
    fail_combos = [(p, 3, r) for p in PROGRAMS if p not in OUTPUT_PROGRAMS for r in REQUESTS if r != "cancel-pause"] \
        if thorough else \
        [(p, 3, r) for p in ("cmds", "pause") for r in ("edit", "pause", "inject-cmd", "cancel")]
    for (prog, warm, rq) in fail_combos:
        combo = combo_for(prog, warm, [rq], fail=True)
        n_t = add(combo, "tr")["made"].count("T")
        for p in range(0, n_t):
            add(combo, "T" * p + "r")
            n_fail += 1
    # (b) all interleavings (also at the request's own yield points) for selected combos; one and two requests
    full = [("cmds", 5, ["edit"]), ("cmds", 1, ["edit"]), ("cmds", 5, ["cmdb"]), ("pause", 5, ["pause"]),
            ("stop", 3, ["hold"]), ("block", 4, ["cancel"]), ("watch", 4, ["force"]), ("cmds", 3, ["inject-cmd"]),
            ("long", 4, ["cancel"]), ("long", 4, ["edit"]), ("outputs", 6, ["cancel-pause"])]
    two = [("cmds", 5, ["edit", "cmdb"]), ("block", 4, ["cancel", "inject-mark"]), ("pause", 5, ["pause", "edit"])]
    extra: list = []
    if thorough:
        # all interleavings for every method x every request at warm-up 1/3/5, three methods also at 2/4/6, then more
        # two-request combos; explored in this order as far as the time guard below allows
        extra += [(p, w, [r]) for p in PROGRAMS if p not in OUTPUT_PROGRAMS for w in (1, 3, 5) for r in REQUESTS
                  if r != "cancel-pause"]
        extra += [(p, w, [r]) for p in ("cmds", "stop", "restart") for w in (2, 4, 6) for r in REQUESTS]
        extra += [("watch", 4, ["force", "hold"]), ("stop", 3, ["stop", "edit"]), ("restart", 3, ["inject-cmd", "cancel"]),
                  ("cmds", 2, ["cmdb", "cmdb"]), ("block", 3, ["edit", "edit"]), ("cmds", 4, ["inject-cmd", "edit"]),
                  ("pause", 4, ["hold", "pause"]), ("watch", 3, ["edit", "force"]), ("stop", 2, ["cmdb", "stop"]),
                  ("restart", 4, ["edit", "inject-mark"]), ("block", 5, ["cancel", "cancel"]),
                  ("cmds", 6, ["stop", "cmdb"]), ("pause", 6, ["edit", "inject-cmd"])]
    per_combo_limit = ctx.n(50, 6000)
    # the all-interleavings part stops taking up new combos after this much wall time, so that a tree on which the
    # entry points do not block (many more interleavings per combo) still finishes within the tier's budget
    budget_s = 540.0 if thorough else float("inf")   # quick is bounded by the per-combo limit alone (deterministic)
    import time as _time
    n_full = 0
    skipped = 0
    seen_combo: set[str] = set()
    for (prog, warm, reqs) in full + two + extra:
        ck = json.dumps([prog, warm, reqs])
        if ck in seen_combo:
            continue
        seen_combo.add(ck)
        if _time.time() - ctx.t0 > budget_s:
            skipped += 1
            continue
        combo = combo_for(prog, warm, reqs)
        made = EC.explore_all(lambda ch, combo=combo: (lambda r: (r["made"], r["enabled"]))(add(combo, ch)),
                              limit=per_combo_limit)
        n_full += len(made)
    # (c) random schedules for random combos
    for _ in range(ctx.n(60, 3000)):
        prog = rng.choice(list(PROGRAMS))
        reqs = [rng.choice([r for r in REQUESTS if r != "cancel-pause" or prog in OUTPUT_PROGRAMS])
                for _ in range(rng.choice([1, 1, 2]))]
        combo = combo_for(prog, rng.randrange(0, 7), reqs)
        add(combo, "".join(rng.choice("TTR") for _ in range(rng.randrange(4, 22))))
    ctx.extra["schedules"] = {"request_as_a_whole_at_every_tick_yield_point": n_atomic,
                              "of_which_hardware_read_of_the_tick_fails": n_fail,
                              "all_interleavings_selected_combos": n_full,
                              "all_interleavings_combos_skipped_for_time": skipped, "distinct_cases": len(cases),
                              "combos": len(combos)}
    ctx.rule = ("case = (method, number of warm-up ticks, one or two requests, schedule); 7 methods (UOD commands, Stop, "
                "timed Pause, Watch+Wait, Block, Restart, long-running UOD command, timed Pause on a UOD with two output registers) x warm-up 5 (thorough 0-6) x 9 requests (quick: 4 of them for three of the methods) (live edit, inject "
                "mark / command, Pause, Hold, Stop, user UOD command, cancel, force) with the request as a whole placed "
                "at each yield point of the tick (between its sub-calls, and inside them: before the hardware read, "
                "before every UOD exec function of the command phase, before the hardware write, after every sub-tick of "
                "the interpreter), also with a tick whose hardware read fails; for selected combos with one and with two requests (thorough: every method x every "
                "request at warm-up 1/3/5, three methods also at 2/4/6, 16 two-request combos) all interleavings "
                "at the yield points of both threads (stateless search over the choices the real run has enabled); "
                "random schedules. Non-trivial = the request thread ran while the ticking thread was between its first "
                "and last segment.")

    def nontrivial(c, out):
        tr = out[0].split(" ")[0]
        ws = [x.split(":")[0] for x in tr[len("trace="):].split(",")]
        return "R" in ws[ws.index("T"):len(ws) - ws[::-1].index("T")] if "T" in ws else False

    if lock_table.OUT.read_text() != expected:            # see above: make the driver read our table
        lock_table.generate()
    impl_out, model_out = ctx.correspond("schedules", "TickLock", cases,
                                         lambda c: ["sched\t" + records[key(c)]["line"]],
                                         lambda c: [records[key(c)]["out"]], nontrivial=nontrivial)
    if model_out:
        ctx.selftest("schedules", "TickLock", cases, lambda c: ["schedm\t" + records[key(c)]["line"]], model_out)
    for c in cases:
        rec = records[key(c)]
        ctx.count("requests=" + str(len(c["reqs"])))
        for r in c["reqs"]:
            ctx.count("req=" + ENTRY[REQUESTS[r][0]])
        ctx.count("pos=" + ",".join(rec["pos"]))
        ctx.count("serial-orders-distinguishable" if len(set(rec["combo"].cls_ids)) > 1 else "serial-orders-equal")
        f = failure_of(rec["combo"], rec)
        if f is not None:
            ctx.fail(f)
    ctx.exhaustive = True
    ctx.assumptions = ["thread switches only at the instrumented yield points (call boundaries); CPython may switch "
                       "threads elsewhere", "one ticking thread and one request thread; the request thread issues its "
                       "requests in order", "observation = request results, run-state flags, System State / Method Status"
                       " / Mark / Block / Run Counter values, node states, UOD command init/exec/finalize log, every process image "
                       "written to the hardware (output UOD), command "
                       "queue and executing list, command instances, method lines, interrupts, run log; tag time stamps "
                       "are not compared", "exhaustive over the stated combos and yield points (quick tier: at most 50 schedules per all-interleavings "
                       "combo); other combos sampled"]
    return ctx.finish()


def replay(obj) -> int:
    case = obj.get("case", obj)
    combo = Combo(case["prog"], case["warm"], case["reqs"], bool(case.get("fail")))
    rec = combo.execute(case["choices"])
    print("method:", json.dumps(PROGRAMS[case["prog"]]), "warm-up ticks:", case["warm"], "requests:", case["reqs"])
    print("schedule:", rec["made"])
    print(rec["out"])
    for a, s in zip(combo.arrs, combo.serial):
        d = [k for k in s if s[k] != rec["obs"][k]]
        print(f"serial order {a}: " + ("EQUAL" if not d else "differs in " + ", ".join(d)))
    f = failure_of(combo, rec)
    if f:
        print("ORACLE:", f.key, "-", f.detail)
    print(json.dumps({"violates": f is not None}))
    return 1 if f else 0
