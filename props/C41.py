"""C41 Macros run their latest definition once per call and never recurse.

Proof half: OPM.Properties.C41 — latest definition wins (dict assignment + lookup), a call starts the
children loop of the registered node at line 0 or fails, fresh invocations reset the body and count,
and the *repaired* recursion check `macro_calling_macro` refuses a call iff the macro can reach a call
of itself through any chain of calls (also calls nested in Watch/Alarm/Block bodies); witnesses of what
the function of the unchanged repository misses.
Tie half: (1) function-level correspondence of `MacroNode.macro_calling_macro` with
OPM.Model.MacroCheck.cascade on every call graph of a small scope + random nested macro texts;
(2) interpreter-level correspondence (OPM.Model.Interp) on macro-heavy methods.
Oracle (real Engine): Mark trace = inline expansion with the latest definition at call time; a call that
would make a macro call itself fails and nothing of that macro runs; edits / removals of started macros
are rejected and leave the run untouched.
"""
from __future__ import annotations

from vp.core import Check, Failure, enc, load_corpus

META = dict(
    level_text="Lean 4 theorems over the interpreter model and the model of MacroNode.macro_calling_macro: visiting "
               "'Macro: n' registers that node under n (later definition replaces the earlier one, other names untouched); "
               "'Call macro: n' either fails or starts the children loop of exactly the registered node at line 0 over "
               "its return frame (stack discipline: lines one at a time in order); a fresh invocation resets the body "
               "and increments run_started, the return increments run_completed; the repaired recursion check "
               "terminates and refuses a call IFF the macro reaches a call of itself through any chain of registered "
               "macros, including calls nested in Watch/Alarm/Block bodies (soundness + completeness of a visited-set "
               "DFS against the transitive relation, all programs, all tables). Tied to the code by function-level "
               "differential execution (exhaustive small call graphs + random nested texts) and by the M3 interpreter "
               "correspondence on macro-heavy methods.",
    level_note="The unchanged repository violates the property (a self-call after another call, or nested in a "
               "Watch/Alarm/Block of the body, is not detected: the run recurses one level per tick for ~250 ticks or "
               "re-invokes the macro for ever); fixes/C41-macro-recursion-check.diff repairs macro_calling_macro "
               "(17 lines, existing tests green) and the theorems are about the repaired function, so this check "
               "reports a VIOLATION on an unrepaired tree (the repair is commit 9931d3b0). The interpreter model "
               "OPM.Model.Interp uses the repaired check (OPM.Model.MacroCascade), so the M3 stream also runs recursive "
               "methods (16 shapes + generated redefinitions). The bridge from the check to the instruction is proved (recursive_call_fails: "
               "the call node fails, no frame, no bodyStart, nothing else touched). 'Once per call' is FALSE for "
               "overlapping calls (C41_once_full refuted by C41_once_counterexample: a call arriving while an invocation of "
               "the same macro is in progress joins it; reproduced on the engine, recorded finding "
               "macro-body-shared-by-overlapping-calls); proved for calls that arrive while no invocation is in progress "
               "(C41_once_partial). The third sentence is proved on the merge model (started_macro_edit_is_rejected: "
               "removal, change of instruction type or any difference found by matches_source => rejected, state "
               "unchanged) while the method manager looks at the running program; the oracle generates edits of every "
               "field (text, threshold, indentation, order, insert/delete, header) of started macros and judges "
               "'started' from the Mark trace. Reading taken: the property makes no exception for failed lines, so while the run "
               "is paused in error an edit that corrects, re-thresholds or deletes the FAILED line of a started macro must be "
               "refused too (C13's 'a corrected method is accepted while paused in error' concerns lines outside started "
               "macros); the edit generator includes macros with a failing line (bad Wait / Run counter / Base, unknown "
               "instruction or command) edited after the failure. After an accepted live edit the method manager keeps a "
               "state-less program, so a later edit of a started macro is accepted (recorded finding, root cause in the "
               "C01 cluster). Trusted: Lean kernel, harness, parser (programs are what the real parser builds).",
    technique="Lean 4 proof (DFS soundness/completeness/termination, step theorems) + differential correspondence "
              "(function-level exhaustive small scope, interpreter-level) + engine oracle with reference expansion",
)
MODULE = "OPM.Properties.C41"
REQUIRED = ["OPM.C41.definition_registers_latest", "OPM.C41.call_runs_latest_definition",
            "OPM.C41.call_of_undefined_macro_fails", "OPM.C41.fresh_invocation_resets_body",
            "OPM.C41.call_return_counts", "OPM.C41.recursion_check_exact", "OPM.C41.recursion_check_total",
            "OPM.C41.asIs_misses_call_after_other_call", "OPM.C41.asIs_misses_call_inside_watch",
            "OPM.C41.asIs_diverges_on_foreign_cycle", "OPM.C41.recursive_call_fails",
            "OPM.C41.nonrecursive_call_starts_body", "OPM.C41.C41_once_counterexample", "OPM.C41.C41_once_partial",
            "OPM.C41.started_macro_edit_is_rejected", "OPM.C41.matchesSrc_compares_every_line"]

# ---------------------------------------------------------------------------------------------
# function-level stream: MacroNode.macro_calling_macro vs OPM.MacroCheck.cascade


def _fn_case(pcode: str, extra_names: list[str]) -> dict:
    return {"kind": "fn", "pcode": pcode, "extra": extra_names}


_fn_cache: dict[int, tuple[list[str], list[str]]] = {}


def _fn_both(case: dict, op: str = "check") -> tuple[list[str], list[str]]:
    """(op lines, implementation answers) for one macro text: every prefix table × every entry."""
    key = id(case)
    if key in _fn_cache:
        return _fn_cache[key]
    import openpectus.lang.model.ast as p
    from harness.macro_gen import parse, macro_defs
    prog = parse(case["pcode"])
    nodes = prog.get_all_nodes()
    idx = {n.id: i for i, n in enumerate(nodes)}
    lines, outs = [], []
    for i, n in enumerate(nodes):
        if isinstance(n, p.ProgramNode):
            k = "program"
        elif isinstance(n, p.MacroNode):
            k = f"macro {enc(n.name)}"
        elif isinstance(n, p.CallMacroNode):
            k = f"call {enc(n.name)}"
        elif isinstance(n, p.WatchNode):
            k = "watch"
        elif isinstance(n, p.AlarmNode):
            k = "alarm"
        elif isinstance(n, p.BlockNode):
            k = "block"
        else:
            k = "other"
        lines.append(f"node\t{i}\t{idx[n.parent.id] if n.parent is not None else -1}\t{k}")
        outs.append("ok")
    defs = macro_defs(prog)
    table: dict = {}
    for d in defs:
        table[d.name] = d                      # registration order = source order, later definition wins
        lines.append("macros\t" + (";".join(f"{enc(k)}={idx[v.id]}" for k, v in table.items()) or "-"))
        outs.append("ok")
        for name, node in list(table.items()):
            for qname in [name] + [x for x in case["extra"] if x != name]:
                lines.append(f"{op}\t{enc(qname)}\t{idx[node.id]}")
                try:
                    r = node.macro_calling_macro(dict(table), qname)
                    outs.append("[]" if not r else ";".join(enc(x) for x in r))
                except RecursionError:
                    outs.append("err:RecursionError")
    _fn_cache[key] = (lines, outs)
    return lines, outs


def gen_fn_cases(ctx: Check) -> list[dict]:
    from harness.macro_gen import enumerate_graphs, gen_graph, pcode_of
    cases = []
    for items in enumerate_graphs(3, 1):                     # 343 graphs: exhaustive
        cases.append(_fn_case(pcode_of(items), []))
    full22 = list(enumerate_graphs(2, 2))                     # 625 graphs: exhaustive
    for items in full22:
        cases.append(_fn_case(pcode_of(items), []))
    ctx.count("fn:exhaustive-3x1", 343)
    ctx.count("fn:exhaustive-2x2", len(full22))
    if ctx.tier == "thorough":
        allg = list(enumerate_graphs(3, 2))
        for items in ctx.rng.sample(allg, 20000):
            cases.append(_fn_case(pcode_of(items), []))
        ctx.count("fn:sampled-3x2", 20000)
    for _ in range(ctx.n(300, 20000)):
        cases.append(_fn_case(pcode_of(gen_graph(ctx.rng)), [ctx.rng.choice(["A", "B", "Z"])]))
    ctx.count("fn:random-nested", ctx.n(300, 20000))
    return cases


# ---------------------------------------------------------------------------------------------
# interpreter-level stream on macro-heavy methods without call cycles


def gen_m3_cases(ctx: Check, n: int) -> list[dict]:
    from harness.gen_pcode import gen_program, gen_schedule
    from harness.macro_gen import SHAPES, gen_acyclic, gen_recursive, pcode_of, has_call_cycle
    rng = ctx.rng
    cases = []
    while len(cases) < n:
        x = rng.random()
        if x < 0.1:
            from harness.macro_gen import gen_redefined_between_calls
            pcode = pcode_of(gen_redefined_between_calls(rng))
            ctx.count("m3:redefined-between-runs-of-one-call-line")
        elif x < 0.4:
            pcode = pcode_of(gen_acyclic(rng))
            ctx.count("m3:acyclic-macro-method")
        elif x < 0.55:
            items, shape = gen_recursive(rng, rng.choice(SHAPES))
            pcode = pcode_of(items)
            ctx.count("m3:recursive-macro-method")
        else:
            pcode, _ = gen_program(rng, features={"mark", "macro", "wait", "cmd", "thr", "blank", "block", "watch"},
                                   max_lines=14, malformed=(x > 0.9))
            if "Macro" not in pcode:
                continue
            try:
                if has_call_cycle(pcode):
                    ctx.count("m3:generated-with-call-cycle")
            except Exception:
                pass
            ctx.count("m3:malformed" if x > 0.9 else "m3:generated-with-macros")
        cases.append({"kind": "m3", "pcode": pcode, "ops": gen_schedule(rng, rng.randrange(15, 50))})
    return cases


# ---------------------------------------------------------------------------------------------
# engine oracle


def _marks(snap) -> list[str]:
    v = snap["tags"].get("Mark")
    return [x for x in str(v).split("; ") if x] if v else []


def _budget(items) -> int:
    """ticks that suffice for the expansion: every executed line a few ticks, waits their duration"""
    from harness.macro_gen import exec_calls  # noqa: F401
    table: dict = {}
    cost = [30]

    def run(body, depth=0):
        if depth > 8:
            return
        for it in body:
            cost[0] += 4
            if it[0] == "macro":
                table[it[1]] = it[2]
            elif it[0] == "wait":
                cost[0] += int(float(it[1][:-1]) * 8) + 2
            elif it[0] == "cmd":
                cost[0] += 4
            elif it[0] == "call" and it[1] in table:
                run(table[it[1]], depth + 1)
    run(items)
    return min(cost[0], 900)


def oracle_expand(case: dict) -> Failure | None:
    """Latest definition, once per call, lines in order: Mark trace == inline expansion."""
    from harness.engine_run import EngineRun
    from harness.macro_gen import expand, pcode_of
    items = case["items"]
    exp = expand(items)
    run = EngineRun(pcode_of(items))
    try:
        # no assumption on how many ticks an instruction takes: run until the expected trace is there (plus a
        # grace period in which nothing more may appear), an error stops the run, or a very generous cap
        snap, grace, cap = None, 0, 4 * _budget(items) + 400
        for _ in range(cap):
            snap = run.tick()
            if snap["tags"].get("Method Status") == "Error":
                break
            if exp["stop"] is None and len(_marks(snap)) >= len(exp["marks"]):
                grace += 1
                if grace > 40:
                    break
        got = _marks(snap)
        status = snap["tags"].get("Method Status")
        if got != exp["marks"] and got == exp["marks"][:len(got)] and status != "Error":
            return Failure("macro-method-does-not-finish", case,
                           f"after {cap} ticks the Mark trace {got} is still a strict prefix of the expansion {exp['marks']}")
        if got != exp["marks"]:
            k = "macro-trace-differs-from-expansion"
            return Failure(k, case, f"Mark trace {got} but inline expansion with the latest definitions gives "
                                    f"{exp['marks']} (stop={exp['stop']} {exp['name']})")
        if exp["stop"] is None and status == "Error":
            return Failure("macro-method-fails-unexpectedly", case, f"Method Status Error after marks {got}")
        if exp["stop"] is not None and status != "Error":
            return Failure(f"call-does-not-fail:{exp['stop']}", case,
                           f"call of {exp['name']} ({exp['stop']}) did not fail; marks {got}")
        return None
    finally:
        run.close()


def oracle_recursive(case: dict) -> Failure | None:
    """A call that would make a macro call itself fails instead of recursing."""
    from harness.engine_run import EngineRun
    from harness.macro_gen import expected_recursive, pcode_of
    items, shape = case["items"], case["shape"]
    exp = expected_recursive(items, shape)
    run = EngineRun(pcode_of(items))
    try:
        snap = None
        for _ in range(case.get("ticks", 70)):
            snap = run.tick()
            if snap["tags"].get("Method Status") == "Error":
                break
        got, status = _marks(snap), snap["tags"].get("Method Status")
        refused = [n for n in snap["nodes"] if n["cls"] == "CallMacroNode" and n["arg"] == exp["refused"] and n["failed"]]
        if status != "Error" or not refused:
            return Failure(f"recursive-call-not-refused:{shape}", case,
                           f"'Call macro: {exp['refused']}' would make the macro call itself but did not fail within "
                           f"{case.get('ticks', 70)} ticks (Method Status {status}); marks so far {got}")
        if got != exp["marks"]:
            return Failure(f"recursive-macro-ran:{shape}", case,
                           f"the refused call still ran lines: marks {got}, expected {exp['marks']}")
        return None
    finally:
        run.close()


EDIT0 = [("macro", "A", [("mark", "a1"), ("wait", "1s"), ("mark", "a2")]), ("mark", "s"), ("call", "A"), ("mark", "e"),
         ("call", "A")]


def _method(lines: list[tuple[str, str]]):
    import openpectus.protocol.models as Mdl
    return Mdl.Method(lines=[Mdl.MethodLine(id=i, content=c) for i, c in lines], version=0)


FAILING_LINES = {"Wait: abc": "Wait: 0.25s", "Run counter: x": "Run counter: 3", "Base: parsec": "Base: s",
                 "Frobnicate": "Mark: fixed", "Unknowncmd: 3": "CmdA"}


def gen_edit_method(rng, failing: bool = False) -> list:
    """A method with one or two macros (bodies with Marks, Waits, commands, a nested Watch or Block with
    lines of its own) that are called from the main flow with Waits around, so that edits can arrive while
    a macro is in the middle of its body, after it completed, before a second call …"""
    mark_no = [0]

    def mk(prefix="m"):
        mark_no[0] += 1
        return ("mark", f"{prefix}{mark_no[0]}")

    def body(name):
        b = [mk(name.lower())]
        for _ in range(rng.randrange(1, 4)):
            x = rng.random()
            if x < 0.35:
                b.append(("wait", rng.choice(["0.5s", "1s", "1.5s"])))
            elif x < 0.55:
                b.append(("cmd", rng.choice(["CmdA", "CmdB"])))
            elif x < 0.75:
                k = rng.choice(["watch", "block"])
                inner = [mk(name.lower()), ("wait", "0.5s")] + ([("endblock",)] if k == "block" else [])
                b.append(("block", "K", inner) if k == "block" else ("watch", "T0 >= 0", inner))
            else:
                b.append(mk(name.lower()))
        b.append(mk(name.lower()))
        return b
    names = ["A"] if rng.random() < 0.5 else ["A", "B"]
    items = [("macro", nm, body(nm)) for nm in names]
    if failing:
        # a line that fails when it runs (the run then pauses in its error state), after at least one Mark of the body
        b = items[0][2]
        pos = rng.randrange(1, len(b))
        while pos < len(b) and b[pos - 1][0] in ("watch", "block"):
            pos += 1
        b.insert(pos, ("cmd", rng.choice(list(FAILING_LINES))))
    items.append(mk("s"))
    for k in range(rng.randrange(1, 4)):
        items.append(("call", "A" if failing and k == 0 else rng.choice(names)))
        items.append(rng.choice([("wait", "0.5s"), mk("s"), ("cmd", "CmdA")]))
    items.append(mk("e"))
    return items


def macro_region(lines: list[str], name: str) -> tuple[int, list[int]]:
    """(header line, body lines) of the definition of macro `name` in the text (by indentation)"""
    h = next(k for k, c in enumerate(lines) if c.strip() == f"Macro: {name}")
    ind = len(lines[h]) - len(lines[h].lstrip(" "))
    body = []
    k = h + 1
    while k < len(lines) and (not lines[k].strip() or len(lines[k]) - len(lines[k].lstrip(" ")) > ind):
        body.append(k)
        k += 1
    return h, body


def _ind(t: str) -> int:
    return len(t) - len(t.lstrip(" "))


def gen_macro_edit(rng, pcode: str, name: str):
    """One edit of the definition of macro `name`: (kind, new method lines with ids) or None.  Ids are those of
    Method.from_pcode (id_<n>) for surviving lines, fresh ids for inserted ones.  Every kind changes the
    macro's significant source: text, threshold, indentation, order, number of lines, the header."""
    import re
    lines = pcode.split("\n")
    idl = [(f"id_{k + 1}", c) for k, c in enumerate(lines)]
    h, body = macro_region(lines, name)
    sig = [k for k in body if lines[k].strip() and not lines[k].strip().startswith("#")]
    flat = [k for k in sig if _ind(lines[k]) == 4 and not lines[k].strip().startswith(("Watch", "Block"))]
    kind = rng.choice(["text", "threshold", "threshold", "dedent-last", "indent-next", "swap", "delete-line",
                       "insert-line", "remove-macro", "rename-header", "header-to-block", "nested-text"])
    failed = [k for k in sig if lines[k].strip() in FAILING_LINES]
    if failed and rng.random() < 0.5:
        # the line that failed is corrected (or given a threshold / removed): still an edit of a started macro
        k = failed[0]
        how = rng.choice(["correct", "correct", "threshold", "delete"])
        ind = " " * _ind(lines[k])
        if how == "correct":
            return "correct-failed-line", [(i, ind + FAILING_LINES[lines[k].strip()]) if j == k else (i, x)
                                           for j, (i, x) in enumerate(idl)]
        if how == "threshold":
            return "threshold-on-failed-line", [(i, ind + "2.5 " + lines[k].strip()) if j == k else (i, x)
                                                for j, (i, x) in enumerate(idl)]
        return "delete-failed-line", [x for j, x in enumerate(idl) if j != k]

    def repl(k, c):
        return [(i, c) if j == k else (i, x) for j, (i, x) in enumerate(idl)]
    if kind in ("text", "nested-text"):
        deep = [k for k in sig if _ind(lines[k]) >= 8]
        k = rng.choice(deep) if kind == "nested-text" and deep else rng.choice(sig)
        c = lines[k]
        if "Mark:" in c:
            c = c + "x"
        elif "Wait:" in c:
            c = re.sub(r"Wait: [0-9.]+s", "Wait: 2.25s", c)
        elif c.strip() in ("CmdA", "CmdB"):
            c = c.replace("CmdA", "CmdX").replace("CmdB", "CmdA").replace("CmdX", "CmdB")
        elif "End block" in c:
            c = c.replace("End block", "End blocks")
        elif ">= 0" in c:
            c = c.replace(">= 0", ">= 1")
        else:
            c = c.replace("Block: K", "Block: K2")
        if c == lines[k]:
            return None
        if lines[k].strip() in ("CmdA", "CmdB"):
            kind = "command-name"             # only the instruction name changes (same class, same arguments)
        return kind, repl(k, c)
    if kind == "threshold":
        k = rng.choice(sig[1:] or sig)          # later lines: more likely not started yet when the edit arrives
        c = lines[k]
        m = re.match(r"^( *)([0-9.]+) (.*)$", c)
        c2 = (m.group(1) + ("7.5 " if rng.random() < 0.5 else "") + m.group(3)) if m else " " * _ind(c) + "2.5 " + c.strip()
        return kind, repl(k, c2)
    if kind == "dedent-last":
        k = sig[-1]
        if _ind(lines[k]) != 4:
            return None
        return kind, repl(k, lines[k][4:])
    if kind == "indent-next":
        k = (body[-1] if body else h) + 1
        if k >= len(lines) or not lines[k].strip() or lines[k].startswith(" ") or lines[k].startswith("Macro"):
            return None
        return kind, repl(k, "    " + lines[k])
    if kind == "swap":
        pairs = [(a, b) for a, b in zip(flat, flat[1:]) if b == a + 1 and lines[a] != lines[b]]
        if not pairs:
            return None
        a, b = rng.choice(pairs)
        out = list(idl)
        out[a], out[b] = (idl[a][0], lines[b]), (idl[b][0], lines[a])
        if lines[a].strip() in ("CmdA", "CmdB") and lines[b].strip() in ("CmdA", "CmdB"):
            kind = "command-name"             # two commands change places: only instruction names differ
        return kind, out
    if kind == "delete-line":
        k = rng.choice(flat or [sig[-1]])
        return kind, [x for j, x in enumerate(idl) if j != k]
    if kind == "insert-line":
        pos = rng.choice([h + 1, (body[-1] if body else h) + 1] + [k + 1 for k in flat[:2]])
        return kind, idl[:pos] + [("id_new", "    Mark: inserted")] + idl[pos:]
    if kind == "remove-macro":
        return kind, [x for j, x in enumerate(idl) if j != h and j not in body]
    if kind == "rename-header":
        return kind, repl(h, lines[h].replace(f"Macro: {name}", f"Macro: {name}2"))
    if kind == "header-to-block":
        return kind, repl(h, lines[h].replace("Macro:", "Block:"))
    return None


def oracle_edit(case: dict) -> Failure | None:
    """A macro that has already started may not be edited or removed.  'Started' is judged from the Mark
    trace (a Mark of the macro's body has been set), not from the implementation's counters; the edit must
    be refused (MethodEditError) and the method must go on as written (same Mark trace as without the attempt)."""
    from harness.engine_run import EngineRun
    from harness.macro_gen import pcode_of
    pcode = pcode_of(case["items"])
    name, n_ticks, t_edit = case["macro"], case["ticks"], case.get("t", 0)
    kind, new_lines = case["edit_kind"], [tuple(x) for x in case["edit"]]
    lines = pcode.split("\n")
    _, body = macro_region(lines, name)
    body_marks = {lines[k].strip().split("Mark: ")[1].split(" ")[0] for k in body if "Mark: " in lines[k]}
    ref = EngineRun(pcode)
    try:
        ref_marks, ref_err = [], []
        for _ in range(n_ticks):
            sn = ref.tick()
            ref_marks.append(_marks(sn))
            ref_err.append(sn["tags"].get("Method Status") == "Error")
    finally:
        ref.close()
    if "t_frac" in case:
        cand = [t for t in range(1, n_ticks) if set(ref_marks[t - 1]) & body_marks
                and (not case.get("after_error") or ref_err[t - 1])]
        if not cand:
            return None
        t_edit = cand[int(case["t_frac"] * len(cand))]
    if t_edit >= n_ticks or t_edit < 1 or not (set(ref_marks[t_edit - 1]) & body_marks):
        return None                                       # the macro has not visibly started: nothing is demanded
    run = EngineRun(pcode)
    try:
        snap = None
        for t in range(n_ticks):
            if t == t_edit:
                if case.get("prior_edit"):
                    idl = [(f"id_{k + 1}", c) for k, c in enumerate(lines)]
                    if run.edit(_method(idl + [("id_tail", "Mark: tail")])) != "ok":
                        return None
                    seen = False
                    for _ in range(case["gap"]):
                        seen = seen or bool(set(_marks(run.tick())[len(ref_marks[t_edit - 1]):]) & body_marks)
                    if not seen:
                        return None
                    r = run.edit(_method(new_lines + [("id_tail", "Mark: tail")]))
                    if r != "err:MethodEditError":
                        return Failure("started-macro-edited-after-accepted-edit", case,
                                       f"after an accepted live edit, edit '{kind}' of started macro {name} answered {r}")
                    return None
                r = run.edit(_method(new_lines))
                if r != "err:MethodEditError":
                    return Failure(f"started-macro-edit-accepted:{kind}", case,
                                   f"edit '{kind}' of macro {name} at tick {t} (its Marks "
                                   f"{sorted(set(ref_marks[t - 1]) & body_marks)} had been set: the macro has started) "
                                   f"answered {r}, expected MethodEditError")
            snap = run.tick()
        if _marks(snap) != ref_marks[-1]:
            return Failure(f"rejected-macro-edit-changes-the-run:{kind}", case,
                           f"after the rejected edit the Mark trace is {_marks(snap)}, without the attempt {ref_marks[-1]}")
        return None
    finally:
        run.close()


def gen_overlap(rng) -> list:
    """Macros with straight-line bodies (no nested calls) called from the main flow AND from Watch bodies whose
    conditions become true at random ticks: calls of one macro can overlap."""
    mark_no = [0]

    def mk(p="m"):
        mark_no[0] += 1
        return ("mark", f"{p}{mark_no[0]}")
    names = ["A"] if rng.random() < 0.6 else ["A", "B"]
    items = []
    for nm in names:
        b = [mk(nm.lower())]
        for _ in range(rng.randrange(1, 3)):
            b.append(rng.choice([("wait", "1s"), ("wait", "0.5s"), ("cmd", "CmdA"), mk(nm.lower())]))
        b.append(("wait", rng.choice(["0.5s", "1s"])))
        b.append(mk(nm.lower()))
        items.append(("macro", nm, b))
    for k in range(rng.randrange(1, 3)):
        items.append(("watch", f"T{k} > 0", [("call", rng.choice(names)), mk("w")]))
    items.append(mk("s"))
    for _ in range(rng.randrange(1, 3)):
        items.append(("call", rng.choice(names)))
        items.append(rng.choice([("wait", "0.5s"), mk("s")]))
    items.append(mk("e"))
    return items


def oracle_overlap(case: dict) -> Failure | None:
    """Once per call, also for calls that overlap: every Call macro line that ran and completed accounts for
    one run of the body — each Mark of the body of X is set as often as calls of X completed."""
    from harness.engine_run import EngineRun
    from harness.macro_gen import pcode_of
    items = case["items"]
    run = EngineRun(pcode_of(items))
    try:
        snap = None
        for t in range(case["ticks"]):
            for name, v in case["plan"].get(str(t), []):
                run.set_tag(name, v)
            snap = run.tick()
            if snap["tags"].get("Method Status") == "Error":
                return None
        got = _marks(snap)
        for it in items:
            if it[0] != "macro":
                continue
            calls = [n for n in snap["nodes"] if n["cls"] == "CallMacroNode" and n["arg"] == it[1]]
            if any(n["started"] and not n["completed"] for n in calls):
                return None                               # a call is still running: budget too small, no verdict
            done = sum(1 for n in calls if n["completed"] and not n["failed"])
            for b in it[2]:
                if b[0] == "mark" and got.count(b[1]) < done:
                    return Failure("macro-body-shared-by-overlapping-calls", case,
                                   f"{done} calls of macro {it[1]} ran and completed but Mark {b[1]} of its body was set "
                                   f"{got.count(b[1])} time(s); Mark trace {got}")
                if b[0] == "mark" and got.count(b[1]) > done:
                    return Failure("macro-body-ran-more-often-than-called", case,
                                   f"{done} completed calls of {it[1]}, Mark {b[1]} set {got.count(b[1])} times; trace {got}")
        return None
    finally:
        run.close()


def oracle_alarm_redefine(case: dict) -> Failure | None:
    """A call runs the most recently defined body also when the same Call macro line runs again and again (Alarm
    body): once the main flow has re-defined B (Mark `redefined` is set), at most one invocation that was already
    inside the call may still finish on the old body; every later one runs the new body."""
    from harness.engine_run import EngineRun
    from harness.macro_gen import pcode_of
    items = case["items"]
    run = EngineRun(pcode_of(items))
    try:
        snap = None
        for _ in range(case["ticks"]):
            snap = run.tick()
            if snap["tags"].get("Method Status") == "Error":
                return None
        got = _marks(snap)
        if "redefined" not in got:
            return None
        after = got[got.index("redefined") + 1:]
        if after.count("old1") > 1 or (after.count("x") >= 4 and "new1" not in after):
            return Failure("call-runs-stale-definition:alarm-body", case,
                           f"after the re-definition of B (Mark 'redefined') the call in the Alarm body still ran the old "
                           f"body: marks after it {after}")
        return None
    finally:
        run.close()


def oracle(case: dict) -> Failure | None:
    k = case["kind"]
    if k == "expand":
        return oracle_expand(case)
    if k == "recursive":
        return oracle_recursive(case)
    if k == "edit":
        return oracle_edit(case)
    if k == "overlap":
        return oracle_overlap(case)
    if k == "alarm-redefine":
        return oracle_alarm_redefine(case)
    raise ValueError(k)


def gen_oracle_cases(ctx: Check, n_expand: int, n_rec: int, n_edit: int) -> list[dict]:
    from harness.macro_gen import SHAPES, gen_acyclic, gen_recursive, expand
    rng = ctx.rng
    cases: list[dict] = []
    for _ in range(n_expand):
        items = gen_acyclic(rng)
        e = expand(items)
        ctx.count("oracle:expand:" + (e["stop"] or "runs-to-end"))
        ctx.count("oracle:expand:calls", e["calls"])
        cases.append({"kind": "expand", "items": items})
    from harness.macro_gen import gen_alarm_redefine, gen_redefined_between_calls
    for _ in range(max(8, n_expand // 4)):
        items = gen_redefined_between_calls(rng)
        ctx.count("oracle:expand:redefined-between-runs-of-one-call-line")
        cases.append({"kind": "expand", "items": items})
    for _ in range(max(4, n_expand // 10)):
        ctx.count("oracle:alarm-redefine")
        cases.append({"kind": "alarm-redefine", "items": gen_alarm_redefine(rng), "ticks": 110})
    for i in range(n_rec):
        items, shape = gen_recursive(rng, SHAPES[i % len(SHAPES)])
        ctx.count("oracle:recursive:" + shape)
        cases.append({"kind": "recursive", "items": items, "shape": shape, "ticks": 70})
    from harness.macro_gen import pcode_of
    made = 0
    while made < n_edit:
        failing = rng.random() < 0.3
        items = gen_edit_method(rng, failing=failing)
        # with a failing line: macro A is the one that has started and failed (the run is paused in error)
        name = "A" if failing else rng.choice([it[1] for it in items if it[0] == "macro"])
        e = gen_macro_edit(rng, pcode_of(items), name)
        if e is None:
            continue
        made += 1
        ctx.count("oracle:edit:" + e[0] + (":paused-in-error" if failing else ""))
        cases.append({"kind": "edit", "items": items, "macro": name, "ticks": min(_budget(items) + 40, 320),
                      "t_frac": rng.random() if failing else rng.random() ** 2, "after_error": failing,
                      "edit_kind": e[0], "edit": [list(x) for x in e[1]]})
    for _ in range(max(4, n_edit // 3)):
        items = gen_overlap(rng)
        ticks = min(_budget(items) + 120, 400)
        plan: dict[str, list] = {}
        for k in range(2):
            plan.setdefault(str(rng.randrange(2, max(3, ticks // 3))), []).append((f"T{k}", 1))
        ctx.count("oracle:overlap")
        cases.append({"kind": "overlap", "items": items, "ticks": ticks, "plan": plan})
    # the recorded hole: a second live edit is not validated against the running program
    pc0 = pcode_of(EDIT0)
    idl = [(f"id_{k + 1}", c) for k, c in enumerate(pc0.split("\n"))]
    cases.append({"kind": "edit", "items": EDIT0, "macro": "A", "ticks": 60, "t": 12, "edit_kind": "text",
                  "edit": [[i, c + "x"] if c.strip() == "Mark: a2" else [i, c] for i, c in idl],
                  "prior_edit": True, "gap": 14})
    return cases


# ---------------------------------------------------------------------------------------------


def run(ctx: Check) -> int:
    import time
    from harness.interp_run import run_case
    t0 = time.time()
    tm: dict[str, float] = {}
    ctx.extra["timings_s"] = tm
    ctx.prove(MODULE, REQUIRED)
    tm["prove"] = round(time.time() - t0, 1)
    ctx.rule = ("fn stream: every call graph over 3 macros x 1 call slot and 2 macros x 2 slots (slot = nothing | plain "
                "call | call nested in a Watch), plus random nested macro texts (containers to depth 3, nested "
                "definitions, redefinitions, undefined callees); for every prefix of the definitions the table is built "
                "as the interpreter does and every entry is queried (name = own name and a foreign name). Non-trivial = "
                "the answer is a non-empty chain. m3 stream: macro-heavy methods (recursive shapes, generated acyclic "
                "definitions/redefinitions/calls-before-definition + grammar-generated methods with macros, 12% "
                "malformed) x schedules of 15-50 ticks with requests. Oracle: acyclic macro methods (Mark trace vs inline "
                "expansion), 16 shapes of recursion (self-call first / after another call / nested in or AFTER a Watch, Alarm, Block / via a second macro / foreign cycle), generated edits of every field of a started macro (text, threshold, indentation, order, insert/delete, header, nested lines; started judged from the Mark trace), methods with calls from Watch bodies that overlap main-flow calls.")
    # (1) function level
    fn_cases = gen_fn_cases(ctx)
    out, mout = ctx.correspond("macro-check-fn", "MacroCheck", fn_cases, lambda c: _fn_both(c)[0],
                               lambda c: _fn_both(c)[1],
                               nontrivial=lambda c, o: any(x not in ("ok", "[]") for x in o), impl_timeout=30)
    ctx.exhaustive = True
    ctx.extra["exhaustive_scope"] = "call graphs: 3 macros x 1 slot (343), 2 macros x 2 slots (625); everything else sampled"
    if mout:
        ctx.selftest("macro-check-fn", "MacroCheck", fn_cases,
                     lambda c: [ln.replace("check\t", "asis\t", 1) if ln.startswith("check\t") else ln
                                for ln in _fn_both(c)[0]], mout)
        answers = [x for o in out for x in o if x != "ok"]
        ctx.count("fn:answers", len(answers))
        ctx.count("fn:answers-nonempty-chain", sum(1 for x in answers if x not in ("[]",) and not x.startswith("err")))
        ctx.count("fn:impl-recursion-error", sum(1 for x in answers if x.startswith("err")))
    tm["fn-stream"] = round(time.time() - t0 - sum(tm.values()), 1)
    # (2) interpreter level
    m3_cases = gen_m3_cases(ctx, ctx.n(120, 10000))
    cache: dict[int, tuple[list[str], list[str]]] = {}

    def both(c):
        if id(c) not in cache:
            try:
                cache[id(c)] = run_case(c)
            except Exception as e:
                cache[id(c)] = ([], [f"harness-exception:{type(e).__name__}:{e}"])
        return cache[id(c)]
    ctx.correspond("interp-m3-macros", "Interp", m3_cases, lambda c: both(c)[0], lambda c: both(c)[1],
                   nontrivial=lambda c, o: any("|macros=" in x and "|macros=|" not in x for x in o), impl_timeout=60)
    tm["m3-stream"] = round(time.time() - t0 - sum(tm.values()), 1)
    # (3) oracle on the real engine
    corpus = []
    for c in load_corpus("C41"):
        if c.get("kind") in ("expand", "recursive", "edit", "overlap", "alarm-redefine"):
            corpus.append(dict(c, items=[_tup(x) for x in c["items"]]))
    cases = corpus + gen_oracle_cases(ctx, ctx.n(60, 6000), ctx.n(32, 640), ctx.n(150, 3000))
    ctx.monitor(cases, oracle, impl_timeout=120)
    tm["oracle"] = round(time.time() - t0 - sum(tm.values()), 1)
    ctx.assumptions = ["programs are the trees the real parser builds", "UOD commands CmdA/CmdB of the harness UOD",
                       "tick interval 0.125 s (dyadic), no Restart"]
    return ctx.finish(search=lambda c: c.monitor(gen_oracle_cases(c, c.n(40, 300), c.n(32, 96), c.n(12, 60)), oracle,
                                                 impl_timeout=120))


def replay(obj) -> int:
    c = obj.get("case", {})
    if isinstance(c, dict) and c.get("kind") in ("expand", "recursive", "edit", "overlap", "alarm-redefine"):
        from harness.macro_gen import pcode_of
        c["items"] = [_tup(x) for x in c["items"]]
        print(pcode_of(c["items"]))
        f = oracle(c)
        print("oracle:", f)
        return 1 if f else 0
    if isinstance(c, dict) and c.get("kind") == "fn":
        lines, outs = _fn_both(c)
        from vp import core
        mo = core.drive("MacroCheck", [lines])[0]
        print(c["pcode"])
        for ln, a, b in zip(lines, outs, mo):
            if a != b:
                print("DIFF", ln, "impl:", a, "model:", b)
        return 1 if outs != mo else 0
    print(obj)
    return 0


def _tup(x):
    if x and x[0] in ("macro", "watch", "alarm", "block"):
        return (x[0], x[1], [_tup(y) for y in x[2]])
    return tuple(x)
