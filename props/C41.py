"""C41 Macros run their latest definition once per call and never recurse.

Proof half: OPM.Properties.C41 — latest definition wins (dict assignment + lookup), a call starts the
children loop of the registered node at line 0 or fails, fresh invocations reset the body and count,
and the *repaired* recursion check `macro_calling_macro` refuses a call iff the macro can reach a call
of itself through any chain of calls (also calls nested in Watch/Alarm/Block bodies); witnesses of what
the function of the unchanged repository misses.
Tie half: (1) function-level correspondence of `MacroNode.macro_calling_macro` with
OPM.Model.MacroCheck.cascade on every call graph of a small scope + random nested macro texts;
(2) interpreter-level correspondence (OPM.Model.Interp) on macro-heavy methods.
Oracle (real Engine): Mark trace = inline expansion with the latest definition at call time; a call that
would make a macro call itself fails and nothing of that macro runs; edits / removals of started macros
are rejected and leave the run untouched.
"""
from __future__ import annotations

from vp.core import Check, Failure, enc, load_corpus

META = dict(
    level_text="Lean 4 theorems over the interpreter model and the model of MacroNode.macro_calling_macro: visiting "
               "'Macro: n' registers that node under n (later definition replaces the earlier one, other names untouched); "
               "'Call macro: n' either fails or starts the children loop of exactly the registered node at line 0 over "
               "its return frame (stack discipline: lines one at a time in order); a fresh invocation resets the body "
               "and increments run_started, the return increments run_completed; the repaired recursion check "
               "terminates and refuses a call IFF the macro reaches a call of itself through any chain of registered "
               "macros, including calls nested in Watch/Alarm/Block bodies (soundness + completeness of a visited-set "
               "DFS against the transitive relation, all programs, all tables). Tied to the code by function-level "
               "differential execution (exhaustive small call graphs + random nested texts) and by the M3 interpreter "
               "correspondence on macro-heavy methods.",
    level_note="The unchanged repository violates the property (a self-call after another call, or nested in a "
               "Watch/Alarm/Block of the body, is not detected: the run recurses one level per tick for ~250 ticks or "
               "re-invokes the macro for ever); fixes/C41-macro-recursion-check.diff repairs macro_calling_macro "
               "(17 lines, existing tests green) and the theorems are about the repaired function, so this check "
               "reports a VIOLATION on an unrepaired tree (the repair is commit 9931d3b0). The interpreter model "
               "OPM.Model.Interp uses the repaired check (OPM.Model.MacroCascade), so the M3 stream also runs recursive "
               "methods (16 shapes + generated redefinitions). NOT proved: the third sentence "
               "(a started macro may not be edited or removed) is MethodManager._validate_liveedit_method (merge model); "
               "it is checked by the engine oracle only. After an accepted live edit the method manager keeps a "
               "state-less program, so a later edit of a started macro is accepted (recorded finding, root cause in the "
               "C01 cluster). Trusted: Lean kernel, harness, parser (programs are what the real parser builds).",
    technique="Lean 4 proof (DFS soundness/completeness/termination, step theorems) + differential correspondence "
              "(function-level exhaustive small scope, interpreter-level) + engine oracle with reference expansion",
)
MODULE = "OPM.Properties.C41"
REQUIRED = ["OPM.C41.definition_registers_latest", "OPM.C41.call_runs_latest_definition",
            "OPM.C41.call_of_undefined_macro_fails", "OPM.C41.fresh_invocation_resets_body",
            "OPM.C41.call_return_counts", "OPM.C41.recursion_check_exact", "OPM.C41.recursion_check_total",
            "OPM.C41.asIs_misses_call_after_other_call", "OPM.C41.asIs_misses_call_inside_watch",
            "OPM.C41.asIs_diverges_on_foreign_cycle"]

# ---------------------------------------------------------------------------------------------
# function-level stream: MacroNode.macro_calling_macro vs OPM.MacroCheck.cascade


def _fn_case(pcode: str, extra_names: list[str]) -> dict:
    return {"kind": "fn", "pcode": pcode, "extra": extra_names}


_fn_cache: dict[int, tuple[list[str], list[str]]] = {}


def _fn_both(case: dict, op: str = "check") -> tuple[list[str], list[str]]:
    """(op lines, implementation answers) for one macro text: every prefix table × every entry."""
    key = id(case)
    if key in _fn_cache:
        return _fn_cache[key]
    import openpectus.lang.model.ast as p
    from harness.macro_gen import parse, macro_defs
    prog = parse(case["pcode"])
    nodes = prog.get_all_nodes()
    idx = {n.id: i for i, n in enumerate(nodes)}
    lines, outs = [], []
    for i, n in enumerate(nodes):
        if isinstance(n, p.ProgramNode):
            k = "program"
        elif isinstance(n, p.MacroNode):
            k = f"macro {enc(n.name)}"
        elif isinstance(n, p.CallMacroNode):
            k = f"call {enc(n.name)}"
        elif isinstance(n, p.WatchNode):
            k = "watch"
        elif isinstance(n, p.AlarmNode):
            k = "alarm"
        elif isinstance(n, p.BlockNode):
            k = "block"
        else:
            k = "other"
        lines.append(f"node\t{i}\t{idx[n.parent.id] if n.parent is not None else -1}\t{k}")
        outs.append("ok")
    defs = macro_defs(prog)
    table: dict = {}
    for d in defs:
        table[d.name] = d                      # registration order = source order, later definition wins
        lines.append("macros\t" + (";".join(f"{enc(k)}={idx[v.id]}" for k, v in table.items()) or "-"))
        outs.append("ok")
        for name, node in list(table.items()):
            for qname in [name] + [x for x in case["extra"] if x != name]:
                lines.append(f"{op}\t{enc(qname)}\t{idx[node.id]}")
                try:
                    r = node.macro_calling_macro(dict(table), qname)
                    outs.append("[]" if not r else ";".join(enc(x) for x in r))
                except RecursionError:
                    outs.append("err:RecursionError")
    _fn_cache[key] = (lines, outs)
    return lines, outs


def gen_fn_cases(ctx: Check) -> list[dict]:
    from harness.macro_gen import enumerate_graphs, gen_graph, pcode_of
    cases = []
    for items in enumerate_graphs(3, 1):                     # 343 graphs: exhaustive
        cases.append(_fn_case(pcode_of(items), []))
    full22 = list(enumerate_graphs(2, 2))                     # 625 graphs: exhaustive
    for items in full22:
        cases.append(_fn_case(pcode_of(items), []))
    ctx.count("fn:exhaustive-3x1", 343)
    ctx.count("fn:exhaustive-2x2", len(full22))
    if ctx.tier == "thorough":
        allg = list(enumerate_graphs(3, 2))
        for items in ctx.rng.sample(allg, 20000):
            cases.append(_fn_case(pcode_of(items), []))
        ctx.count("fn:sampled-3x2", 20000)
    for _ in range(ctx.n(300, 20000)):
        cases.append(_fn_case(pcode_of(gen_graph(ctx.rng)), [ctx.rng.choice(["A", "B", "Z"])]))
    ctx.count("fn:random-nested", ctx.n(300, 20000))
    return cases


# ---------------------------------------------------------------------------------------------
# interpreter-level stream on macro-heavy methods without call cycles


def gen_m3_cases(ctx: Check, n: int) -> list[dict]:
    from harness.gen_pcode import gen_program, gen_schedule
    from harness.macro_gen import SHAPES, gen_acyclic, gen_recursive, pcode_of, has_call_cycle
    rng = ctx.rng
    cases = []
    while len(cases) < n:
        x = rng.random()
        if x < 0.4:
            pcode = pcode_of(gen_acyclic(rng))
            ctx.count("m3:acyclic-macro-method")
        elif x < 0.55:
            items, shape = gen_recursive(rng, rng.choice(SHAPES))
            pcode = pcode_of(items)
            ctx.count("m3:recursive-macro-method")
        else:
            pcode, _ = gen_program(rng, features={"mark", "macro", "wait", "cmd", "thr", "blank", "block", "watch"},
                                   max_lines=14, malformed=(x > 0.9))
            if "Macro" not in pcode:
                continue
            try:
                if has_call_cycle(pcode):
                    ctx.count("m3:generated-with-call-cycle")
            except Exception:
                pass
            ctx.count("m3:malformed" if x > 0.9 else "m3:generated-with-macros")
        cases.append({"kind": "m3", "pcode": pcode, "ops": gen_schedule(rng, rng.randrange(15, 50))})
    return cases


# ---------------------------------------------------------------------------------------------
# engine oracle


def _marks(snap) -> list[str]:
    v = snap["tags"].get("Mark")
    return [x for x in str(v).split("; ") if x] if v else []


def _budget(items) -> int:
    """ticks that suffice for the expansion: every executed line a few ticks, waits their duration"""
    from harness.macro_gen import exec_calls  # noqa: F401
    table: dict = {}
    cost = [30]

    def run(body, depth=0):
        if depth > 8:
            return
        for it in body:
            cost[0] += 4
            if it[0] == "macro":
                table[it[1]] = it[2]
            elif it[0] == "wait":
                cost[0] += int(float(it[1][:-1]) * 8) + 2
            elif it[0] == "cmd":
                cost[0] += 4
            elif it[0] == "call" and it[1] in table:
                run(table[it[1]], depth + 1)
    run(items)
    return min(cost[0], 900)


def oracle_expand(case: dict) -> Failure | None:
    """Latest definition, once per call, lines in order: Mark trace == inline expansion."""
    from harness.engine_run import EngineRun
    from harness.macro_gen import expand, pcode_of
    items = case["items"]
    exp = expand(items)
    run = EngineRun(pcode_of(items))
    try:
        snap = None
        for _ in range(_budget(items)):
            snap = run.tick()
            if snap["tags"].get("Method Status") == "Error":
                break
        got = _marks(snap)
        status = snap["tags"].get("Method Status")
        if got != exp["marks"]:
            k = "macro-trace-differs-from-expansion"
            return Failure(k, case, f"Mark trace {got} but inline expansion with the latest definitions gives "
                                    f"{exp['marks']} (stop={exp['stop']} {exp['name']})")
        if exp["stop"] is None and status == "Error":
            return Failure("macro-method-fails-unexpectedly", case, f"Method Status Error after marks {got}")
        if exp["stop"] is not None and status != "Error":
            return Failure(f"call-does-not-fail:{exp['stop']}", case,
                           f"call of {exp['name']} ({exp['stop']}) did not fail; marks {got}")
        return None
    finally:
        run.close()


def oracle_recursive(case: dict) -> Failure | None:
    """A call that would make a macro call itself fails instead of recursing."""
    from harness.engine_run import EngineRun
    from harness.macro_gen import expected_recursive, pcode_of
    items, shape = case["items"], case["shape"]
    exp = expected_recursive(items, shape)
    run = EngineRun(pcode_of(items))
    try:
        snap = None
        for _ in range(case.get("ticks", 70)):
            snap = run.tick()
            if snap["tags"].get("Method Status") == "Error":
                break
        got, status = _marks(snap), snap["tags"].get("Method Status")
        refused = [n for n in snap["nodes"] if n["cls"] == "CallMacroNode" and n["arg"] == exp["refused"] and n["failed"]]
        if status != "Error" or not refused:
            return Failure(f"recursive-call-not-refused:{shape}", case,
                           f"'Call macro: {exp['refused']}' would make the macro call itself but did not fail within "
                           f"{case.get('ticks', 70)} ticks (Method Status {status}); marks so far {got}")
        if got != exp["marks"]:
            return Failure(f"recursive-macro-ran:{shape}", case,
                           f"the refused call still ran lines: marks {got}, expected {exp['marks']}")
        return None
    finally:
        run.close()


EDIT_ITEMS = [
    [("macro", "A", [("mark", "a1"), ("wait", "1s"), ("mark", "a2")]), ("mark", "s"), ("call", "A"), ("mark", "e"),
     ("call", "A")],
    [("macro", "B", [("mark", "b1")]), ("macro", "A", [("mark", "a1"), ("call", "B"), ("wait", "0.5s"), ("mark", "a2")]),
     ("call", "A"), ("wait", "0.5s"), ("mark", "e")],
    [("mark", "s"), ("macro", "A", [("cmd", "CmdB"), ("mark", "a1"), ("wait", "0.5s"), ("mark", "a2"), ("mark", "a3")]),
     ("call", "A"), ("call", "A")],
]


def _method(lines: list[tuple[str, str]]):
    import openpectus.protocol.models as Mdl
    return Mdl.Method(lines=[Mdl.MethodLine(id=i, content=c) for i, c in lines], version=0)


def _edit_variants(pcode: str, macro: str) -> list[tuple[str, list[tuple[str, str]]]]:
    """Edits of the macro `macro` (ids = those of Method.from_pcode: id_<line number>)."""
    lines = [(f"id_{k + 1}", c) for k, c in enumerate(pcode.split("\n"))]
    h = next(k for k, (_, c) in enumerate(lines) if c.strip() == f"Macro: {macro}")
    body = []
    k = h + 1
    while k < len(lines) and lines[k][1].startswith("    "):
        body.append(k)
        k += 1
    out = []
    last = body[-1]
    out.append(("change-last-body-line", [(i, c + "x") if j == last else (i, c) for j, (i, c) in enumerate(lines)]))
    out.append(("change-first-body-line", [(i, "    Mark: zz") if j == body[0] else (i, c) for j, (i, c) in enumerate(lines)]))
    out.append(("remove-macro", [x for j, x in enumerate(lines) if j != h and j not in body]))
    out.append(("remove-last-body-line", [x for j, x in enumerate(lines) if j != last]))
    out.append(("append-body-line", lines[:last + 1] + [("id_new", "    Mark: added")] + lines[last + 1:]))
    out.append(("macro-becomes-block", [(i, c.replace("Macro:", "Block:")) if j == h else (i, c)
                                        for j, (i, c) in enumerate(lines)]))
    return out


def _obs(snap) -> tuple:
    return (snap["tags"].get("Mark"), snap["tags"].get("Method Status"), snap["tags"].get("System State"),
            tuple((n["line"], n["started"], n["completed"], n["failed"]) for n in snap["nodes"]))


def oracle_edit(case: dict) -> Failure | None:
    """Edit / removal of a started macro is rejected with MethodEditError and leaves the run untouched."""
    from harness.engine_run import EngineRun
    from harness.macro_gen import pcode_of
    pcode = pcode_of(case["items"])
    n_ticks, t_edit, variant = case["ticks"], case["t"], case["variant"]
    name, new_lines = _edit_variants(pcode, "A")[variant]
    ref = EngineRun(pcode)
    try:
        ref_obs = [_obs(ref.tick()) for _ in range(n_ticks)]
    finally:
        ref.close()
    run = EngineRun(pcode)
    try:
        started = False
        for t in range(n_ticks):
            if t == t_edit:
                import openpectus.lang.model.ast as p
                macro = next(n for n in run.program_nodes() if isinstance(n, p.MacroNode) and n.name == "A")
                started = macro.run_started_count > 0
                if not started:
                    return None                                   # nothing is demanded before the macro started
                if case.get("prior_edit"):
                    lines = [(f"id_{k + 1}", c) for k, c in enumerate(pcode.split("\n"))]
                    r0 = run.edit(_method(lines + [("id_tail", "Mark: tail")]))
                    if r0 != "ok":
                        return None
                    for _ in range(case["gap"]):
                        run.tick()
                    macro = next(n for n in run.engine.interpreter._program.get_all_nodes()
                                 if isinstance(n, p.MacroNode) and n.name == "A")
                    if macro.run_started_count == 0:
                        return None
                    name2, new2 = _edit_variants(pcode + "\nMark: tail", "A")[variant]
                    r = run.edit(_method([(i if i != f"id_{len(lines) + 1}" else "id_tail", c) for i, c in new2]))
                    if r != "err:MethodEditError":
                        return Failure("started-macro-edited-after-accepted-edit", case,
                                       f"after an accepted live edit, edit '{name2}' of started macro A answered {r}")
                    return None
                r = run.edit(_method(new_lines))
                if r != "err:MethodEditError":
                    return Failure(f"started-macro-edit-accepted:{name}", case,
                                   f"edit '{name}' of macro A (run_started_count={macro.run_started_count}) at tick "
                                   f"{t} answered {r}, expected MethodEditError")
            o = _obs(run.tick())
            if o != ref_obs[t]:
                return Failure(f"rejected-macro-edit-disturbs-run:{name}", case,
                               f"after the rejected edit '{name}' at tick {t_edit} the run differs from the unedited "
                               f"run at tick {t}: {o[:3]} vs {ref_obs[t][:3]}")
        return None
    finally:
        run.close()


def oracle(case: dict) -> Failure | None:
    k = case["kind"]
    if k == "expand":
        return oracle_expand(case)
    if k == "recursive":
        return oracle_recursive(case)
    if k == "edit":
        return oracle_edit(case)
    raise ValueError(k)


def gen_oracle_cases(ctx: Check, n_expand: int, n_rec: int, n_edit: int) -> list[dict]:
    from harness.macro_gen import SHAPES, gen_acyclic, gen_recursive, expand
    rng = ctx.rng
    cases: list[dict] = []
    for _ in range(n_expand):
        items = gen_acyclic(rng)
        e = expand(items)
        ctx.count("oracle:expand:" + (e["stop"] or "runs-to-end"))
        ctx.count("oracle:expand:calls", e["calls"])
        cases.append({"kind": "expand", "items": items})
    for i in range(n_rec):
        items, shape = gen_recursive(rng, SHAPES[i % len(SHAPES)])
        ctx.count("oracle:recursive:" + shape)
        cases.append({"kind": "recursive", "items": items, "shape": shape, "ticks": 70})
    for _ in range(n_edit):
        k = rng.randrange(len(EDIT_ITEMS))
        cases.append({"kind": "edit", "items": EDIT_ITEMS[k], "ticks": 60, "t": rng.randrange(4, 45),
                      "variant": rng.randrange(6)})
        ctx.count("oracle:edit")
    # the recorded hole: a second live edit is not validated against the running program
    cases.append({"kind": "edit", "items": EDIT_ITEMS[0], "ticks": 60, "t": 9, "variant": 0, "prior_edit": True, "gap": 9})
    return cases


# ---------------------------------------------------------------------------------------------


def run(ctx: Check) -> int:
    import time
    from harness.interp_run import run_case
    t0 = time.time()
    tm: dict[str, float] = {}
    ctx.extra["timings_s"] = tm
    ctx.prove(MODULE, REQUIRED)
    tm["prove"] = round(time.time() - t0, 1)
    ctx.rule = ("fn stream: every call graph over 3 macros x 1 call slot and 2 macros x 2 slots (slot = nothing | plain "
                "call | call nested in a Watch), plus random nested macro texts (containers to depth 3, nested "
                "definitions, redefinitions, undefined callees); for every prefix of the definitions the table is built "
                "as the interpreter does and every entry is queried (name = own name and a foreign name). Non-trivial = "
                "the answer is a non-empty chain. m3 stream: macro-heavy methods (recursive shapes, generated acyclic "
                "definitions/redefinitions/calls-before-definition + grammar-generated methods with macros, 12% "
                "malformed) x schedules of 15-50 ticks with requests. Oracle: acyclic macro methods (Mark trace vs inline "
                "expansion), 16 shapes of recursion (self-call first / after another call / nested in or AFTER a Watch, Alarm, Block / via a second macro / foreign cycle), 6 kinds of edit of a started macro at random ticks.")
    # (1) function level
    fn_cases = gen_fn_cases(ctx)
    out, mout = ctx.correspond("macro-check-fn", "MacroCheck", fn_cases, lambda c: _fn_both(c)[0],
                               lambda c: _fn_both(c)[1],
                               nontrivial=lambda c, o: any(x not in ("ok", "[]") for x in o), impl_timeout=30)
    ctx.exhaustive = True
    ctx.extra["exhaustive_scope"] = "call graphs: 3 macros x 1 slot (343), 2 macros x 2 slots (625); everything else sampled"
    if mout:
        ctx.selftest("macro-check-fn", "MacroCheck", fn_cases,
                     lambda c: [ln.replace("check\t", "asis\t", 1) if ln.startswith("check\t") else ln
                                for ln in _fn_both(c)[0]], mout)
        answers = [x for o in out for x in o if x != "ok"]
        ctx.count("fn:answers", len(answers))
        ctx.count("fn:answers-nonempty-chain", sum(1 for x in answers if x not in ("[]",) and not x.startswith("err")))
        ctx.count("fn:impl-recursion-error", sum(1 for x in answers if x.startswith("err")))
    tm["fn-stream"] = round(time.time() - t0 - sum(tm.values()), 1)
    # (2) interpreter level
    m3_cases = gen_m3_cases(ctx, ctx.n(120, 10000))
    cache: dict[int, tuple[list[str], list[str]]] = {}

    def both(c):
        if id(c) not in cache:
            try:
                cache[id(c)] = run_case(c)
            except Exception as e:
                cache[id(c)] = ([], [f"harness-exception:{type(e).__name__}:{e}"])
        return cache[id(c)]
    ctx.correspond("interp-m3-macros", "Interp", m3_cases, lambda c: both(c)[0], lambda c: both(c)[1],
                   nontrivial=lambda c, o: any("|macros=" in x and "|macros=|" not in x for x in o), impl_timeout=60)
    tm["m3-stream"] = round(time.time() - t0 - sum(tm.values()), 1)
    # (3) oracle on the real engine
    corpus = []
    for c in load_corpus("C41"):
        if c.get("kind") in ("expand", "recursive", "edit"):
            corpus.append(dict(c, items=[_tup(x) for x in c["items"]]))
    cases = corpus + gen_oracle_cases(ctx, ctx.n(60, 6000), ctx.n(32, 640), ctx.n(24, 1500))
    ctx.monitor(cases, oracle, impl_timeout=120)
    tm["oracle"] = round(time.time() - t0 - sum(tm.values()), 1)
    ctx.assumptions = ["programs are the trees the real parser builds", "UOD commands CmdA/CmdB of the harness UOD",
                       "tick interval 0.125 s (dyadic), no Restart"]
    return ctx.finish(search=lambda c: c.monitor(gen_oracle_cases(c, c.n(40, 300), c.n(32, 96), c.n(12, 60)), oracle,
                                                 impl_timeout=120))


def replay(obj) -> int:
    c = obj.get("case", {})
    if isinstance(c, dict) and c.get("kind") in ("expand", "recursive", "edit"):
        from harness.macro_gen import pcode_of
        c["items"] = [_tup(x) for x in c["items"]]
        print(pcode_of(c["items"]))
        f = oracle(c)
        print("oracle:", f)
        return 1 if f else 0
    if isinstance(c, dict) and c.get("kind") == "fn":
        lines, outs = _fn_both(c)
        from vp import core
        mo = core.drive("MacroCheck", [lines])[0]
        print(c["pcode"])
        for ln, a, b in zip(lines, outs, mo):
            if a != b:
                print("DIFF", ln, "impl:", a, "model:", b)
        return 1 if outs != mo else 0
    print(obj)
    return 0


def _tup(x):
    if x and x[0] in ("macro", "watch", "alarm", "block"):
        return (x[0], x[1], [_tup(y) for y in x[2]])
    return tuple(x)
